#!/bin/bash
# tools/seeded_verify.sh <ID> <dir with patch.diff demo.js expected.txt | demo.rs>
# Confirms in the verification worktree /tmp/vwt: (1) demo passes without the patch, (2) fails with it,
# (3) the repository's test suite passes with the patch. Leaves /tmp/vwt clean. Prints a summary line.
set -u
id="$1"; dir="$2"
wt="${WT:-/tmp/vwt}"
[ -d "$wt" ] || git -C /repo worktree add -q --detach "$wt" HEAD   # scratch worktree outside /repo and /verif; remove with: git -C /repo worktree remove --force "$wt"
export CARGO_NET_OFFLINE=true
cd "$wt" || exit 2
git checkout -q -- . ; git clean -fdq -e target
git checkout -q --detach "$(git -C /repo rev-parse HEAD)" 2>/dev/null
base_ok=skip; mut_fail=skip
if [ -f "$dir/demo.js" ]; then
  cargo build -p boa_cli --offline -q 2> /tmp/vwt-build.log || { echo "SEEDED $id: base build failed"; exit 2; }
  (cd "$dir" && timeout 120 $wt/target/debug/boa ${DEMO_FLAGS:-} demo.js) > /tmp/vwt-base.out 2>&1
  if diff -q /tmp/vwt-base.out "$dir/expected.txt" > /dev/null; then base_ok=yes; else base_ok=no; fi
fi
# demo.rs: demo_rs.conf gives dest=<file in the tree> mode=new|append cmd=<cargo test command>
place_rs() { . "$dir/demo_rs.conf"; if [ "$mode" = append ]; then cat "$dir/demo.rs" >> "$wt/$dest"; else mkdir -p "$(dirname "$wt/$dest")"; cp "$dir/demo.rs" "$wt/$dest"; fi; }
run_rs() { . "$dir/demo_rs.conf"; (cd "$wt" && eval "$cmd") > "$1" 2>&1; grep -aq "test result: ok" "$1" && ! grep -aq "test result: FAILED\|error\[" "$1"; }
if [ ! -f "$dir/demo.js" ] && [ -f "$dir/demo_rs.conf" ]; then
  place_rs; if run_rs /tmp/vwt-base.out; then base_ok=yes; else base_ok=no; fi
  git checkout -q -- . ; git clean -fdq -e target
fi
git apply "$dir/patch.diff" || { echo "SEEDED $id: patch does not apply"; exit 2; }
if [ ! -f "$dir/demo.js" ] && [ -f "$dir/demo_rs.conf" ]; then
  place_rs; if run_rs /tmp/vwt-mut.out; then mut_fail=no; else mut_fail=yes; fi
  . "$dir/demo_rs.conf"; if [ "$mode" = append ]; then git checkout -q -- "$dest"; git apply "$dir/patch.diff" 2>/dev/null; else rm -f "$wt/$dest"; fi
fi
if [ -f "$dir/demo.js" ]; then
  cargo build -p boa_cli --offline -q 2> /tmp/vwt-build.log || { echo "SEEDED $id: mutant build failed"; git checkout -q -- .; exit 2; }
  (cd "$dir" && timeout 120 $wt/target/debug/boa ${DEMO_FLAGS:-} demo.js) > /tmp/vwt-mut.out 2>&1
  if diff -q /tmp/vwt-mut.out "$dir/expected.txt" > /dev/null; then mut_fail=no; else mut_fail=yes; fi
fi
tests="not-run"
if [ "${SKIP_TESTS:-0}" != 1 ]; then
  cargo nextest run --workspace --no-fail-fast --offline --test-threads 8 > /tmp/vwt-tests.log 2>&1
  tests="$(grep -a "Summary" /tmp/vwt-tests.log | tail -1)"
fi
git checkout -q -- . ; git clean -fdq -e target
echo "SEEDED $id: demo-passes-on-base=$base_ok demo-fails-with-patch=$mut_fail tests: $tests"
