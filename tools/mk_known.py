import json
F=[]
def add(id,prop,status,sig,what,stream,repro,commit=None):
    e=dict(id=id,property=prop,status=status,signature=sig,what=what,stream=stream,repro=repro)
    if commit: e['commit']=commit
    F.append(e)
add("F1","C01","fixed","","i32 fast path of % panicked on -2147483648 % -1","core","function f(a,b){return a%b}\nprint(Object.is(f(-2147483648,-1), -0));\n","04e6c49")
add("F1b","C02","fixed","","i32 fast path of % panicked on -2147483648 % -1","src","function f(a,b){return a%b}\nf(-2147483648,-1);\n","04e6c49")
add("F18","C01","fixed","","0 / negative int gave +0 instead of -0","core","var z = 0;\nprint(Object.is(z / -1, -0), Object.is(0 / -5, -0));\n","c12ca9f")
add("F19","C01","fixed","","anonymous function as parameter default was not named after the parameter","core","function f(p = () => 1, q = function(){}, r = class {}) { return p.name + q.name + r.name }\nprint(f());\n","e09fc51")
add("F2","C01","open","prints-differ","object rest element copies keys already bound by a preceding nested pattern: let {a:{b}, ...r} = {a:{b:1}, c:2} gives r.a","core","let {a:{b}, ...r} = {a:{b:1}, c:2};\nprint(Object.keys(r).join());\n")
add("F3","C01","open","prints-differ","let/var redeclaration in one function body is not an early SyntaxError","core","function f(){ let a; var a; }\nprint('ran');\n")
add("F4","C01","open","","body-level var redeclaring a parameter of a function with parameter expressions is not initialised from the parameter (ReferenceError / wrong value)","core","function f(x, a = () => x){ var x; return x }\nprint(f(1));\nfunction g(p, [q, r] = [1, 2]) { var r = 5; return p + q + r }\nprint(g(1));\n")
add("F6","C04","open","registers-off","a register-resident local used as left operand sees a later assignment in the same expression: let x=1; x+(x=5) gives 10","scope","function f(){ let x=1; return x+(x=5) }\nprint(f());\n")
add("F6b","C01","open","prints-differ","a register-resident local used as left operand sees a later assignment in the same expression: let x=1; x+(x=5) gives 10","core","function f(){ let x=1; return x+(x=5) }\nprint(f());\n")
add("F7","C04","open","registers-off","postfix ++ on a register-resident local holding a string yields the string, not ToNumeric(old value)","scope","function f(){ let p='5'; let q=p++; return typeof q }\nprint(f());\n")
add("F7b","C01","open","prints-differ","postfix ++ on a register-resident local holding a string yields the string, not ToNumeric(old value)","core","function f(){ let p='5'; let q=p++; return typeof q }\nprint(f());\n")
add("F8","C04","open","registers-off","register-resident lexical bindings have no run-time TDZ state: a let read through another switch clause, or assigned before initialisation, does not throw","scope","function f(k){ switch(k){ case 0: let y=7; break; case 1: return typeof y } }\ntry { print(f(1)); } catch (e) { print(e.name); }\nfunction g(){ try { z = 1; } catch (e) { return e.name } let z; return 'no error' }\nprint(g());\n")
add("F8b","C01","open","prints-differ","register-resident lexical bindings have no run-time TDZ state: a let read through another switch clause, or assigned before initialisation, does not throw","core","function g(){ try { z = 1; } catch (e) { return e.name } let z; return 'no error' }\nprint(g());\n")
add("F9","C05","open","default","strength reduction rewrites ident ** 2 to ident * ident: valueOf runs twice, and a BigInt ** 2 (number) no longer throws","lit","var o = { valueOf() { print('valueOf'); return 3; } };\nprint(o ** 2);\nvar b = 3n;\ntry { print(b ** 2); } catch (e) { print(e.name); }\n")
add("F9b","C01","open","prints-differ","strength reduction rewrites ident ** 2 to ident * ident: valueOf runs twice","core","var o = { valueOf() { print('valueOf'); return 3; } };\nprint(o ** 2);\n")
add("F17","C01","open","","an exception caught inside a finally block leaves value-stack entries that replace the pending return value: try{return -1}finally{try{id(7,null.p)}catch(e){}} returns 7","core","function id(x){return x}\nfunction m() { try { return -1; } finally { try { id(7, null.p) } catch (e) {} } }\nprint(m());\n")
json.dump({"findings":F,"note":"committed by hand; never written at run time. status open => the check prints KNOWN-FINDING and exits 0 while the repro still fails with this signature; status fixed => the repro is an ordinary regression case."},open('/verif/KNOWN_FINDINGS.json','w'),indent=1)
