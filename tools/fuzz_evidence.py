#!/usr/bin/env python3
"""Append the libFuzzer campaign's measured counts to the evidence file of a property."""
import json, re, sys, os
prop, stream, secs = sys.argv[1], sys.argv[2], sys.argv[3]
root = os.path.dirname(os.path.dirname(os.path.abspath(__file__)))
log = f"{root}/fuzz/corpus-run/{prop}-{stream}/run.log"
ev = f"{root}/evidence/{prop}.json"
try:
    text = open(log, errors='replace').read()
    e = json.load(open(ev))
except Exception as ex:
    sys.exit(0)
m = re.search(r'stat::number_of_executed_units:\s*(\d+)', text)
cov = re.findall(r'cov: (\d+) ft: (\d+)', text)
corp = re.findall(r'corp: (\d+)', text)
entry = {"stream": stream, "seconds": int(secs), "executions": int(m.group(1)) if m else None,
         "final_coverage_edges": int(cov[-1][0]) if cov else None, "final_features": int(cov[-1][1]) if cov else None,
         "corpus_size": int(corp[-1]) if corp else None,
         "crash_artifacts": len([f for f in os.listdir(f"{root}/fuzz/corpus-run/{prop}-{stream}/artifacts") if f.startswith('crash-')])}
e['coverage'].setdefault('libfuzzer_campaigns', []).append(entry)
if entry["executions"]:
    e['coverage']['evaluations'] = e['coverage'].get('evaluations', 0) + entry["executions"]
json.dump(e, open(ev, 'w'), indent=1)
