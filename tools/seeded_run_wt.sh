#!/bin/bash
# tools/seeded_run_wt.sh <seeded dir> <PROP...> — evaluate the checks against a patched copy of boa WITHOUT touching /repo:
# the patch is applied in the worktree /tmp/vwt and the harness is built against it with cargo's `paths` override.
set -u
dir="$1"; shift
wt=/tmp/vwt2
[ -d "$wt" ] || git -C /repo worktree add -q --detach "$wt" HEAD   # scratch worktree outside /repo and /verif; remove with: git -C /repo worktree remove --force "$wt"
export CARGO_NET_OFFLINE=true
cd "$wt" && git checkout -q -- . && git checkout -q --detach "$(git -C /repo rev-parse HEAD)" && git apply "$dir/patch.diff" || { echo "patch does not apply"; exit 2; }
mkdir -p /tmp/bvroot/evidence /tmp/bvroot/harness; for f in oracle KNOWN_FINDINGS.json known.d; do ln -sfn /verif/$f /tmp/bvroot/$f; done
cd /verif/harness && CARGO_TARGET_DIR=/verif/harness/target-mut cargo build --quiet --config 'paths=["/tmp/vwt2/core/engine","/tmp/vwt2/core/gc","/tmp/vwt2/core/ast","/tmp/vwt2/core/parser","/tmp/vwt2/core/interner","/tmp/vwt2/core/string","/tmp/vwt2/core/macros"]' 2> /tmp/seeded-build.log || { echo "harness build against mutant failed"; tail -5 /tmp/seeded-build.log; cd $wt; git checkout -q -- .; exit 2; }
for p in "$@"; do
  BV_ROOT=/tmp/bvroot VERIF_SEED="${VERIF_SEED:-1}" /verif/harness/target-mut/debug/bv check "$p" quick > /tmp/seeded-$p.log 2>&1; rc=$?
  echo "check $p on $(basename "$dir"): exit $rc $(grep -a "quick:" /tmp/seeded-$p.log | tail -1)"
  grep -a "^VIOLATION" /tmp/seeded-$p.log | head -2
done
cd "$wt" && git checkout -q -- .
