#!/usr/bin/env python3
"""tools/seeded_import.py: copy evaluated sub-agent mutants from /tmp/mut-out-<ID>/ into /verif/seeded/<name>/
with a meta.json that records what the author reported and what I ran / observed."""
import json, os, shutil, subprocess, sys, re
NAMES = {
 'C02': ('C02-generator-abrupt-borrow', ['C02'], 'wild stream gained re-entrant callbacks (valueOf/toString/getters/Proxy traps/thenables that mutate or re-enter the receiver of the running builtin) and generators whose try/catch/finally touch their own generator object while being resumed by next/return/throw; before that no C02 stream re-entered the object whose method was running'),
 'C03': ('C03-return-skips-pop-environments', ['C03', 'C01'], 'C03 (bytecode verifier: environment depth mismatch at the merge in front of the finally block) caught it as built; C01 only after the generator gained captured block bindings (`__caps` thunks called at program end) and the scope-exit template (abrupt exits through nested capturing scopes into finally)'),
 'C05': ('C05-dce-nan-literal-truthy', ['C05'], 'literal-condition template extended from plain literals to constant expressions that fold to every falsy/truthy edge value (0/0, -"x", "a"*2, +"1e", 0*-1, 1e-320, 0n*1n, ...) and to generated literal expressions, in if/else-if/ternary/while/do-while/for/logical forms'),
 'C08': ('C08-native-call-limit-check-removed', ['C08'], 'new stream `frameless`: recursion that nests activations without any user-function call (self-evaluating strings through direct/indirect eval, chains of generators delegating through yield*/for-of/spread/eval built iteratively and resumed once); this also exposed the on-tree defect F37 (direct eval never checked the limits)'),
 'C09': ('C09-skip-finalize-without-strong-garbage', ['C09'], 'none (model-based history check as built)'),
 'C11': ('C11-latin1-str-eq-bytes', ['C11'], 'none'),
 'C12': ('C12-signalling-nan-not-canonicalised', ['C12'], 'none'),
 'C13': ('C13-subnormal-literal-as-f32', ['C13'], 'none'),
 'C14': ('C14-negative-zero-dense-int', ['C14'], 'none'),
 'C15': ('C15-shared-copy-backward-forward-chunks', None, 'buffers now start with a position-dependent byte pattern (an all-zero buffer hid wrong moves) and copyWithin gained overlapping moves whose byte distance is a multiple of 8, in both directions'),
 'C16': ('C16-asyncgen-next-while-draining', ['C16'], 'caught as built; async-generator requests issued from later microtask ticks and return(promise/thenable) added as well'),
 'C17': ('C17-evaluated-member-skips-cycle-root', None, ''),
 'C18': ('C18-stringify-empty-object-stack', None, ''),
 'C19': ('C19-generator-expr-prints-inferred-name', None, ''),
 'C20': ('C20-map-unlock-resets-empty-count', None, 'prog generator gained the map-iter template (Map/Set mutated under live and abandoned iterators), which also exposed the on-tree defects F40/F41'),
}
def main():
    results = json.load(open('/tmp/seeded_results.json')) if os.path.exists('/tmp/seeded_results.json') else {}
    head = subprocess.check_output(['git','-C','/repo','rev-parse','--short','HEAD']).decode().strip()
    for k,(name,caught,strength) in NAMES.items():
        src=f'/tmp/mut-out-{k}'
        if not os.path.exists(src+'/patch.diff'): print('missing',k); continue
        dst=f'/verif/seeded/{name}'
        os.makedirs(dst, exist_ok=True)
        for f in os.listdir(src):
            p=os.path.join(src,f)
            if os.path.isdir(p):
                shutil.copytree(p, os.path.join(dst,f), dirs_exist_ok=True); continue
            if os.path.getsize(p) > 200_000 or f in ('boa-orig','boa.orig','nextest.log','meta.json') or f.startswith('test-') : continue
            shutil.copy(p, os.path.join(dst,f))
        am={}
        try: am=json.load(open(src+'/meta.json'))
        except Exception as e: am={'summary':'(author meta.json missing; see the report quoted in DESIGN.md section 12)'}
        r=results.get(k,{})
        meta={
          'property': k,
          'breaks': am.get('summary'),
          'needs_to_manifest': am.get('needs'),
          'files': am.get('files'),
          'author_tests': am.get('tests'),
          'author_demo': am.get('demo'),
          'checked_against_repo_commit': head,
          'what_i_ran': 'tools/seeded_verify.sh (demonstration on the unmodified worktree, demonstration with the patch, repository test suite with the patch) and tools/seeded_run_wt.sh <dir> <checks> (harness built against the patched worktree through a cargo paths override, quick tier, VERIF_SEED=1)',
          'my_confirmation': r.get('verify'),
          'caught_by': r.get('caught', caught),
          'not_caught_by': r.get('missed'),
          'strengthening': r.get('strength', strength),
        }
        json.dump(meta, open(dst+'/meta.json','w'), indent=1)
        print('imported', name)
main()
