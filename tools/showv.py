#!/usr/bin/env python3
import json,glob,sys
pid=sys.argv[1]
for f in glob.glob(f'/verif/replays/{pid}/*.json'):
    v=json.load(open(f))
    src=v.get('rendered','')
    i=src.find("return s + '}';\n}\n")
    if i>=0: src=src[i+18:]
    print('=====',f,'\nSIG:',v['sig']); print(v['detail'][:int(sys.argv[2]) if len(sys.argv)>2 else 700]); print('--- input'); print(src[:3000])
