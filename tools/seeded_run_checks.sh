#!/bin/bash
# tools/seeded_run_checks.sh <seeded dir> <PROP...>  — apply the patch to /repo, run the quick checks, undo.
set -u
dir="$1"; shift
cd /verif
git -C /repo apply "$dir/patch.diff" || { echo "patch does not apply"; exit 2; }
for p in "$@"; do
  ./check "$p" quick > /tmp/seeded-$p.log 2>&1; rc=$?
  echo "check $p on $(basename "$dir"): exit $rc $(grep -a "quick:" /tmp/seeded-$p.log | tail -1)"
  grep -a "^VIOLATION" /tmp/seeded-$p.log | head -3
done
git -C /repo checkout -- .
