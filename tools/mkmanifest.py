#!/usr/bin/env python3
"""Generate /verif/MANIFEST.json from the table below."""
import json, subprocess
hooks = subprocess.run(['git','-C','/repo','log','--format=%h %s'],capture_output=True,text=True).stdout.splitlines()
hook_commits=[l.split()[0] for l in hooks if 'verif hooks' in l][::-1]
C = {
 'C01': ("differential testing of generated core-language programs against V8 through 6-7 entry modes (eval bytes, Script::parse from a reader, UTF-16, async budget 1/7/256, host JsObject::call); an unlisted difference in prints or completion is a violation", "V8 (node 20) is trusted as reference on the generated fragment (no Annex B, no implementation-defined text, bounded recursion); generator exclusions for the listed known findings", "property-based differential testing vs V8 (tape-driven program generator)"),
 'C02': ("six input families (byte soup, token mutants, grammar programs, arbitrary-AST programs, builtin-call programs, mixed sequences on one context) run under catch_unwind in worker processes; any panic, EnginePanic or abort is a violation", "hangs are reported as inconclusive; nesting capped at 64", "fuzzing with a crash/validity oracle (structured generators + token mutation)"),
 'C03': ("static bytecode verifier applied to the hook's dump of every code block compiled from generated programs: decoding, operand ranges and kinds, targets, and all-paths depth consistency incl. exception edges", "the per-opcode effect table is a model of the VM calibrated on the unchanged tree; value-stack depth is analysed per path in blocks with a finally dispatch", "property-based testing with a validity predicate (bytecode verifier) over compiler output"),
 'C04': ("same program under all shortcuts on vs forced-conservative code generation (hooks); traces must be equal", "the switches only separate what they switch; a defect common to both placements is C01's", "metamorphic / differential testing across compiler configurations"),
 'C05': ("same program with default optimizer vs empty optimizer options (thorough: all pass subsets); traces must be equal", "relies on Context::set_optimizer_options", "differential testing across optimizer configurations"),
 'C06': ("access-site/mutation histories run with inline caches on, off (hook) and on under forced collections; traces must be equal (thorough: uncached trace also equals V8)", "transparency relative to the uncached path", "stateful differential testing across cache configurations"),
 'C07': ("histories of host entries on one context with depth probes after every entry and a counter model for the effects of successful entries", "vm_depths hook reads frames, value stack, environments, host depth, pending exception", "stateful (model-based) property testing of host-entry histories"),
 'C08': ("route x loop-form x wrapper templates with limits around the need: under the limit nothing changes, over the limit the host sees RuntimeLimitError, no catch/finally/later statement runs, counters are bounded", "work is bounded in script-visible counters, not CPU time", "property-based testing with invariants over trace and host result (metamorphic limit raise)"),
 'C09': ("model-based testing of boa_gc's API against a graph-reachability model: bounded-exhaustive small histories plus long random histories", "single thread-local heap; payload type defined by the harness", "model-based stateful testing (exhaustive small scope + random)"),
 'C10': ("same program with no collection vs a forced collection every k-th allocation; weak-observation programs checked against what the generator knows to be reachable; heap statistics return to baseline after context drop", "collections are forced through the gc hook after context creation", "differential testing over collection schedules + invariant on heap statistics"),
 'C11': ("every constructor pair x every public operation of boa_string compared with a Vec<u16> reference model (exhaustive short sequences + random), plus JS-level scripts against V8", "hash checked for agreement across representations", "model-based / differential property testing"),
 'C13': ("number<->text operations on structured and random doubles/texts compared with exact arithmetic (Python fractions/decimal)", "toString(radix) for non-integers checked to 1 ulp only (spec leaves digits implementation-approximated)", "differential testing against an exact-arithmetic oracle"),
 'C15': ("typed-array/buffer/DataView histories compared line by line with a Python byte model (V8 as second opinion), with guard buffers", "single agent; NaN payload propagation not asserted", "model-based stateful testing"),
 'C16': ("racing promise/async programs: boa trace under evaluate+run_jobs, async budgets, partial job draining must all equal V8's trace", "V8 (node 20) as the specification's job order; two ES2024-vs-node-20 differences excluded", "differential testing across schedules and against V8"),
 'C18': ("JSON texts/values: accept/reject vs an independent ECMA-404 recogniser, values vs a Python model, stringify byte-for-byte vs V8, round trips", "nesting accepted up to the pinned depth", "grammar-based fuzzing with recogniser + differential oracles"),
 'C19': ("texts from risk snippets, generated programs, arbitrary ASTs, mutants, token soup: parser totality with in-text error positions and interning check, print/parse fixpoint by text and AST equality, trace of printed vs original", "module goal: totality only (boa has no printer for module items)", "round-trip property testing + fuzzing"),
 'C20': ("same program after different thread/context/realm/process histories must give byte-identical traces; cross-realm programs compared with V8", "programs avoid Math.random/Date.now/locale", "metamorphic testing over histories + differential vs V8 for realms"),
}
PENDING = {}
import os
for k in ['C12','C14','C17']:
    if os.path.exists(f'/verif/harness/src/props/{k.lower()}.rs') and 'stub' not in open(f'/verif/harness/src/props/{k.lower()}.rs').read()[:200] and os.environ.get('INCLUDE_'+k):
        pass
EXTRA = {
 'C12': ("tag/untag round trips through the public JsValue API over i32 and structured/random f64 bit patterns and heap values; scripts manufacturing bit patterns compared with V8; two-build differential (nan-boxed vs jsvalue-enum) in the thorough tier", "NaN payload bits after passing through a JS value are implementation-defined (compared as NaN only)", "round-trip property testing + differential across builds"),
 'C14': ("array operation histories: boa vs V8, storage-route variants of the same logical array, array-like and Proxy renderings", "V8 as reference for spec algorithms; consistent comparators only", "stateful differential testing"),
 'C17': ("module graphs (all shapes <= 3 nodes, random to 8) with throwing/awaiting/re-exporting modules: body order, load counts, rejection classes vs V8 SourceTextModule and a reference model of the synchronous order", "V8 as reference for async graphs", "exhaustive small-scope + random graph testing with model and differential oracles"),
}
claimed = dict(C)
for k,v in EXTRA.items():
    if os.environ.get('INCLUDE_'+k) or os.path.exists(f'/verif/evidence/.include_{k}'):
        claimed[k]=v
checks=[]
for k in sorted(claimed):
    text,note,tech=claimed[k]
    checks.append({"property_id":k,"quick_cmd":f"./check {k} quick","thorough_cmd":f"./check {k} thorough","evidence_file":f"/verif/evidence/{k}.json","replay_cmd_template":f"./check {k} --replay {{path}}","engine":"bv","level_claimed":{"category":"exploration","text":text,"design_ref":f"DESIGN.md section 5 {k}"},"level_note":note,"technique":tech})
na=[{"property_id":k,"reason":"check under construction in this session (builder agent has not finished); will be claimed once it is silent on the unchanged tree"} for k in sorted(EXTRA) if k not in claimed]
m={"version":1,
 "setup_cmd":"cd /verif/harness && CARGO_NET_OFFLINE=true cargo build 2>&1 | tail -3",
 "hooks":{"guard":"--cfg boa_verif","enable":"rustflags --cfg boa_verif in /verif/harness/.cargo/config.toml; the harness has path dependencies on /repo/core/* so every check rebuilds from /repo's working tree","baseline_off_cmd":"cd /repo && cargo nextest run --workspace --no-fail-fast --tool-config-file pb:/w/lib/nextest.toml --profile pb --test-threads 8 --offline","source_commits":hook_commits,"add_only":True},
 "engines":[{"name":"bv","path":"/verif/harness","serves_properties":sorted(claimed),"kind_free_text":"Rust property-based testing harness: tape-driven generators, worker processes, tape+line shrinking, V8/Python oracle servers, replay files"}],
 "checks":checks,
 "not_applicable":na,
 "notes":"Exit codes: 0 held (KNOWN-FINDING lines allowed), 1 violation(s) with VIOLATION lines, 2 inconclusive/infrastructure. Known findings: /verif/KNOWN_FINDINGS.json and /verif/known.d/*.json."}
json.dump(m,open('/verif/MANIFEST.json','w'),indent=1)
print('claimed',sorted(claimed),'na',[x['property_id'] for x in na])
