#!/bin/bash
# main-session build: working tree minus the files owned by builder agents (those come from git HEAD)
set -e
dst=/verif/harness/priv-main
rm -rf "$dst"; mkdir -p "$dst"
git -C /verif archive HEAD harness | tar -x -C "$dst" --strip-components=1
cd /verif/harness
for f in Cargo.toml src/*.rs src/genp/prog.rs src/genp/arb.rs src/genp/wild.rs  src/genp/ic.rs src/genp/asyncp.rs src/genp/limits.rs src/genp/weak.rs src/genp/order.rs src/props/mod.rs src/props/c0[1-8].rs src/props/c09.rs src/genp/gcgen.rs src/genp/gcops.rs src/props/c10.rs src/props/c11.rs src/genp/c11ctor.rs src/genp/c11js.rs src/genp/c11model.rs src/props/c12.rs src/props/c13.rs src/props/c14.rs src/genp/arr.rs src/props/c15.rs src/genp/ta.rs src/props/c16.rs src/props/c18.rs src/genp/json.rs src/props/c19.rs src/props/c20.rs; do
  [ -f "$f" ] && cp "$f" "$dst/$f"
done
printf "pub mod arr;\npub mod modgraph;\npub mod arb;\npub mod asyncp;\npub mod c11ctor;\npub mod c11js;\npub mod c11model;\npub mod gcgen;\npub mod gcops;\npub mod ic;\npub mod json;\npub mod limits;\npub mod order;\npub mod prog;\npub mod ta;\npub mod weak;\npub mod wild;\n" > "$dst/src/genp/mod.rs"
cd "$dst"
export CARGO_NET_OFFLINE=true CARGO_TARGET_DIR=/verif/harness/target
cargo build 2>&1 | grep -E '^(error|warning: unused)' -A14 | head -80
