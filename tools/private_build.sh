#!/bin/bash
# Build a PRIVATE copy of the harness so that other people's half-written files cannot break your build.
# usage: tools/private_build.sh <tag> <own files relative to harness/src> ...
#   e.g. tools/private_build.sh c09 props/c09.rs genp/gcops.rs
# The private tree = the committed harness (git HEAD of /verif) + YOUR listed files copied from /verif/harness/src.
# Files under genp/ that you list are declared in genp/mod.rs automatically.
# Output binary: /verif/harness/target-<tag>/debug/bv   (run it with BV_ROOT=/verif)
set -e
tag="$1"; shift
dst="/verif/harness/priv-$tag"
rm -rf "$dst"; mkdir -p "$dst"
git -C /verif archive HEAD harness | tar -x -C "$dst" --strip-components=1
for f in "$@"; do
  mkdir -p "$(dirname "$dst/src/$f")"
  cp "/verif/harness/src/$f" "$dst/src/$f"
  case "$f" in
    genp/*.rs)
      m="$(basename "$f" .rs)"
      grep -q "pub mod $m;" "$dst/src/genp/mod.rs" || echo "pub mod $m;" >> "$dst/src/genp/mod.rs";;
  esac
done
cd "$dst"
export CARGO_NET_OFFLINE=true CARGO_TARGET_DIR="/verif/harness/target-$tag"
cargo build 2>&1 | grep -E '^(error|warning: unused)' -A14 | head -${BV_ERR_LINES:-80}
test -x "$CARGO_TARGET_DIR/debug/bv" && echo "built: $CARGO_TARGET_DIR/debug/bv"
