// Persistent V8 oracle: JSON lines on stdin -> JSON lines on stdout.
// request:  {"id":n, "kind":"script", "src":"...", "timeout":ms}
//           {"id":n, "kind":"module", "modules":{"name":"src",...}, "entries":["a",...], "timeout":ms}
// response: {"id":n, "prints":[...], "completion":"..."} (+ "loads":[...], "entry_results":[...] for modules)
'use strict';
const vm = require('vm');
const util = require('util');
const readline = require('readline');

function esc(s) {
  let out = '';
  for (let i = 0; i < s.length; i++) {
    const u = s.charCodeAt(i);
    if (u >= 0x20 && u < 0x7f && u !== 0x5c) out += s[i];
    else out += '\\u' + u.toString(16).padStart(4, '0');
  }
  return out;
}

const f64 = new Float64Array(1);
const u64 = new BigUint64Array(f64.buffer);
function numRepr(n) {
  if (n !== n) return 'NaN';
  if (n === 0 && 1 / n < 0) return '-0';
  if (n === Infinity) return 'Infinity';
  if (n === -Infinity) return '-Infinity';
  f64[0] = n;
  return u64[0].toString(16).padStart(16, '0');
}

function repr(v) {
  if (v === undefined) return 'undefined';
  if (v === null) return 'null';
  switch (typeof v) {
    case 'boolean': return String(v);
    case 'number': return 'number:' + numRepr(v);
    case 'string': return 'string:' + esc(v);
    case 'bigint': return 'bigint:' + v.toString(10);
    case 'symbol': return 'symbol';
    case 'function': return 'object:function';
    default:
      if (typeof v === 'object' && util.types.isProxy(v)) {
        // boa: is_callable / is_array look through proxies
        try { if (Array.isArray(v)) return 'object:array'; } catch (e) { return 'object'; }
        return 'object';
      }
      return Array.isArray(v) ? 'object:array' : 'object';
  }
}

const KINDS = ['AggregateError', 'TypeError', 'RangeError', 'ReferenceError', 'SyntaxError', 'EvalError', 'URIError', 'Error'];

function makeContext(prints, withRealmApi) {
  const sandbox = {};
  const ctx = vm.createContext(sandbox, { microtaskMode: 'afterEvaluate' });
  // print is created inside the context so that its realm is the context's realm
  const mk = vm.runInContext(`(function(push){ return function print(){ var a=[]; for (var i=0;i<arguments.length;i++){ var x=arguments[i]; a.push(typeof x==='symbol' ? 'Symbol()' : String(x)); } push(a); }; })`, ctx);
  const print = mk((a) => { prints.push(a.map(esc).join(' ')); });
  Object.defineProperty(sandbox, 'print', { value: print, writable: true, enumerable: false, configurable: true });
  if (withRealmApi) {
    // newRealm(): returns a function evaluating source text in a fresh context (test262 $262.createRealm().evalScript)
    const mkRealm = vm.runInContext(`(function(host){ return function newRealm(){ var ev = host(); return function evalInRealm(src){ return ev(String(src)); }; }; })`, ctx);
    const newRealm = mkRealm(() => {
      const sb2 = {};
      const c2 = vm.createContext(sb2, { microtaskMode: 'afterEvaluate' });
      const mk2 = vm.runInContext(`(function(push){ return function print(){ var a=[]; for (var i=0;i<arguments.length;i++){ var x=arguments[i]; a.push(typeof x==='symbol' ? 'Symbol()' : String(x)); } push(a); }; })`, c2);
      Object.defineProperty(sb2, 'print', { value: mk2((a) => { prints.push(a.map(esc).join(' ')); }), writable: true, enumerable: false, configurable: true });
      return (src) => vm.runInContext(src, c2, { timeout: 3000 });
    });
    Object.defineProperty(sandbox, 'newRealm', { value: newRealm, writable: true, enumerable: false, configurable: true });
  }
  const protos = vm.runInContext(`[${KINDS.map(k => k + '.prototype').join(',')}]`, ctx);
  // remove node-specific globals that boa does not have, to keep `typeof x` probes aligned
  return { ctx, protos };
}

function throwClass(e, protos) {
  if (e !== null && (typeof e === 'object') && util.types.isNativeError(e)) {
    if (e.code === 'ERR_SCRIPT_EXECUTION_TIMEOUT') return 'limit:timeout';
    let p = e;
    for (let depth = 0; depth < 20 && p !== null; depth++) {
      p = Object.getPrototypeOf(p);
      const i = protos.indexOf(p);
      if (i >= 0) return 'throw:' + KINDS[i];
    }
    // an error object of another realm (cross-realm programs): classify by its constructor's name
    try {
      const cn = e.constructor && e.constructor.name;
      if (typeof cn === 'string' && KINDS.includes(cn)) return 'throw:' + cn;
    } catch (_) {}
    // an error from the outer realm (e.g. RangeError: Maximum call stack size exceeded is in-context; others)
    if (e instanceof RangeError) return 'throw:RangeError';
    if (e instanceof TypeError) return 'throw:TypeError';
    if (e instanceof SyntaxError) return 'throw:SyntaxError';
    if (e instanceof ReferenceError) return 'throw:ReferenceError';
    return 'throw:Error';
  }
  return 'throw:opaque:' + repr(e);
}

function runScript(req) {
  const prints = [];
  const { ctx, protos } = makeContext(prints, !!req.realm_api);
  let script;
  try {
    script = new vm.Script(req.src, { filename: 'case.js' });
  } catch (e) {
    return { id: req.id, prints, completion: 'early-syntax-error' };
  }
  let completion;
  try {
    const v = script.runInContext(ctx, { timeout: req.timeout || 5000 });
    completion = 'value:' + repr(v);
  } catch (e) {
    completion = throwClass(e, protos);
  }
  return { id: req.id, prints, completion };
}

async function runModules(req) {
  const prints = [];
  const { ctx, protos } = makeContext(prints);
  const loads = [];
  const cache = new Map();
  const errors = [];
  function getModule(name) {
    if (cache.has(name)) return cache.get(name);
    if (!(name in req.modules)) throw new Error('no such module ' + name);
    loads.push(name);
    const m = new vm.SourceTextModule(req.modules[name], { context: ctx, identifier: name,
      importModuleDynamically: async (spec) => { const mm = getModule(spec); await mm.link(linker); await mm.evaluate(); return mm; } });
    cache.set(name, m);
    return m;
  }
  async function linker(spec) { return getModule(spec); }
  const entry_results = [];
  for (const entry of req.entries) {
    let res;
    try {
      const m = getModule(entry);
      await m.link(linker);
      await m.evaluate({ timeout: req.timeout || 5000 });
      res = 'fulfilled';
    } catch (e) {
      if (e instanceof SyntaxError && !(protos.includes(Object.getPrototypeOf(e)))) res = 'rejected:throw:SyntaxError';
      else res = 'rejected:' + throwClass(e, protos);
    }
    entry_results.push(res);
  }
  return { id: req.id, prints, loads, entry_results, completion: 'module' };
}

const rl = readline.createInterface({ input: process.stdin, terminal: false });
let chain = Promise.resolve();
rl.on('line', (line) => {
  if (!line.trim()) return;
  chain = chain.then(async () => {
    let req;
    try { req = JSON.parse(line); } catch (e) { process.stdout.write(JSON.stringify({ id: -1, error: 'bad json' }) + '\n'); return; }
    let resp;
    try {
      if (req.kind === 'module') resp = await runModules(req);
      else resp = runScript(req);
    } catch (e) {
      resp = { id: req.id, error: String(e && e.stack || e) };
    }
    process.stdout.write(JSON.stringify(resp) + '\n');
  });
});
rl.on('close', () => { chain.then(() => process.exit(0)); });
