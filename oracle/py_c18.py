#!/usr/bin/env python3
"""C18 oracle server (JSON lines, stdlib only).

(1) `recognise(units)`: an independent ECMA-404 recogniser over a list of UTF-16 code units
    (explicit stack, no recursion, no code shared with the `json` module).
(2) `model(units)`: the ECMAScript value mapping of an accepted text, computed with Python's
    `json` module under strict hooks (numbers by correctly rounded float(), duplicate keys
    last-wins but first position, JS own-property order, `__proto__` an ordinary key).
(3) `dump(value)`: the canonical dump the test scripts print (same text as the JS `dump`).

requests:  {"id":n,"kind":"parse","texts":[[u16,...],...]}
             -> {"id":n,"results":[{"ok":bool,"pos":int,"dump":str|null,"self":str|null},...]}
           {"id":n,"kind":"verdict","open":[..],"n":int,"leaf":[..],"close":[..],"m":int}
             -> {"id":n,"ok":bool}          (text = open*n + leaf + close*m, recogniser only)
           {"id":n,"kind":"roundtrip","src":[..],"out":[..]|null}
             -> {"id":n,"want":str,"out_ok":bool|null,"out_dump":str|null}
               want = dump(normalise(model(src))) where normalise maps -0 -> 0 and +-Infinity -> null
"""
import json
import re
import struct
import sys

WS = (0x20, 0x09, 0x0A, 0x0D)
HEX = set(b"0123456789abcdefABCDEF")
ESC1 = set(b'"\\/bfnrt')


def _string(u, i, n):
    """u[i] is the opening quote; returns the index after the closing quote or -1."""
    i += 1
    while i < n:
        c = u[i]
        if c == 0x22:
            return i + 1
        if c < 0x20:
            return -1
        if c == 0x5C:
            if i + 1 >= n:
                return -1
            e = u[i + 1]
            if e in ESC1:
                i += 2
            elif e == 0x75:
                for k in range(i + 2, i + 6):
                    if k >= n or u[k] not in HEX:
                        return -1
                i += 6
            else:
                return -1
        else:
            i += 1
    return -1


def _digits(u, i, n):
    j = i
    while j < n and 0x30 <= u[j] <= 0x39:
        j += 1
    return j


def _number(u, i, n):
    if i < n and u[i] == 0x2D:
        i += 1
    if i >= n:
        return -1
    if u[i] == 0x30:
        i += 1
    elif 0x31 <= u[i] <= 0x39:
        i = _digits(u, i, n)
    else:
        return -1
    if i < n and u[i] == 0x2E:
        j = _digits(u, i + 1, n)
        if j == i + 1:
            return -1
        i = j
    if i < n and u[i] in (0x65, 0x45):
        i += 1
        if i < n and u[i] in (0x2B, 0x2D):
            i += 1
        j = _digits(u, i, n)
        if j == i:
            return -1
        i = j
    return i


LITS = ([0x74, 0x72, 0x75, 0x65], [0x66, 0x61, 0x6C, 0x73, 0x65], [0x6E, 0x75, 0x6C, 0x6C])


def recognise(u):
    """(accepted, position where the decision was taken)"""
    n = len(u)
    i = 0
    stack = []  # True = array, False = object
    st = "V"  # V value | F value or ']' | K0 key or '}' | K key | E after a value
    while True:
        while i < n and u[i] in WS:
            i += 1
        if st == "E":
            if not stack:
                return (i == n), i
            if i >= n:
                return False, i
            c = u[i]
            i += 1
            if stack[-1]:
                if c == 0x2C:
                    st = "V"
                elif c == 0x5D:
                    stack.pop()
                else:
                    return False, i - 1
            else:
                if c == 0x2C:
                    st = "K"
                elif c == 0x7D:
                    stack.pop()
                else:
                    return False, i - 1
            continue
        if i >= n:
            return False, i
        c = u[i]
        if st in ("K0", "K"):
            if st == "K0" and c == 0x7D:
                stack.pop()
                i += 1
                st = "E"
                continue
            if c != 0x22:
                return False, i
            j = _string(u, i, n)
            if j < 0:
                return False, i
            i = j
            while i < n and u[i] in WS:
                i += 1
            if i >= n or u[i] != 0x3A:
                return False, i
            i += 1
            st = "V"
            continue
        # st is V or F
        if st == "F" and c == 0x5D:
            stack.pop()
            i += 1
            st = "E"
            continue
        if c == 0x5B:
            stack.append(True)
            i += 1
            st = "F"
            continue
        if c == 0x7B:
            stack.append(False)
            i += 1
            st = "K0"
            continue
        if c == 0x22:
            j = _string(u, i, n)
        elif c == 0x2D or 0x30 <= c <= 0x39:
            j = _number(u, i, n)
        else:
            j = -1
            for lit in LITS:
                if u[i:i + len(lit)] == lit:
                    j = i + len(lit)
        if j < 0:
            return False, i
        i = j
        st = "E"


# ------------------------------------------------------------------------------------------
# value mapping

def units_to_str(u):
    return struct.pack("<%dH" % len(u), *u).decode("utf-16-le", "surrogatepass")


def str_to_units(s):
    b = s.encode("utf-16-le", "surrogatepass")
    return list(struct.unpack("<%dH" % (len(b) // 2), b))


INDEX = re.compile(r"\A(0|[1-9][0-9]{0,9})\Z")


def is_array_index(k):
    return bool(INDEX.match(k)) and int(k) <= 4294967294


class Obj:
    __slots__ = ("items",)

    def __init__(self, pairs):
        d = {}
        for k, v in pairs:  # dict keeps the position of the first insertion, last value wins
            d[k] = v
        idx = sorted((k for k in d if is_array_index(k)), key=int)
        rest = [k for k in d if not is_array_index(k)]
        self.items = [(k, d[k]) for k in idx + rest]


def _reject(x):
    raise ValueError("constant " + x)


def model(u):
    return json.loads(units_to_str(u), object_pairs_hook=Obj, parse_float=float, parse_int=float, parse_constant=_reject)


def normalise(v):
    if isinstance(v, float):
        if v != v or v in (float("inf"), float("-inf")):
            return None
        return 0.0 if v == 0 else v
    if isinstance(v, list):
        return [normalise(x) for x in v]
    if isinstance(v, Obj):
        o = Obj([])
        o.items = [(k, normalise(x)) for k, x in v.items]
        return o
    return v


def _s(out, s):
    units = str_to_units(s)
    out.extend(ord(c) for c in "s%d:" % len(units))
    out.extend(units)


def _dump(v, out):
    if v is None:
        out.extend(b"null")
    elif v is True:
        out.extend(b"true")
    elif v is False:
        out.extend(b"false")
    elif isinstance(v, float):
        out.extend(b"n" + struct.pack(">d", v).hex().encode())
    elif isinstance(v, str):
        _s(out, v)
    elif isinstance(v, list):
        out.append(0x5B)
        for i, x in enumerate(v):
            if i:
                out.append(0x2C)
            _dump(x, out)
        out.append(0x5D)
    elif isinstance(v, Obj):
        out.append(0x7B)
        for i, (k, x) in enumerate(v.items):
            if i:
                out.append(0x2C)
            _s(out, k)
            out.append(0x3D)
            _dump(x, out)
        out.append(0x7D)
    else:
        raise TypeError(type(v))


def esc(units):
    return "".join(chr(c) if 0x20 <= c < 0x7F and c != 0x5C else "\\u%04x" % c for c in units)


def dump(v):
    out = []
    _dump(v, out)
    return esc(out)


def parse_one(u):
    ok, pos = recognise(u)
    r = {"ok": ok, "pos": pos, "dump": None, "self": None}
    # self check: the recogniser and python's strict json must agree on the verdict
    try:
        v = model(u)
        jok = True
    except (ValueError, RecursionError) as e:
        jok = False
        jerr = repr(e)
    if ok and jok:
        r["dump"] = dump(v)
    elif ok != jok:
        # known and intended difference: none (NaN/Infinity are rejected by the hook; python's
        # json accepts exactly the ECMA-404 white space and rejects raw controls)
        r["self"] = "recogniser=%s json=%s %s" % (ok, jok, "" if jok else jerr)
    return r


def handle(req):
    kind = req.get("kind")
    if kind == "parse":
        return {"results": [parse_one(u) for u in req["texts"]]}
    if kind == "verdict":
        u = req["open"] * req["n"] + req["leaf"] + req["close"] * req["m"]
        return {"ok": recognise(u)[0]}
    if kind == "roundtrip":
        want = dump(normalise(model(req["src"])))
        out = req.get("out")
        if out is None:
            return {"want": want, "out_ok": None, "out_dump": None}
        ok = recognise(out)[0]
        return {"want": want, "out_ok": ok, "out_dump": dump(model(out)) if ok else None}
    raise ValueError("unknown kind %r" % kind)


def main():
    for line in sys.stdin:
        line = line.strip()
        if not line:
            continue
        rid = -1
        try:
            req = json.loads(line)
            rid = req.get("id", -1)
            resp = handle(req)
            resp["id"] = rid
        except Exception as e:  # noqa: BLE001 - reported to the harness as an oracle error
            resp = {"id": rid, "error": "%s: %s" % (type(e).__name__, e)}
        sys.stdout.write(json.dumps(resp) + "\n")
        sys.stdout.flush()


if __name__ == "__main__":
    sys.setrecursionlimit(3000)
    main()
