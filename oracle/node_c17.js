// C17 oracle: V8's vm.SourceTextModule driven like the boa harness drives Module::load_link_evaluate.
// JSON lines on stdin -> JSON lines on stdout.
// request:  {"id":n, "modules":{"name":"src",...}, "entries":["a","b","a",...]}
// response: {"id":n, "prints":[...], "stage_prints":[k0,k1,...] (number of prints after each entry stage),
//            "entry_results":["fulfilled" | "rejected:throw:<Class>" | "pending" | "link-error:<Class>"],
//            "same_error":[bool|null,...]  (rejection value identical to the previous evaluation of the same entry),
//            "dyn":[["referrer","spec"],...]}
//
// Differences from node_oracle.js `kind:"module"`:
//  * the default (shared) microtask queue is used, so top-level await settles; a stage ends when a macrotask
//    (setImmediate) runs, i.e. after the microtask queue has drained - the analogue of Context::run_jobs();
//  * every module of the request is created and linked up front (linking runs no module code): node refuses to
//    link a graph that contains an already errored module, the specification (and boa) evaluate it and rethrow;
//  * an entry can be listed several times: evaluate() is simply called again;
//  * a promise that is still pending after the drain is reported as "pending";
//  * dynamic import() calls are logged; the import is continued one microtask later (see importModuleDynamically).
'use strict';
const vm = require('vm');
const util = require('util');
const readline = require('readline');

function esc(s) {
  let out = '';
  for (let i = 0; i < s.length; i++) {
    const u = s.charCodeAt(i);
    if (u >= 0x20 && u < 0x7f && u !== 0x5c) out += s[i];
    else out += '\\u' + u.toString(16).padStart(4, '0');
  }
  return out;
}

function repr(v) {
  if (v === undefined) return 'undefined';
  if (v === null) return 'null';
  switch (typeof v) {
    case 'boolean': return String(v);
    case 'number': return 'number:' + String(v);
    case 'string': return 'string:' + esc(v);
    case 'bigint': return 'bigint:' + v.toString(10);
    case 'symbol': return 'symbol';
    case 'function': return 'object:function';
    default: return Array.isArray(v) ? 'object:array' : 'object';
  }
}

const KINDS = ['AggregateError', 'TypeError', 'RangeError', 'ReferenceError', 'SyntaxError', 'EvalError', 'URIError', 'Error'];

function throwClass(e, protos) {
  if (e !== null && typeof e === 'object' && util.types.isNativeError(e)) {
    let p = e;
    for (let depth = 0; depth < 20 && p !== null; depth++) {
      p = Object.getPrototypeOf(p);
      const i = protos.indexOf(p);
      if (i >= 0) return 'throw:' + KINDS[i];
    }
    for (const k of ['RangeError', 'TypeError', 'SyntaxError', 'ReferenceError']) {
      if (e instanceof globalThis[k]) return 'throw:' + k;
    }
    return 'throw:Error';
  }
  return 'throw:opaque:' + repr(e);
}

const drain = () => new Promise((r) => setImmediate(r));

async function runCase(req) {
  const prints = [];
  const sandbox = {};
  const ctx = vm.createContext(sandbox);
  const mk = vm.runInContext(`(function(push){ return function print(){ var a=[]; for (var i=0;i<arguments.length;i++){ var x=arguments[i]; a.push(typeof x==='symbol' ? 'Symbol()' : String(x)); } push(a); }; })`, ctx);
  const print = mk((a) => { prints.push(a.map(esc).join(' ')); });
  Object.defineProperty(sandbox, 'print', { value: print, writable: true, enumerable: false, configurable: true });
  const protos = vm.runInContext(`[${KINDS.map((k) => k + '.prototype').join(',')}]`, ctx);

  const dyn = [];
  const cache = new Map();
  let parseError = null;
  function getModule(name) {
    if (cache.has(name)) return cache.get(name);
    if (!Object.prototype.hasOwnProperty.call(req.modules, name)) throw new TypeError('no such module ' + name);
    const m = new vm.SourceTextModule(req.modules[name], {
      context: ctx,
      identifier: name,
      importModuleDynamically: async (spec) => {
        dyn.push([name, String(spec)]);
        const mm = getModule(String(spec));
        if (mm.status === 'unlinked') await mm.link(linker);
        // ContinueDynamicImport runs module.Evaluate() in a job, never inside the synchronous
        // InnerModuleEvaluation walk that is executing the import() call: leave that walk first
        // (node would evaluate a linked module right here, nested in the importer's body, and
        // refuses evaluate() on a module of the walk that is on the stack).
        await null;
        for (let k = 0; k < 8 && mm.status === 'evaluating'; k++) await null;
        await mm.evaluate();
        return mm;
      },
    });
    cache.set(name, m);
    return m;
  }
  async function linker(spec) { return getModule(spec); }

  // create + link everything first (no module code runs during linking)
  let linkError = null;
  const names = Object.keys(req.modules);
  try {
    for (const n of names) getModule(n);
  } catch (e) {
    parseError = e;
  }
  if (!parseError) {
    for (const n of names) {
      const m = cache.get(n);
      try {
        if (m.status === 'unlinked') await m.link(linker);
      } catch (e) {
        linkError = e;
        break;
      }
    }
  }

  const entry_results = [];
  const same_error = [];
  const stage_prints = [];
  const last = new Map(); // entry -> {state, value}
  for (const entry of req.entries) {
    if (parseError || linkError) {
      const e = parseError || linkError;
      entry_results.push('link-error:' + throwClass(e, protos));
      same_error.push(null);
      stage_prints.push(prints.length);
      continue;
    }
    const rec = { state: 'pending', value: undefined };
    try {
      const m = getModule(entry);
      m.evaluate().then(() => { rec.state = 'fulfilled'; }, (e) => { rec.state = 'rejected'; rec.value = e; });
    } catch (e) {
      rec.state = 'api-error';
      rec.value = e;
    }
    await drain();
    await drain();
    let res;
    if (rec.state === 'fulfilled') res = 'fulfilled';
    else if (rec.state === 'rejected') res = 'rejected:' + throwClass(rec.value, protos);
    else if (rec.state === 'pending') res = 'pending';
    else res = 'api-error:' + String(rec.value && rec.value.code);
    entry_results.push(res);
    const prev = last.get(entry);
    same_error.push(prev && prev.state === 'rejected' && rec.state === 'rejected' ? Object.is(prev.value, rec.value) : null);
    last.set(entry, rec);
    stage_prints.push(prints.length);
  }
  return { id: req.id, prints, stage_prints, entry_results, same_error, dyn };
}

const rl = readline.createInterface({ input: process.stdin, terminal: false });
let chain = Promise.resolve();
let open = true;
rl.on('line', (line) => {
  if (!line.trim()) return;
  chain = chain.then(async () => {
    let req;
    try { req = JSON.parse(line); } catch (e) { process.stdout.write(JSON.stringify({ id: -1, error: 'bad json' }) + '\n'); return; }
    let resp;
    try {
      resp = await runCase(req);
    } catch (e) {
      resp = { id: req.id, error: String((e && e.stack) || e) };
    }
    process.stdout.write(JSON.stringify(resp) + '\n');
  });
});
rl.on('close', () => { open = false; chain.then(() => process.exit(0)); });
// keep the event loop alive while a case is draining
setInterval(() => {}, 1 << 30);
