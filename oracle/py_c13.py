#!/usr/bin/env python3
"""Exact-arithmetic oracle and case generator for property C13 (number <-> text conversions).

JSON-lines server (one object per line in, one per line out, `id` echoed). Python stdlib only.

Requests
  {"op":"gen",   "stream":"doubles"|"texts", "tape":"<hex>", "exclude":[<class names>]}
        -> {"ops":[<op line>...], "labels":[...]}          (generator: tape -> op lines)
  {"op":"judge", "ops":[<op line>...], "actual":[<printed line>...]}
        -> {"res":[{"ok":bool,"exp":str,"fn":str,"cls":str,"nt":bool,"labels":[..],"note":str}...]}
  {"op":"expect","ops":[...]} -> {"exp":[...]}  (expected print line only, "?" when only a tolerance applies)

Op lines (this is also the rendered form of a case):
  D <bits16hex> str                 String(x) | x.toString() | `${x}` | ''+x | x.toString(10) | JSON.stringify(x)
                                    | bits(Number(String(x))) | bits(+String(x)) | bits(parseFloat(String(x)))
  D <bits> radix <r>                x.toString(r)
  D <bits> fixed <d|u>              x.toFixed(d)
  D <bits> exp <d|u>                x.toExponential(d)
  D <bits> prec <p|u>               x.toPrecision(p)
  T number <-> <json string>        bits(Number(s))
  T plus <-> <json string>          bits(+s)
  T parsefloat <-> <json string>    bits(parseFloat(s))
  T parseint <r|u> <json string>    bits(parseInt(s, r))
  T numbig <-> <json string>        bits(Number(BigInt(s)))      (plain decimal integer texts only)
  L <literal source text>           bits(eval(text)) | bits of the literal embedded in a script

The expectations are computed with fractions.Fraction / big integers; repr(float) supplies the
shortest round-trip digits. Where ECMA-262 leaves latitude the judge accepts every permitted
answer (and labels it) instead of demanding the ideal one:
  * RoundMVResult: more than 20 significant digits -> F(option1) or F(option2) allowed
  * parseInt radix 10 with more than 20 significant digits -> digits after the 20th may be 0
  * parseInt radix not in {2,4,8,10,16,32} -> implementation-approximated (relative 2^-40 sanity bound)
  * toString(radix): exact digits are required for power-of-two radices and for integers up to
    2^53; otherwise the digits only have to denote a value within 1 ulp of x
"""
import sys, json, struct, math, re
from fractions import Fraction

INF = float('inf')
DIG = '0123456789abcdefghijklmnopqrstuvwxyz'
MAXBITS = 0x7fefffffffffffff

# sensitivity switch used once by hand to show that the comparison is live (see the report):
# BREAK = 'fixed-half-down' makes the toFixed expectation round ties down.
BREAK = None


def f2b(x):
    return struct.pack('>d', x).hex()


def b2f(h):
    return struct.unpack('>d', bytes.fromhex(h))[0]


def bits_of(x):
    return struct.unpack('>Q', struct.pack('>d', x))[0]


def from_bits(b):
    return struct.unpack('>d', struct.pack('>Q', b & 0xffffffffffffffff))[0]


def out_bits(x):
    """What the JS helper tb() prints for a number."""
    if x != x:
        return 'NaN'
    return f2b(x)


def to_double(fr):
    """Correctly rounded (nearest, ties to even) double of an exact Fraction; overflow -> inf."""
    if fr == 0:
        return 0.0
    neg = fr < 0
    if neg:
        fr = -fr
    try:
        v = fr.numerator / fr.denominator  # int/int true division is correctly rounded
    except OverflowError:
        v = INF
    return -v if neg else v


def step(x, k):
    """k-th neighbour of finite x >= 0 in bit order (clamped to [0, MAX])."""
    b = bits_of(abs(x)) + k
    b = max(0, min(MAXBITS, b))
    return from_bits(b)


def ulp_fraction(x):
    """largest gap between finite x and its neighbours, exact"""
    a = abs(x)
    up = step(a, 1)
    dn = step(a, -1)
    g1 = Fraction(up) - Fraction(a) if up != a else Fraction(0)
    g2 = Fraction(a) - Fraction(dn) if dn != a else Fraction(0)
    if a == from_bits(MAXBITS):
        g1 = Fraction(2) ** 971
    return max(g1, g2)


def floor_log10(X):
    e = len(str(X.numerator)) - len(str(X.denominator))
    while X < Fraction(10) ** e:
        e -= 1
    while X >= Fraction(10) ** (e + 1):
        e += 1
    return e


# --------------------------------------------------------------------------------------------
# Number::toString (radix 10)

def shortest_digits(x):
    """x > 0 finite -> (digits, n) with x ~ 0.d1d2...dk * 10^n, k minimal (repr = shortest, closest)."""
    r = repr(x)
    if 'e' in r:
        m, e = r.split('e')
        e = int(e)
    else:
        m, e = r, 0
    if '.' in m:
        ip, fp = m.split('.')
    else:
        ip, fp = m, ''
    digits = ip + fp
    point = len(ip) + e
    st = digits.lstrip('0')
    point -= len(digits) - len(st)
    st = st.rstrip('0')
    return st, point


def fmt_digits(d, n):
    k = len(d)
    if k <= n <= 21:
        return d + '0' * (n - k)
    if 0 < n <= 21:
        return d[:n] + '.' + d[n:]
    if -6 < n <= 0:
        return '0.' + '0' * (-n) + d
    e = n - 1
    sign = '+' if e > 0 else '-'
    if k == 1:
        return d + 'e' + sign + str(abs(e))
    return d[0] + '.' + d[1:] + 'e' + sign + str(abs(e))


def js_num_to_string(x):
    if x != x:
        return 'NaN'
    if x == 0:
        return '0'
    if x < 0:
        return '-' + js_num_to_string(-x)
    if x == INF:
        return 'Infinity'
    d, n = shortest_digits(x)
    return fmt_digits(d, n)


NUMSTR_RE = re.compile(r'^(-?)(?:(\d+)(?:\.(\d+))?(?:e([+-]\d+))?)$')


def valid_shortest(s, x):
    """Is s a Number::toString output permitted by the letter of the spec (k minimal, round trip,
    canonical layout) even though its last digit is not the closest one?"""
    if x != x or x == 0 or abs(x) == INF:
        return False
    m = NUMSTR_RE.match(s)
    if not m:
        return False
    if (m.group(1) == '-') != (x < 0):
        return False
    ip, fp, ex = m.group(2), m.group(3) or '', int(m.group(4) or 0)
    digits = ip + fp
    val = Fraction(int(digits)) * Fraction(10) ** (ex - len(fp))
    if to_double(val) != abs(x):
        return False
    st = digits.lstrip('0')
    n = len(ip) + ex - (len(digits) - len(st))
    st = st.rstrip('0')
    d, _ = shortest_digits(abs(x))
    if len(st) != len(d):
        return False
    return fmt_digits(st, n) == s.lstrip('-')


EXPSTR_RE = re.compile(r'^(-?)(\d)(?:\.(\d+))?e([+-])(\d+)$')


def valid_shortest_exponential(s, x):
    """toExponential(undefined): any n with the minimal digit count whose value converts back to x is
    permitted by the letter of the spec (the last digit is 'not necessarily uniquely determined')"""
    if x != x or x == 0 or abs(x) == INF:
        return False
    m = EXPSTR_RE.match(s)
    if not m or (m.group(1) == '-') != (x < 0):
        return False
    digits = m.group(2) + (m.group(3) or '')
    e = int(m.group(5)) * (-1 if m.group(4) == '-' else 1)
    if m.group(4) == '-' and e == 0:
        return False
    if digits[0] == '0' or (len(digits) > 1 and digits[-1] == '0'):
        return False
    d, _ = shortest_digits(abs(x))
    if len(digits) != len(d):
        return False
    val = Fraction(int(digits)) * Fraction(10) ** (e - (len(digits) - 1))
    return to_double(val) == abs(x)


# --------------------------------------------------------------------------------------------
# radix conversions

def int_to_radix(n, r):
    if n == 0:
        return '0'
    out = []
    while n:
        n, d = divmod(n, r)
        out.append(DIG[d])
    return ''.join(reversed(out))


def exact_radix(x, r):
    """exact digits of finite x in radix r; only terminates when the fraction is r-adic"""
    X = Fraction(x)
    s = ''
    if X < 0:
        s = '-'
        X = -X
    ip = X.numerator // X.denominator
    fr = X - ip
    out = int_to_radix(ip, r)
    if fr:
        out += '.'
        guard = 0
        while fr:
            fr *= r
            d = fr.numerator // fr.denominator
            out += DIG[d]
            fr -= d
            guard += 1
            if guard > 1200:
                return None
    return s + out


RADIX_RE = re.compile(r'^(-?)([0-9a-z]+)(?:\.([0-9a-z]+))?$')


def parse_radix_string(s, r):
    m = RADIX_RE.match(s)
    if not m:
        return None
    ip, fp = m.group(2), m.group(3) or ''
    for c in ip + fp:
        if DIG.index(c) >= r:
            return None
    if len(ip) > 1 and ip[0] == '0':
        return None
    if m.group(3) is not None and fp.endswith('0'):
        return None  # trailing fractional zeros are never part of a shortest form
    v = Fraction(int(ip, r))
    if fp:
        v += Fraction(int(fp, r), r ** len(fp))
    return -v if m.group(1) else v


def is_pow2(r):
    return r in (2, 4, 8, 16, 32)


# --------------------------------------------------------------------------------------------
# toFixed / toExponential / toPrecision

def to_fixed(x, f):
    """returns (string, tie)"""
    if not (0 <= f <= 100):
        return 'throw:RangeError', False
    if x != x or abs(x) == INF:
        return js_num_to_string(x), False
    X = Fraction(x)
    s = ''
    if X < 0:
        s = '-'
        X = -X
    if X >= 10 ** 21:
        return s + js_num_to_string(float(X)), False
    scaled = X * 10 ** f
    fl = scaled.numerator // scaled.denominator
    rem = scaled - fl
    tie = rem == Fraction(1, 2)
    if BREAK == 'fixed-half-down':
        n = fl + (1 if rem > Fraction(1, 2) else 0)
    else:
        n = fl + (1 if rem >= Fraction(1, 2) else 0)
    m = str(n)
    if f:
        m = m.rjust(f + 1, '0')
        m = m[:-f] + '.' + m[-f:]
    return s + m, tie


def round_sig(X, p):
    """X > 0: (n, e, tie): 10^(p-1) <= n < 10^p, n*10^(e-p+1) closest to X, larger on ties"""
    e = floor_log10(X)
    scaled = X / Fraction(10) ** (e - p + 1)
    fl = scaled.numerator // scaled.denominator
    rem = scaled - fl
    tie = rem == Fraction(1, 2)
    n = fl + (1 if rem >= Fraction(1, 2) else 0)
    if n == 10 ** p:
        n = 10 ** (p - 1)
        e += 1
    return n, e, tie


def exp_suffix(e):
    return 'e' + ('-' if e < 0 else '+') + str(abs(e))


def to_exponential(x, f):
    """f = None for undefined; returns (string, tie)"""
    if x != x or abs(x) == INF:
        return js_num_to_string(x), False
    if f is not None and not (0 <= f <= 100):
        return 'throw:RangeError', False
    X = Fraction(x)
    s = ''
    if X < 0:
        s = '-'
        X = -X
    tie = False
    if X == 0:
        ff = 0 if f is None else f
        m = '0' * (ff + 1)
        e = 0
    elif f is None:
        d, n = shortest_digits(float(X))
        m = d
        e = n - 1
        ff = len(d) - 1
    else:
        n, e, tie = round_sig(X, f + 1)
        m = str(n)
        ff = f
    if ff != 0:
        m = m[0] + '.' + m[1:]
    return s + m + exp_suffix(e), tie


def to_precision(x, p):
    """p = None for undefined; returns (string, tie)"""
    if p is None:
        return js_num_to_string(x), False
    if x != x or abs(x) == INF:
        return js_num_to_string(x), False
    if not (1 <= p <= 100):
        return 'throw:RangeError', False
    X = Fraction(x)
    s = ''
    if X < 0:
        s = '-'
        X = -X
    tie = False
    if X == 0:
        m = '0' * p
        e = 0
    else:
        n, e, tie = round_sig(X, p)
        m = str(n)
        if e < -6 or e >= p:
            if p != 1:
                m = m[0] + '.' + m[1:]
            return s + m + exp_suffix(e), tie
    if e == p - 1:
        return s + m, tie
    if e >= 0:
        return s + m[:e + 1] + '.' + m[e + 1:], tie
    return s + '0.' + '0' * (-(e + 1)) + m, tie


# --------------------------------------------------------------------------------------------
# text -> number

WS = '\t\n\x0b\x0c\r \xa0\u1680\u2000\u2001\u2002\u2003\u2004\u2005\u2006\u2007\u2008\u2009\u200a\u2028\u2029\u202f\u205f\u3000\ufeff'
STRDEC_RE = re.compile(r'([+-]?)(?:(Infinity)|(?:([0-9]+)(\.)?([0-9]*)|\.([0-9]+))(?:[eE]([+-]?[0-9]+))?)')
NONDEC_RE = re.compile(r'0(?:[bB]([01]+)|[oO]([0-7]+)|[xX]([0-9a-fA-F]+))$')


def sig_digits(ds):
    return ds.strip('0')


def decimal_value(ip, fp, ex):
    """exact value of ip.fp * 10^ex -> (ideal double, [allowed alternative doubles], n significant digits)"""
    digits = (ip + fp)
    st = digits.lstrip('0')
    if st == '':
        return 0.0, [], 0
    # magnitude guard
    lead_pos = len(ip) - (len(digits) - len(st))  # position of first significant digit relative to the point
    mag = lead_pos + ex
    nsig = len(st.rstrip('0'))
    if mag > 400:
        return INF, [], nsig
    if mag < -400:
        return 0.0, [], nsig
    scale = ex - len(fp)
    val = Fraction(int(digits)) * Fraction(10) ** scale
    ideal = to_double(val)
    alts = []
    if nsig > 20:
        # RoundMVResult: option1 = first 20 significant digits then zeros, option2 = option1 + 1 unit
        lead = len(digits) - len(st)
        head = int(st[:20])
        rest = len(st) - 20
        o1 = Fraction(head * 10 ** rest) * Fraction(10) ** scale
        o2 = Fraction((head + 1) * 10 ** rest) * Fraction(10) ** scale
        for o in (o1, o2):
            d = to_double(o)
            if d != ideal and d not in alts:
                alts.append(d)
        _ = lead
    return ideal, alts, nsig


def str_decimal_at(s, pos, full):
    """match StrDecimalLiteral at pos. full: must reach the end of s. -> (value, alts, nsig, endpos) or None"""
    m = STRDEC_RE.match(s, pos)
    if not m or m.end() == pos:
        return None
    if full and m.end() != len(s):
        return None
    neg = m.group(1) == '-'
    if m.group(2):
        v, alts, nsig = INF, [], 0
    else:
        if m.group(6) is not None:
            ip, fp = '', m.group(6)
        else:
            ip, fp = m.group(3), m.group(5) or ''
        ex = int(m.group(7)) if m.group(7) else 0
        v, alts, nsig = decimal_value(ip, fp, ex)
    if neg:
        v = -v
        alts = [-a for a in alts]
    return v, alts, nsig, m.end()


def string_to_number(s):
    """StringToNumber -> (ideal, alts, info)"""
    if any(0xD800 <= ord(c) <= 0xDFFF for c in s):
        # lone surrogates can never be part of a StringNumericLiteral
        return math.nan, [], {'nsig': 0}
    t = s.strip(WS)
    if t == '':
        return 0.0, [], {'nsig': 0, 'empty': True}
    m = NONDEC_RE.match(t)
    if m:
        if m.group(1):
            n, bits = int(m.group(1), 2), None
        elif m.group(2):
            n = int(m.group(2), 8)
        else:
            n = int(m.group(3), 16)
        return to_double(Fraction(n)), [], {'nsig': len(str(n)), 'nondec': True, 'big': n >= 2 ** 53}
    r = str_decimal_at(t, 0, True)
    if r is None:
        return math.nan, [], {'nsig': 0, 'nan': True}
    v, alts, nsig, _ = r
    return v, alts, {'nsig': nsig}


def parse_float(s):
    if any(0xD800 <= ord(c) <= 0xDFFF for c in s[:1]):
        return math.nan, [], {'nsig': 0}
    t = s.lstrip(WS)
    r = str_decimal_at(t, 0, False)
    if r is None:
        return math.nan, [], {'nsig': 0, 'nan': True}
    v, alts, nsig, end = r
    return v, alts, {'nsig': nsig, 'prefix': end != len(t)}


def parse_int(s, radix):
    """radix: None (undefined) or int. -> (ideal, alts, info); info['approx'] when the spec only asks for an approximation"""
    t = s.lstrip(WS)
    sign = 1
    if t[:1] == '-':
        sign = -1
    if t[:1] in ('+', '-'):
        t = t[1:]
    R = 0 if radix is None else to_int32(radix)
    strip = True
    if R != 0:
        if R < 2 or R > 36:
            return math.nan, [], {'nan': True, 'nsig': 0}
        if R != 16:
            strip = False
    else:
        R = 10
    if strip and t[:2] in ('0x', '0X'):
        t = t[2:]
        R = 16
    end = 0
    while end < len(t) and t[end].lower() in DIG[:R] and ord(t[end]) < 128:
        end += 1
    z = t[:end]
    if z == '':
        return math.nan, [], {'nan': True, 'nsig': 0}
    n = int(z, R)
    info = {'radix': R, 'len': len(z), 'big': n > 2 ** 53, 'nsig': len(str(n)), 'prefix': end != len(t)}
    alts = []
    if n == 0:
        return (-0.0 if sign < 0 else 0.0), [], info
    ideal = to_double(Fraction(sign * n))
    if R == 10:
        st = z.lstrip('0')
        if len(st.rstrip('0')) > 20:
            trunc = int(st[:20]) * 10 ** (len(st) - 20)
            d = to_double(Fraction(sign * trunc))
            if d != ideal:
                alts.append(d)
    elif not is_pow2(R):
        info['approx'] = True
        info['exact_value'] = sign * n
    return ideal, alts, info


def to_int32(v):
    v = int(v) % (1 << 32)
    return v - (1 << 32) if v >= (1 << 31) else v


# numeric literals in source text (sloppy mode, Annex B included)
_D = r'[0-9](?:_?[0-9])*'
_DECINT = r'(?:0[0-7]*[89][0-9]*|[1-9](?:_?[0-9](?:_?[0-9])*)?|0)'
DECLIT_RE = re.compile(rf'^(?:({_DECINT})(?:(\.)({_D})?)?|\.({_D}))(?:[eE]([+-]?{_D}))?$')
LEGACY_OCT_RE = re.compile(r'^0[0-7]+$')
NONDEC_LIT_RE = re.compile(r'^0(?:[bB]([01](?:_?[01])*)|[oO]([0-7](?:_?[0-7])*)|[xX]([0-9a-fA-F](?:_?[0-9a-fA-F])*))$')


# 0b1e5 / 0o7e1 / 017e1: a non-decimal literal directly followed by an exponent part (a SyntaxError)
NONDEC_EXP_LIT_RE = re.compile(r'^-?(?:0[0-7]+|0[bB][01_]+|0[oO][0-7_]+)[eE][+-]?[0-9]')


def literal_value(text):
    """-> ('value', ideal, alts, info) or ('syntax',). Accepts an optional leading '-' (unary minus)."""
    neg = False
    t = text
    if t.startswith('-'):
        neg = True
        t = t[1:]
    res = None
    info = {}
    m = NONDEC_LIT_RE.match(t)
    if m:
        if m.group(1):
            n = int(m.group(1).replace('_', ''), 2)
        elif m.group(2):
            n = int(m.group(2).replace('_', ''), 8)
        else:
            n = int(m.group(3).replace('_', ''), 16)
        res = (to_double(Fraction(n)), [])
        info = {'nsig': len(str(n)), 'nondec': True, 'big': n >= 2 ** 53}
    elif LEGACY_OCT_RE.match(t):
        n = int(t, 8)
        res = (to_double(Fraction(n)), [])
        info = {'nsig': len(str(n)), 'nondec': True, 'legacy': True, 'big': n >= 2 ** 53}
    else:
        m = DECLIT_RE.match(t)
        if m:
            if m.group(4) is not None:
                ip, fp = '', m.group(4)
            else:
                ip, fp = m.group(1), m.group(3) or ''
            ex = int(m.group(5).replace('_', '')) if m.group(5) else 0
            v, alts, nsig = decimal_value(ip.replace('_', ''), fp.replace('_', ''), ex)
            res = (v, alts)
            info = {'nsig': nsig}
            if '_' in t:
                info['sep'] = True
    if res is None:
        return ('syntax',)
    v, alts = res
    if neg:
        v = -v
        alts = [-a for a in alts]
    return ('value', v, alts, info)


# --------------------------------------------------------------------------------------------
# classification helpers

POW10 = {}


def pow10_double(k):
    if k not in POW10:
        POW10[k] = to_double(Fraction(10) ** k)
    return POW10[k]


def boundary_kind(x):
    """why x counts as a boundary value: list of tags"""
    tags = []
    if x != x or abs(x) == INF or x == 0:
        return tags
    a = abs(x)
    b = bits_of(a)
    if b < (1 << 52):
        tags.append('subnormal')
    elif b < (1 << 52) + 4:
        tags.append('min-normal')
    if b >= MAXBITS - 3:
        tags.append('max')
    mant = b & ((1 << 52) - 1)
    if (mant <= 2 or mant >= (1 << 52) - 2) and b >= (1 << 52):
        tags.append('pow2')
    k = floor_log10(Fraction(a))
    for kk in (k, k + 1):
        if -324 < kk < 309:
            p = pow10_double(kk)
            if 0 < p < INF and abs(bits_of(p) - b) <= 2:
                tags.append('pow10')
                if kk in (21, -7, -6):
                    tags.append('threshold')
                break
    if abs(a - 2.0 ** 53) <= 32:
        tags.append('2^53')
    return tags


def needs_many_digits(x):
    if x != x or abs(x) == INF or x == 0:
        return False
    d, _ = shortest_digits(abs(x))
    return len(d) > 15


# --------------------------------------------------------------------------------------------
# judge

def parse_op(line):
    """-> dict"""
    if line.startswith('D '):
        p = line.split(' ')
        if len(p) < 3 or not re.fullmatch(r'[0-9a-f]{16}', p[1]):
            raise ValueError('bad D line: ' + line)
        arg = p[3] if len(p) > 3 else None
        if p[2] not in ('str', 'radix', 'fixed', 'exp', 'prec'):
            raise ValueError('bad D op: ' + line)
        if p[2] != 'str':
            if arg is None:
                raise ValueError('missing arg: ' + line)
            if arg != 'u':
                arg = int(arg)
            elif p[2] == 'radix':
                raise ValueError('radix needs a number')
        return {'t': 'D', 'bits': p[1], 'x': b2f(p[1]), 'op': p[2], 'arg': arg}
    if line.startswith('T '):
        p = line.split(' ', 3)
        if len(p) != 4 or p[1] not in ('number', 'plus', 'parsefloat', 'parseint', 'numbig'):
            raise ValueError('bad T line: ' + line)
        s = json.loads(p[3])
        if not isinstance(s, str):
            raise ValueError('bad T text: ' + line)
        arg = None
        if p[1] == 'parseint' and p[2] not in ('u', '-'):
            arg = int(p[2])
        if p[1] == 'numbig' and not re.fullmatch(r'-?[0-9]+', s):
            raise ValueError('numbig takes a plain decimal integer text: ' + line)
        return {'t': 'T', 'op': p[1], 'arg': arg, 's': s}
    if line.startswith('L '):
        text = line[2:]
        if not re.fullmatch(r'[0-9a-zA-Z_.+\-]+', text):
            raise ValueError('bad L text: ' + line)
        return {'t': 'L', 'text': text}
    raise ValueError('bad op line: ' + line)


FN = {'str': 'String', 'radix': 'toString(radix)', 'fixed': 'toFixed', 'exp': 'toExponential', 'prec': 'toPrecision',
      'number': 'Number', 'plus': 'unary+', 'parsefloat': 'parseFloat', 'parseint': 'parseInt', 'numbig': 'Number(BigInt)'}


# ryu-js d2fixed: MIN_BLOCK_2[idx], idx = min(26, -e2 / 16): number of leading 9-digit blocks of the fraction that are
# known to be zero. The finding C13-tofixed is confined to inputs with MIN_BLOCK >= 1 whose digit count reaches past them.
RYU_MIN_BLOCK_2 = [0, 0, 0, 0, 0, 0, 1, 1, 2, 3, 3, 4, 4, 5, 5, 6, 6, 7, 7, 8, 8, 9, 9, 10, 11, 11, 12]


def fixed_small_class(x, f):
    """0 < |x| < 2^-43 and toFixed digit count f >= 9 * (number of known-zero leading blocks)"""
    if x != x or x == 0 or abs(x) >= 2.0 ** -43:
        return False
    b = bits_of(abs(x))
    ex = b >> 52
    e2 = (1 if ex == 0 else ex) - 1023 - 52
    idx = min(26, (-e2) // 16)
    mb = RYU_MIN_BLOCK_2[idx]
    return mb >= 1 and f // 9 + 1 > mb


def low_bit_exponent(x):
    """k such that the lowest set bit of finite non-zero x is 2^k"""
    X = Fraction(abs(x))
    if X.denominator > 1:
        return -(X.denominator.bit_length() - 1)
    n = X.numerator
    return (n & -n).bit_length() - 1


def classify_d(o):
    """input class of a D op: (cls, nontrivial, labels, exact expectation or None)"""
    x, op, arg = o['x'], o['op'], o['arg']
    labels = []
    finite = x == x and abs(x) != INF
    btags = boundary_kind(x) if finite else []
    nt = bool(btags) or needs_many_digits(x)
    for tg in btags:
        labels.append('x-' + tg)
    if not finite:
        labels.append('x-nonfinite')
    elif x == 0:
        labels.append('x-zero')
    cls = 'plain'
    exp = None
    if op == 'str':
        s = js_num_to_string(x)
        j = s if finite else 'null'
        if x != x:
            rb = 'NaN'
        elif x == 0:
            rb = f2b(0.0)
        else:
            rb = f2b(x)
        exp = '|'.join([s, s, s, s, s, j, rb, rb, rb])
        if finite and x != 0:
            _, n = shortest_digits(abs(x))
            if n > 21 or n <= -6:
                labels.append('str-exponential')
            if n in (21, 22, -5, -6):
                labels.append('str-notation-threshold')
                nt = True
        if 'subnormal' in btags:
            cls = 'subnormal'
        elif btags:
            cls = 'boundary'
    elif op == 'radix':
        r = arg
        if not (2 <= r <= 36):
            exp = 'throw:RangeError'
            cls = 'radix out of range'
            labels.append('radix-out-of-range')
        elif r == 10 or not finite or x == 0:
            exp = js_num_to_string(x)
            cls = 'radix10/special'
        else:
            nt = True
            integer = float(x).is_integer()
            if is_pow2(r):
                exp = exact_radix(x, r)
                cls = 'pow2-radix ' + ('integer' if integer else 'fraction')
                labels.append('radix-pow2')
            elif integer and abs(x) <= 2.0 ** 53:
                exp = exact_radix(x, r)
                cls = 'safe integer'
                labels.append('radix-safe-integer')
            elif integer:
                cls = 'drift: integer above 2^53'
                labels.append('radix-big-integer-1ulp')
                labels.append('radix-drift-class')
            else:
                labels.append('radix-fraction-1ulp')
                if abs(x) < Fraction(1, r):
                    cls = 'drift: fraction below 1/radix'
                    labels.append('radix-drift-class')
                else:
                    cls = 'drift: fraction'
    elif op == 'fixed':
        f = 0 if arg == 'u' else arg
        exp, tie = to_fixed(x, f)
        if exp.startswith('throw'):
            cls = 'digits out of range'
            labels.append('digits-out-of-range')
        elif finite:
            if f > 20:
                nt = True
                labels.append('digits>20')
            if tie:
                nt = True
                cls = 'tie'
                labels.append('fixed-tie')
            if abs(x) >= 1e21:
                cls = '>=1e21'
                labels.append('fixed->=1e21')
                nt = True
            elif fixed_small_class(x, f):
                cls = '|x| < 2^-43, digits reach past the leading zero blocks'
                labels.append('fixed-small')
            elif 'subnormal' in btags:
                cls = 'subnormal'
    elif op == 'exp':
        f = None if arg == 'u' else arg
        exp, tie = to_exponential(x, f)
        if exp.startswith('throw'):
            cls = 'digits out of range'
            labels.append('digits-out-of-range')
        elif finite:
            if f is None:
                cls = 'undefined digits'
                labels.append('exp-undefined')
            elif f > 20:
                nt = True
                labels.append('digits>20')
            if tie:
                nt = True
                cls = 'tie'
                labels.append('exp-tie')
            elif 'subnormal' in btags:
                cls = 'subnormal'
    elif op == 'prec':
        p = None if arg == 'u' else arg
        exp, tie = to_precision(x, p)
        if exp.startswith('throw'):
            cls = 'digits out of range'
            labels.append('digits-out-of-range')
        elif finite and p is not None:
            if p > 20:
                nt = True
                labels.append('digits>20')
            if tie:
                nt = True
                cls = 'tie'
                labels.append('prec-tie')
            if x != 0:
                e = floor_log10(Fraction(abs(x)))
                if p - 1 - e >= 90 and low_bit_exponent(x) < -100:
                    cls = 'needs decimals beyond the 100th'
                    labels.append('prec-deep')
                elif 'subnormal' in btags:
                    cls = 'subnormal'
                if 'e' in exp:
                    labels.append('prec-exponential')
    return cls, nt, labels, exp


def classify_t(o):
    """-> (cls, nt, labels, ideal, alts, info)"""
    op, s = o['op'], o['s']
    labels = []
    if op in ('number', 'plus'):
        v, alts, info = string_to_number(s)
    elif op == 'parsefloat':
        v, alts, info = parse_float(s)
    elif op == 'numbig':
        # Number(BigInt(s)) = F(R(bigint)): the exact integer, correctly rounded
        n = int(s)
        v, alts, info = to_double(Fraction(n)), [], {'nsig': len(str(abs(n)).strip('0'))}
    else:
        v, alts, info = parse_int(s, o['arg'])
    nt = False
    cls = 'plain'
    if v != v:
        cls = 'NaN expected'
        labels.append('t-nan')
        if _signed_inf_word(o, info):
            cls = 'signed inf/infinity word'
        elif _nondec_sign(o, info):
            cls = 'sign after radix prefix'
    else:
        if info.get('nsig', 0) > 15:
            nt = True
            labels.append('t->15-digits')
            cls = '>15 digits'
        if info.get('nsig', 0) > 20:
            labels.append('t->20-digits')
            cls = '>20 digits'
        finite = abs(v) != INF
        bt = boundary_kind(v) if finite else []
        if bt:
            nt = True
            labels.append('t-boundary-result')
        if 'subnormal' in bt:
            labels.append('t-subnormal-result')
        if not finite:
            labels.append('t-infinite-result')
    if op == 'parseint':
        R = info.get('radix')
        if R is not None and R != 10:
            nt = True
            labels.append('parseint-radix!=10')
        if R is not None:
            big = info.get('big')
            if info.get('approx'):
                cls = 'approximable radix' + (' >2^53' if big else '')
                labels.append('parseint-approx-radix')
            elif big and (R > 16 or info.get('len', 0) > 16):
                cls = 'exact radix %s, value > 2^53, f64 accumulation path' % ('10' if R == 10 else 'pow2')
                labels.append('parseint-big-exact-radix')
            elif big:
                cls = 'value > 2^53 (<=16 digits)'
                labels.append('parseint-big-u64-path')
    if info.get('nondec'):
        nt = True
        labels.append('t-nondecimal-prefix')
        cls = 'non-decimal prefix' + (' >= 2^53' if info.get('big') else '')
    if info.get('prefix'):
        labels.append('t-trailing-junk')
    if any(c in WS for c in s):
        labels.append('t-whitespace')
    return cls, nt, labels, v, alts, info


def judge_one(line, actual):
    o = parse_op(line)
    res = {'ok': False, 'exp': '', 'fn': '', 'cls': '', 'nt': False, 'labels': [], 'note': ''}
    if o['t'] == 'D':
        cls, nt, labels, exp = classify_d(o)
        res.update(fn=FN[o['op']], cls=cls, nt=nt, labels=labels)
        if exp is not None:
            res['exp'] = exp
            if actual == exp:
                res['ok'] = True
            elif o['op'] == 'str' and actual is not None:
                f = actual.split('|')
                e = exp.split('|')
                if len(f) == 9 and f[5:] == e[5:] and len(set(f[:5])) == 1 and valid_shortest(f[0], o['x']):
                    res['ok'] = True
                    res['labels'].append('str-valid-but-not-closest')
            elif o['op'] == 'exp' and o['arg'] == 'u' and actual is not None and valid_shortest_exponential(actual, o['x']):
                res['ok'] = True
                res['labels'].append('exp-undefined-valid-but-not-closest')
        else:
            # tolerance check: digits denote a value within 1 ulp of x
            x, r = o['x'], o['arg']
            res['exp'] = '? (any radix-%d digit string whose exact value is within 1 ulp of x)' % r
            if actual is not None:
                v = parse_radix_string(actual, r)
                if v is None:
                    res['note'] = 'not a canonical radix-%d numeral' % r
                    res['cls'] = 'wrong: ' + res['note']
                else:
                    err = abs(v - Fraction(x))
                    u = ulp_fraction(x)
                    # the recorded finding (f64 error accumulation) explains small excesses only: up to 2 ulp where at most
                    # one or two roundings happen (|x| >= 1/radix), a relative 2^-40 where many do; anything larger is a
                    # different failure and gets a signature the known finding does not absorb
                    drift_ok = err <= 2 * u if cls == 'drift: fraction' else err <= abs(Fraction(x)) / 2 ** 40
                    if err > u and not drift_ok:
                        res['cls'] = 'wrong digits (' + cls.replace('drift: ', '') + ')'
                    if float(x).is_integer() and '.' in actual:
                        res['note'] = 'integer printed with a fraction'
                        res['cls'] = 'wrong: ' + res['note']
                    elif err <= u:
                        res['ok'] = True
                        if err == 0:
                            res['labels'].append('radix-approx-exact')
                        elif to_double(v) == x:
                            res['labels'].append('radix-approx-roundtrips')
                        else:
                            res['labels'].append('radix-approx-within-1ulp-no-roundtrip')
                    else:
                        res['note'] = 'value of the digits is %.3g ulp away from x' % float(err / u)
        return res
    if o['t'] == 'T':
        cls, nt, labels, v, alts, info = classify_t(o)
        res.update(fn=FN[o['op']], cls=cls, nt=nt, labels=labels, exp=out_bits(v))
        if alts:
            res['exp'] += ' (also allowed: ' + ','.join(out_bits(a) for a in alts) + ')'
        if actual == out_bits(v):
            res['ok'] = True
        elif actual in [out_bits(a) for a in alts]:
            res['ok'] = True
            res['labels'].append('t-allowed-alternative')
        elif info.get('approx') and actual is not None and re.fullmatch(r'[0-9a-f]{16}', actual):
            a = b2f(actual)
            if a == a and abs(a) != INF and v != 0:
                err = abs(Fraction(a) - info['exact_value'])
                if err <= abs(Fraction(info['exact_value'])) / 2 ** 40:
                    res['ok'] = True
                    res['labels'].append('parseint-approx-accepted')
                    res['note'] = 'approximation accepted'
        return res
    # literal
    lv = literal_value(o['text'])
    res['fn'] = 'literal'
    if lv[0] == 'syntax':
        res['exp'] = 'throw:SyntaxError|throw:SyntaxError'
        res['cls'] = 'invalid literal'
        if NONDEC_EXP_LIT_RE.match(o['text']):
            res['cls'] = 'non-decimal literal followed by an exponent part'
        res['labels'] = ['lit-invalid']
        res['ok'] = actual == res['exp']
        return res
    _, v, alts, info = lv
    labels = ['lit-valid']
    nt = False
    cls = 'decimal'
    if info.get('nsig', 0) > 15:
        nt = True
        labels.append('lit->15-digits')
        cls = '>15 digits'
    if info.get('nondec'):
        nt = True
        labels.append('lit-nondecimal')
        cls = 'non-decimal' + (' >= 2^53' if info.get('big') else '')
    if info.get('legacy'):
        labels.append('lit-legacy-octal')
    if info.get('sep'):
        labels.append('lit-separator')
    if v == v and abs(v) != INF and boundary_kind(v):
        nt = True
        labels.append('lit-boundary-result')
    b = out_bits(v)
    res.update(cls=cls, nt=nt, labels=labels, exp=b + '|' + b)
    if alts:
        res['exp'] += ' (also allowed: ' + ','.join(out_bits(a) for a in alts) + ')'
    if actual is not None:
        parts = actual.split('|')
        allowed = [b] + [out_bits(a) for a in alts]
        if len(parts) == 2 and parts[0] in allowed and parts[1] in allowed and parts[0] == parts[1]:
            res['ok'] = True
            if parts[0] != b:
                res['labels'].append('t-allowed-alternative')
    return res


# --------------------------------------------------------------------------------------------
# generator

class Tape:
    def __init__(self, data):
        self.d = data
        self.p = 0

    def u8(self):
        b = self.d[self.p] if self.p < len(self.d) else 0
        self.p += 1
        return b

    def u16(self):
        return self.u8() | (self.u8() << 8)

    def u32(self):
        return self.u16() | (self.u16() << 16)

    def u64(self):
        return self.u32() | (self.u32() << 32)

    def below(self, n):
        if n <= 1:
            return 0
        if n <= 256:
            return (self.u8() * n) >> 8
        return (self.u16() * n) >> 16

    def rng(self, lo, hi):
        if hi <= lo:
            return lo
        return lo + self.below(hi - lo + 1)

    def chance(self, p):
        return self.u8() >= 256 - min(p, 256)

    def pick(self, items):
        return items[self.below(len(items))]

    def weighted(self, ws):
        total = sum(ws)
        r = (self.u8() * total) >> 8 if total <= 256 else (self.u16() * total) >> 16
        acc = 0
        for i, w in enumerate(ws):
            acc += w
            if r < acc:
                return i
        return len(ws) - 1


SIMPLE = [0.0, 1.0, 2.0, 0.5, 1.5, 2.5, 10.0, 100.0, 0.1, 0.25, 123.456, 1e21, 1e-7, 0.000001, 1.005, 8.345, 0.3, 255.0,
          1234.5678, 1e100, 4.35, 0.615, 1.45, 3.0, 7.0, 1000000.0, 0.1 + 0.2, 25.0, 35.0, 1.25, 0.125, 0.045, 5e-7, 99.5, 999.5,
          0.05, 0.95, 9.5, 9.995, 1e300, 1.7976931348623157e308, 5e-324]
THRESH = [1e21, 1e-7, 1e-6, 1e20, 1e22, 1e15, 1e16, 1e17, 123456789012345680000.0, 999999999999999900000.0, 1e100, 1e-100,
          1e101, 1e-101, 1e99, 1e-99, 9.5e-7, 9.999999999999999e-7, 1e-21, 1e-22, 1e-20, 2.0 ** 31, 2.0 ** 32, 2.0 ** 63, 2.0 ** 64,
          4294967295.0, 2147483647.0, 0.5, 0.05, 0.005, 0.0005]
SPECIAL = [math.nan, INF, -INF, -0.0, 1.7976931348623157e308, 5e-324, 9007199254740991.0, 2.220446049250313e-16,
           2.2250738585072014e-308, 2.225073858507201e-308, -1.7976931348623157e308]


def gen_tie(t):
    """a double that is an exact decimal tie for some digit count -> (x, hints) ; hints = [(op, arg)]"""
    hints = []
    kind = t.weighted([3, 2, 2])
    if kind == 0:
        # toFixed(f) tie: x = j / 2^(f+1), j odd
        f = t.rng(0, 24) if not t.chance(50) else t.rng(25, 70)
        width = t.rng(1, 52 if f < 40 else 30)
        j = (t.u64() & ((1 << width) - 1)) | 1
        x = math.ldexp(float(j), -(f + 1))
    elif kind == 1:
        # integer tie: m * 10^k with m ending in 5 (tie for toPrecision(len(m)-1))
        nd = t.rng(1, 10)
        m = (t.u64() % (10 ** nd)) * 10 + 5
        k = t.rng(0, 12)
        v = m * 10 ** k
        x = float(v)
        if int(x) != v:
            x = float(m)
            v = m
        f = 0
    else:
        # short decimal tie like 2.5, 0.125, 1.5e-3 (only those that are dyadic): j * 5 / 10^q with 2^q | j... take j/2^q, q small
        q = t.rng(1, 8)
        j = (t.u64() % 5000) * 2 + 1
        x = j / float(1 << q)
        f = q - 1
    off = 0
    if t.chance(50):
        off = t.pick([-1, 1])  # near-tie: the rounding direction is decided one ulp away from the tie
        x = step(x, off)
    if x == 0 or abs(x) == INF:
        x = 2.5
    X = Fraction(x)
    e = floor_log10(X)
    # the digit count where x (or its tie neighbour) sits on a tie: last kept digit position = -f  => for toFixed: f
    den_bits = X.denominator.bit_length() - 1  # x = j / 2^den_bits
    if off == 0:
        ff = den_bits - 1 if den_bits >= 1 else None
        if ff is not None and 0 <= ff <= 100:
            hints.append(('fixed', ff))
            d = ff + e
            if 0 <= d <= 100:
                hints.append(('exp', d))
            if 1 <= d + 1 <= 100:
                hints.append(('prec', d + 1))
        if den_bits == 0:
            # integer: tie positions are where the integer ends in 5 followed by zeros
            s = str(X.numerator)
            st = s.rstrip('0')
            if st.endswith('5') and len(st) >= 2:
                p = len(st) - 1
                hints.append(('prec', p))
                hints.append(('exp', p - 1))
    else:
        hints.append(('fixed', max(0, min(100, f))))
        d = f + e
        if 0 <= d <= 100:
            hints.append(('exp', d))
        if 1 <= d + 1 <= 100:
            hints.append(('prec', d + 1))
    return x, hints


def gen_double(t, labels):
    """-> (x, hints)"""
    hints = []
    c = t.weighted([2, 5, 5, 3, 3, 4, 6, 8, 4, 1, 3])
    if c == 0:
        labels.append('g-simple')
        x = t.pick(SIMPLE)
    elif c == 10:
        # values the engine keeps in its int32 representation
        labels.append('g-int32')
        k = t.below(3)
        if k == 0:
            x = float(t.rng(0, 1000))
        elif k == 1:
            x = float(t.u32() & 0x7fffffff)
        else:
            x = float(t.pick([2147483647, 2147483648, 65535, 65536, 4294967295, 1073741824, 999999999, 1000000000, 255, 36, 35]))
    elif c == 1:
        labels.append('g-pow2')
        e = t.rng(-1074, 1023)
        x = step(math.ldexp(1.0, e), t.rng(-2, 2))
    elif c == 2:
        labels.append('g-pow10')
        e = t.rng(-323, 308)
        x = step(pow10_double(e), t.rng(-2, 2))
    elif c == 3:
        labels.append('g-subnormal')
        k = t.below(4)
        if k == 0:
            x = from_bits(t.below(16))
        elif k == 1:
            x = from_bits((1 << 52) + t.rng(-3, 3))
        elif k == 2:
            x = from_bits(t.u64() & ((1 << 52) - 1))
        else:
            x = from_bits(max(0, (1 << t.rng(0, 51)) + t.rng(-1, 1)))
    elif c == 4:
        labels.append('g-int-neighbourhood')
        base = t.pick([2.0 ** 53, 2.0 ** 53, 2.0 ** 31, 2.0 ** 32, 2.0 ** 63, 2.0 ** 64, 2.0 ** 52, 2.0 ** 54, 1e15, 1e16])
        k = t.rng(-20, 20)
        x = base + k if base < 2.0 ** 54 else step(base, k)
        if t.chance(40):
            x = float(t.u64() >> t.rng(0, 63))
    elif c == 5:
        labels.append('g-threshold')
        x = step(t.pick(THRESH), t.rng(-2, 2))
    elif c == 6:
        labels.append('g-tie')
        x, hints = gen_tie(t)
    elif c == 7:
        labels.append('g-uniform-bits')
        x = from_bits(t.u64())
    elif c == 8:
        labels.append('g-short-decimal')
        nd = t.rng(1, 17)
        k = t.u64() % (10 ** nd)
        j = t.rng(0, 25)
        x = to_double(Fraction(k, 10 ** j))
    else:
        labels.append('g-special')
        x = t.pick(SPECIAL)
    if t.chance(64) and x == x:
        x = -x
    return x, hints


def gen_digits(t, lo):
    """a digit count for toFixed/toExponential (lo=0) or toPrecision (lo=1)"""
    w = t.weighted([6, 6, 5, 1])
    if w == 0:
        return t.rng(lo, 3)
    if w == 1:
        return t.rng(lo, 21)
    if w == 2:
        return t.rng(22, 100)
    return t.pick(['u', lo - 1, 101, 100, lo])


def d_line(x, op, arg=None):
    b = f2b(x)
    return 'D %s %s' % (b, op) if arg is None else 'D %s %s %s' % (b, op, arg)


# named exclusion classes (the generator avoids exactly these; see /verif/known.d/C13.json)
def excluded_class(line, exclude):
    """name of the exclusion class this op falls in (or None)"""
    if not exclude:
        return None
    o = parse_op(line)
    if o['t'] == 'D':
        cls, nt, labels, exp = classify_d(o)
        if 'toexponential-tie' in exclude and 'exp-tie' in labels:
            return 'toexponential-tie'
        if 'toprecision-deep' in exclude and 'prec-deep' in labels:
            return 'toprecision-deep'
        if 'tofixed-small' in exclude and 'fixed-small' in labels:
            return 'tofixed-small'
        if 'tostring-radix-drift' in exclude and 'radix-drift-class' in labels:
            return 'tostring-radix-drift'
        return None
    if o['t'] == 'T':
        cls, nt, labels, v, alts, info = classify_t(o)
        if 'parseint-big-exact-radix' in exclude and 'parseint-big-exact-radix' in labels:
            return 'parseint-big-exact-radix'
        if 'number-nondecimal-big' in exclude and o['op'] in ('number', 'plus') and info.get('nondec') and info.get('big'):
            return 'number-nondecimal-big'
        for name, fn in EXTRA_T_EXCLUSIONS.items():
            if name in exclude and fn(o, info):
                return name
        return None
    if o['t'] == 'L':
        if 'literal-nondecimal-exponent' in exclude and NONDEC_EXP_LIT_RE.match(o['text']):
            return 'literal-nondecimal-exponent'
    return None


def _signed_inf_word(o, info):
    # fast_float2 accepts [+-]inf / [+-]infinity (any case) and nan; StringToNumber only "Infinity"
    if o['op'] not in ('number', 'plus'):
        return False
    t = o['s'].strip(WS).lower()
    return t[:1] in ('+', '-') and t[1:] in ('inf', 'infinity') and o['s'].strip(WS)[1:] != 'Infinity'


def _nondec_sign(o, info):
    # "0x+1" / "0b+1": u32::from_str_radix accepts a leading '+'
    if o['op'] not in ('number', 'plus'):
        return False
    t = o['s'].strip(WS)
    return len(t) > 3 and t[0] == '0' and t[1] in 'xXbBoO' and t[2] == '+'


EXTRA_T_EXCLUSIONS = {'number-signed-inf-word': _signed_inf_word, 'number-nondecimal-plus': _nondec_sign}


def gen_doubles_case(t, exclude):
    labels = []
    x, hints = gen_double(t, labels)
    ops = [d_line(x, 'str')]
    for (op, arg) in hints:
        ops.append(d_line(x, op, arg))
    # two radix ops
    for _ in range(2):
        w = t.weighted([5, 8, 1])
        if w == 0:
            r = t.pick([2, 16, 8, 4, 32])
        elif w == 1:
            r = t.rng(2, 36)
        else:
            r = t.pick([10, 1, 37, 0])
        ops.append(d_line(x, 'radix', r))
    for _ in range(2):
        ops.append(d_line(x, 'fixed', gen_digits(t, 0)))
    ops.append(d_line(x, 'exp', gen_digits(t, 0)))
    if t.chance(100):
        ops.append(d_line(x, 'exp', 'u'))
    for _ in range(2):
        ops.append(d_line(x, 'prec', gen_digits(t, 1)))
    return filter_ops(ops, labels, exclude)


def filter_ops(ops, labels, exclude):
    seen = set()
    out = []
    for l in ops:
        if l in seen:
            continue
        seen.add(l)
        ex = excluded_class(l, exclude)
        if ex:
            labels.append('excluded-' + ex)
            continue
        out.append(l)
    return out, labels


def dec_exact(X):
    """exact decimal expansion of a non-negative dyadic Fraction -> (ip, fp) strings"""
    k = X.denominator.bit_length() - 1
    assert X.denominator == 1 << k
    n = X.numerator * 5 ** k
    s = str(n)
    if k == 0:
        return s, ''
    s = s.rjust(k + 1, '0')
    return s[:-k], s[-k:].rstrip('0')


def as_sci(ip, fp, t):
    """re-write ip.fp as a d.ddd e N / ddd e N form chosen by the tape"""
    digits = (ip + fp).lstrip('0') or '0'
    # value = 0.digits * 10^n
    lead = len(ip + fp) - len((ip + fp).lstrip('0'))
    n = len(ip) - lead
    mode = t.below(4)
    if mode == 0:  # d.ddd e(n-1)
        m = digits[0] + ('.' + digits[1:] if len(digits) > 1 else '')
        e = n - 1
    elif mode == 1:  # ddd e(n-k)
        m = digits
        e = n - len(digits)
    elif mode == 2:  # 0.ddd e n
        m = '0.' + digits
        e = n
    else:  # .ddd e n
        m = '.' + digits
        e = n
    es = t.pick(['e', 'E']) + (t.pick(['', '+']) if e >= 0 else '') + str(e)
    return m + es


WS_PICK = [' ', '\t', '\n', '\r', '\x0b', '\x0c', '\xa0', '\ufeff', '\u2028', '\u2029', '\u3000', '\u1680', '\u2003', '\u202f', '\u205f']
NOT_WS = ['\x85', '\u200b', '\u180e', '\x00', '_', '\u0660']
SIMPLE_TEXT = ['0', '1', '-1', '1.5', '', ' ', 'abc', 'Infinity', '-Infinity', '+Infinity', 'NaN', '1e3', '.5', '5.', '-0', '+0',
               '0x10', '0b101', '0o17', '1e1000', '1e-1000', '-', '+', '.', 'e5', '1e', '1e+', '0x', '0xg', '1_000', 'Infinityx',
               'infinity', 'INFINITY', '-inf', '+inf', 'nan', '1 2', '12px', '0x1p3', '1.2.3', '++1', '--1', '+-1', '0.0000001',
               '0e0', '\u0661\u0662', '-0x10', '+0x10', '0x+1', '0b+1', '0x-1', '0x1.8', '0x 1', '-.5', '+.5e1', '1.e5', '.e5',
               '-.', '1e5.5', '1E-2', '0X1F', '0B11', '0O7', '00', '010', '08', '0.0', '-0.0', '-0e5', '1e-400', '-1e-400',
               '-1e400', '1e309', '1e308', '1.7976931348623157e308', '1.7976931348623159e308', '4.9e-324', '2.4e-324', '2.5e-324',
               '2.47e-324', '-Infinityx', 'Infinity1', 'Infinit', '+Infinity ', 'Inf', '-INF', '+infinity', '-iNfInItY', 'NAN',
               '-nan', '+nan', '0b', '0o8', '0b2', '0xfffffffffffff800', '0x20000000000001', '9007199254740993', '1e21', '1e-7',
               '\u0661', '\uff11\uff12', '1,5', '1e2e3', '0x1e2', '0e', '.', '+.', '-e1', '1.5.', '1..5', '1e+-5', '0x0', '0b0', '-0x0',
               '\ud800', '1\udc00', 'Infinity\u00a0', '\ufeff1', '1\u180e', '\u180e1', '0.1e1', '0.1E+1', '0.1e-1', '\u0661e1']


def gen_text(t, labels):
    """-> (text, literal_ok_hint)"""
    c = t.weighted([3, 4, 5, 5, 4, 5, 8, 6, 5])
    if c == 0:
        labels.append('gt-simple')
        return t.pick(SIMPLE_TEXT)
    if c in (1, 2, 3, 4, 6):
        sub = []
        x, _ = gen_double(t, sub)
        if x != x or abs(x) == INF:
            x = 1.5
        neg = x < 0
        a = abs(x)
        if c == 1:
            labels.append('gt-shortest')
            s = js_num_to_string(a)
            if t.chance(60) and a != 0:
                d, n = shortest_digits(a)
                s = as_sci(d, '', t) if n >= len(d) and n < 400 else s
        elif c == 2:
            labels.append('gt-long-digits')
            # exact expansion cut to 17..40 significant digits (truncated or with a random tail)
            ip, fp = dec_exact(Fraction(a))
            keep = t.rng(17, 40)
            digits = (ip + fp)
            lead = len(digits) - len(digits.lstrip('0'))
            cut = lead + keep
            if cut < len(digits):
                digits2 = digits[:cut]
                if cut <= len(ip):
                    ip2, fp2 = digits2 + '0' * (len(ip) - cut), ''
                else:
                    ip2, fp2 = digits2[:len(ip)], digits2[len(ip):]
            else:
                ip2, fp2 = ip, fp
            if t.chance(100):
                fp2 = fp2 + ''.join(str(t.below(10)) for _ in range(t.rng(1, 12)))
            s = ip2 + ('.' + fp2 if fp2 else '')
            if len(s) > 60 or t.chance(80):
                s = as_sci(ip2, fp2, t)
        elif c == 3:
            labels.append('gt-exponent-form')
            d, n = shortest_digits(a) if a != 0 else ('0', 1)
            shift = t.rng(-30, 30)
            # digits with the point moved by `shift` and the exponent compensating
            e = n - len(d) - shift
            m = d + '0' * shift if shift > 0 else d
            if shift < 0:
                k = -shift
                m = (d[:-k] or '0') + '.' + d[-k:].rjust(k, '0') if len(d) > k else '0.' + d.rjust(k, '0')
            s = m + t.pick(['e', 'E']) + t.pick(['', '+'] if e >= 0 else ['']) + str(e)
        elif c == 4:
            labels.append('gt-zeros-whitespace')
            s = js_num_to_string(a)
            if 'e' not in s:
                if t.chance(128):
                    s = '0' * t.rng(1, 30) + s
                if t.chance(128):
                    s = (s if '.' in s else s + '.') + '0' * t.rng(0, 30)
            else:
                if t.chance(128):
                    s = '0' * t.rng(1, 5) + s
                if t.chance(80):
                    m, e = s.split('e')
                    s = m + 'e' + e[0] + '0' * t.rng(1, 6) + e[1:]
        else:
            labels.append('gt-halfway')
            # exact midpoint between a and its upper neighbour (2^1024 above MAX), +- a tiny amount
            if a == from_bits(MAXBITS):
                up = Fraction(2) ** 1024
            else:
                up = Fraction(step(a, 1))
            if t.chance(40) and a != 0:
                # halfway below instead
                up = Fraction(a)
                a = step(a, -1)
            mid = (Fraction(a) + up) / 2
            ip, fp = dec_exact(mid)
            v = t.weighted([3, 3, 3])
            if v == 1:
                labels.append('gt-halfway-plus')
                pad = '0' * t.rng(0, 40) + t.pick(['1', '5', '9', '0000000001'])
                fp = fp + pad
            elif v == 2:
                labels.append('gt-halfway-minus')
                if fp:
                    fp = fp[:-1] + str(int(fp[-1]) - 1) + '9' * t.rng(1, 40)
                else:
                    ip = str(int(ip) - 1)
                    fp = '9' * t.rng(1, 40)
            else:
                labels.append('gt-halfway-exact')
            s = ip + ('.' + fp if fp else '')
            if len(ip) + len(fp) > 50 and t.chance(220) or t.chance(60):
                s = as_sci(ip, fp, t)
        if neg:
            s = '-' + s
        elif t.chance(20):
            s = '+' + s
        if c == 4 or t.chance(30):
            if t.chance(160):
                s = ''.join(t.pick(WS_PICK) for _ in range(t.rng(1, 3))) + s
            if t.chance(128):
                s = s + ''.join(t.pick(WS_PICK) for _ in range(t.rng(1, 3)))
            if t.chance(12):
                s = t.pick(NOT_WS) + s
            if t.chance(12):
                s = s + t.pick(NOT_WS + ['x', 'e', '.', 'n', 'f', 'd'])
        return s
    if c == 5:
        labels.append('gt-nondecimal')
        k = t.weighted([4, 2, 2])
        if k == 0:
            n = t.rng(1, 20)
            body = ''.join(t.pick('0123456789abcdefABCDEF') for _ in range(n))
            s = t.pick(['0x', '0X']) + body
        elif k == 1:
            n = t.rng(1, 70)
            body = ''.join(t.pick('01') for _ in range(n))
            if t.chance(100) and n > 54:
                body = '1' + '0' * 52 + body[:n - 53]
            s = t.pick(['0b', '0B']) + body
        else:
            n = t.rng(1, 26)
            s = t.pick(['0o', '0O']) + ''.join(t.pick('01234567') for _ in range(n))
        if t.chance(24):
            s = t.pick(['-', '+', ' ', '\n']) + s
        if t.chance(24):
            s = s + t.pick([' ', 'g', '.8', 'n', '_1', '8', '9', 'z'])
        return s
    if c == 7:
        labels.append('gt-big-integer')
        k = t.weighted([4, 3, 3])
        if k == 0:
            n = t.rng(19, 60) if not t.chance(60) else t.rng(61, 400)
            s = str(t.rng(1, 9)) + ''.join(str(t.below(10)) for _ in range(n - 1))
        elif k == 1:
            # 2^e +- small
            e = t.rng(53, 200)
            s = str(2 ** e + t.rng(-3, 3))
        else:
            # integer halfway between adjacent doubles (+-1)
            e = t.rng(1, 120)
            m = (1 << 52) | (t.u64() & ((1 << 52) - 1))
            s = str(((2 * m + 1) << (e - 1)) + t.rng(-1, 1))
        if t.chance(30):
            s = '-' + s
        if t.chance(30):
            s = s + t.pick(['.5', 'e2', '.', 'n', ' ', 'x', '.4999999999999999999999', '.5000000000000000000001'])
        return s
    # c == 8: radix strings for parseInt
    labels.append('gt-radix-digits')
    r = t.rng(2, 36)
    n = t.rng(1, 14) if t.chance(128) else t.rng(15, 70)
    body = ''.join(t.pick(DIG[:r] + DIG[10:r].upper()) for _ in range(n))
    s = body
    if t.chance(40):
        s = '-' + s
    if t.chance(30):
        s = t.pick(WS_PICK) + s
    if t.chance(30):
        s = s + t.pick(['.', 'z', ' ', '_', 'Z', '9', '~'])
    return 'R%d:' % r + s  # the radix travels with the text, split off below


def insert_separators(lit, t):
    out = []
    for i, ch in enumerate(lit):
        out.append(ch)
        if ch.isalnum() and i + 1 < len(lit) and lit[i + 1].isalnum() and t.chance(40):
            out.append('_')
    return ''.join(out)


def gen_texts_case(t, exclude):
    labels = []
    s = gen_text(t, labels)
    radix_hint = None
    m = re.match(r'^R(\d+):', s)
    if m:
        radix_hint = int(m.group(1))
        s = s[m.end():]
    js = json.dumps(s)
    ops = ['T number - ' + js, 'T parsefloat - ' + js]
    if t.chance(80):
        ops.append('T plus - ' + js)
    # parseInt
    radices = []
    if radix_hint is not None:
        radices.append(radix_hint)
        if t.chance(80):
            radices.append(t.pick([36, 'u', 16, 10]))
    else:
        radices.append(t.pick(['u', 10, 'u', 16, 2, 8, 0]))
        if t.chance(100):
            radices.append(t.rng(2, 36))
        if t.chance(10):
            radices.append(t.pick([1, 37, -1, 4294967306]))  # 4294967306 = 2^32 + 10 -> ToInt32 = 10
    for r in radices:
        ops.append('T parseint %s %s' % (r, js))
    if re.fullmatch(r'-?[0-9]+', s) and len(s) > 15:
        ops.append('T numbig - ' + js)
    # literal in source: only plain ASCII without whitespace / sign games (one leading '-' is a unary minus)
    lit = s
    if re.fullmatch(r'-?[0-9a-zA-Z_.+]+(?:-[0-9]+)?', lit) and re.match(r'-?[0-9.]', lit) and lit not in ('.', '-.') and not re.search(r'[nN]$', lit):
        if literal_plausible(lit):
            if t.chance(40):
                lit = insert_separators(lit, t)
            ops.append('L ' + lit)
    return filter_ops(ops, labels, exclude)


def literal_plausible(lit):
    """keep only texts that are one numeric-literal-like token (valid or not), so that embedding them in
    `(<text>)` cannot turn into some other valid expression (member access, identifiers, arithmetic)"""
    t = lit[1:] if lit.startswith('-') else lit
    if literal_value(lit)[0] == 'value':
        return True
    # invalid: still one token-ish thing: digits, letters and separators with at most one sign after e/E
    if re.fullmatch(r'[0-9][0-9a-zA-Z_.]*(?:[eE][+-][0-9_]*)?', t) or re.fullmatch(r'\.[0-9][0-9a-zA-Z_]*(?:[eE][+-][0-9_]*)?', t):
        # exclude things like 1.toString or 5.e (property access on a literal): letters right after a '.' other than e/E
        if re.search(r'\.[a-df-zA-DF-Z_$]', t) or re.search(r'\.[eE](?![+-]?[0-9])', t):
            return False
        if re.search(r'[+-]', t) and not re.search(r'[eE][+-]', t):
            return False
        return True
    return False


# --------------------------------------------------------------------------------------------

def handle(req):
    op = req.get('op')
    if op == 'gen':
        t = Tape(bytes.fromhex(req.get('tape', '')))
        exclude = set(req.get('exclude') or [])
        if req.get('stream') == 'texts':
            ops, labels = gen_texts_case(t, exclude)
        else:
            ops, labels = gen_doubles_case(t, exclude)
        return {'ops': ops, 'labels': labels}
    if op == 'judge':
        ops = req['ops']
        actual = req.get('actual') or []
        res = []
        for i, l in enumerate(ops):
            a = actual[i] if i < len(actual) else None
            res.append(judge_one(l, a))
        return {'res': res}
    if op == 'expect':
        return {'exp': [judge_one(l, None)['exp'] for l in req['ops']]}
    if op == 'classify':
        return {'cls': [excluded_class(l, set(req.get('exclude') or [])) for l in req['ops']]}
    raise ValueError('unknown op')


def main():
    for line in sys.stdin:
        line = line.strip()
        if not line:
            continue
        rid = None
        try:
            req = json.loads(line)
            rid = req.get('id')
            out = handle(req)
            out['id'] = rid
        except Exception as e:  # report, never die
            out = {'id': rid, 'error': '%s: %s' % (type(e).__name__, e)}
        sys.stdout.write(json.dumps(out) + '\n')
        sys.stdout.flush()


if __name__ == '__main__':
    main()
