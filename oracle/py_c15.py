#!/usr/bin/env python3
"""C15 byte model: ArrayBuffer / SharedArrayBuffer / TypedArray / DataView / Atomics over plain
bytearrays, written from the ECMAScript specification (ES2024 + Float16Array), stdlib only.

JSON lines protocol:  {"id":n, "ops":[op,...], "v8src":str|null}
                  ->  {"id":n, "lines":[...], "flags":[...], "ctx":[...], "stop":k|-1, "malformed":str|null,
                       "v8":{"prints":[...],"completion":str}|null}
`v8src` (optional) is run in a node child process (oracle/node_c15.js: V8 second opinion with a DETACH host
hook); the child is started in the background when this server starts, so that a slow machine pays one
interpreter start-up, not two.
`lines` are the lines the JS rendering of the same op list must print (see genp/ta.rs, PRELUDE):
    #<k> <result or throw:Class>          one per step
    b<i> ...                              one per live buffer slot (byte content)
    v<i> ...                              one per live view slot (geometry + elements)
    guard ok                              last line
`stop` >= 0: only the first `stop` lines are specified (an implementation-defined NaN payload would
become observable after that point).  `ctx[k]` is a short description of step k for failure signatures.
"""
import sys, json, struct, math, re

INF = float('inf')
MAXSAFE = 2 ** 53 - 1
BREAK = set((__import__('os').environ.get('C15_MODEL_BREAK') or '').split(','))


class JSThrow(Exception):
    def __init__(self, name):
        Exception.__init__(self, name)
        self.name = name


class Malformed(Exception):
    pass


class Stop(Exception):
    pass


class Undef(object):
    def __repr__(self):
        return 'undefined'


UNDEF = Undef()


class Absent(object):
    def __repr__(self):
        return 'absent'


ABSENT = Absent()  # an argument that was not passed (JSON null in the op); JS null is Python None


class Big(int):
    """a BigInt value"""
    pass


class Evil(object):
    """object whose valueOf performs an action on a buffer and then returns a primitive"""

    def __init__(self, spec):
        self.act = spec['act']
        self.buf = spec.get('buf')
        self.to = spec.get('to')
        self.ret = spec['ret']


class JSArray(object):
    def __init__(self, items):
        self.items = items


# ------------------------------------------------------------------------------------------
# number <-> string

def number_to_string(x):
    if x != x:
        return 'NaN'
    if x == 0:
        return '0'
    if x == INF:
        return 'Infinity'
    if x == -INF:
        return '-Infinity'
    if x < 0:
        return '-' + number_to_string(-x)
    r = repr(x)
    mant, _, exp = r.partition('e')
    exp = int(exp) if exp else 0
    if '.' in mant:
        ip, fp = mant.split('.')
    else:
        ip, fp = mant, ''
    alld = ip + fp
    point = len(ip) + exp
    lz = len(alld) - len(alld.lstrip('0'))
    digits = alld[lz:].rstrip('0')
    n = point - lz
    k = len(digits)
    if k <= n <= 21:
        return digits + '0' * (n - k)
    if 0 < n <= 21:
        return digits[:n] + '.' + digits[n:]
    if -6 < n <= 0:
        return '0.' + '0' * (-n) + digits
    e = n - 1
    es = ('+' if e > 0 else '-') + str(abs(e))
    if k == 1:
        return digits + 'e' + es
    return digits[0] + '.' + digits[1:] + 'e' + es


WS = ' \t\n\r\v\f ﻿  '
DEC_RE = re.compile(r'^[+-]?(\d+\.?\d*([eE][+-]?\d+)?|\.\d+([eE][+-]?\d+)?)$')


def string_to_number(s):
    s = s.strip(WS)
    if s == '':
        return 0.0
    if s in ('Infinity', '+Infinity'):
        return INF
    if s == '-Infinity':
        return -INF
    low = s[:2].lower()
    if low in ('0x', '0o', '0b'):
        base = {'0x': 16, '0o': 8, '0b': 2}[low]
        body = s[2:]
        ok = {16: r'^[0-9a-fA-F]+$', 8: r'^[0-7]+$', 2: r'^[01]+$'}[base]
        if not re.match(ok, body):
            return float('nan')
        return float(int(body, base))
    if DEC_RE.match(s):
        return float(s)
    return float('nan')


def string_to_bigint(s):
    s = s.strip(WS)
    if s == '':
        return Big(0)
    low = s[:2].lower()
    if low in ('0x', '0o', '0b'):
        base = {'0x': 16, '0o': 8, '0b': 2}[low]
        body = s[2:]
        ok = {16: r'^[0-9a-fA-F]+$', 8: r'^[0-7]+$', 2: r'^[01]+$'}[base]
        if not re.match(ok, body):
            return None
        return Big(int(body, base))
    if re.match(r'^[+-]?\d+$', s):
        return Big(int(s))
    return None


def canonical_numeric_index(s):
    if s == '-0':
        return -0.0
    n = string_to_number(s)
    if number_to_string(n) == s:
        return n
    return None


# ------------------------------------------------------------------------------------------
# binary floating point formats, round to nearest even, done by hand

def float_to_bits(x, ebits, mbits):
    """bit pattern of the value of format (ebits, mbits) nearest to the double x (ties to even)"""
    top = ebits + mbits
    if x != x:
        return (((1 << ebits) - 1) << mbits) | (1 << (mbits - 1))
    sign = 1 if math.copysign(1.0, x) < 0 else 0
    ax = abs(x)
    bias = (1 << (ebits - 1)) - 1
    if ax == INF:
        return (sign << top) | (((1 << ebits) - 1) << mbits)
    if ax == 0:
        return sign << top
    m, e = math.frexp(ax)  # ax = m * 2**e, 0.5 <= m < 1
    M = int(m * (1 << 53))  # exact: 53-bit integer
    E = e - 53  # ax = M * 2**E
    exp = e - 1  # unbiased exponent of ax
    emin = 1 - bias
    q = (emin if exp < emin else exp) - mbits  # weight of the last kept bit
    sh = E - q
    if sh >= 0:
        n = M << sh
    else:
        sh = -sh
        n = M >> sh
        rem = M & ((1 << sh) - 1)
        half = 1 << (sh - 1)
        if rem > half or (rem == half and (n & 1)):
            n += 1
    if exp < emin:
        bits = n  # subnormal; n == 1<<mbits is the smallest normal, encoded naturally
    else:
        if n == (1 << (mbits + 1)):
            n >>= 1
            exp += 1
        if exp > bias:
            return (sign << top) | (((1 << ebits) - 1) << mbits)
        bits = ((exp + bias) << mbits) | (n - (1 << mbits))
    return (sign << top) | bits


def bits_to_float(bits, ebits, mbits):
    top = ebits + mbits
    sign = -1.0 if (bits >> top) & 1 else 1.0
    e = (bits >> mbits) & ((1 << ebits) - 1)
    f = bits & ((1 << mbits) - 1)
    bias = (1 << (ebits - 1)) - 1
    if e == (1 << ebits) - 1:
        if f:
            return float('nan')
        return sign * INF
    if e == 0:
        return sign * math.ldexp(float(f), 1 - bias - mbits)
    return sign * math.ldexp(float((1 << mbits) | f), e - bias - mbits)


FMT = {'Float16': (5, 10), 'Float32': (8, 23), 'Float64': (11, 52)}

# name -> (size, class)   class: i signed, u unsigned, c clamped, f float, I bigint64, U biguint64
TYPES = {
    'Int8': (1, 'i'), 'Uint8': (1, 'u'), 'Uint8Clamped': (1, 'c'), 'Int16': (2, 'i'), 'Uint16': (2, 'u'),
    'Int32': (4, 'i'), 'Uint32': (4, 'u'), 'Float16': (2, 'f'), 'Float32': (4, 'f'), 'Float64': (8, 'f'),
    'BigInt64': (8, 'I'), 'BigUint64': (8, 'U'),
}


def is_big(ty):
    return TYPES[ty][1] in 'IU'


def int_range(ty):
    size, cls = TYPES[ty]
    bits = 8 * size
    if cls in 'iI':
        return -(1 << (bits - 1)), (1 << (bits - 1)) - 1
    return 0, (1 << bits) - 1


def value_class(ty, v):
    """class of a converted numeric value v (float or Big) relative to element type ty"""
    size, cls = TYPES[ty]
    if isinstance(v, Big):
        lo, hi = int_range(ty) if cls in 'IU' else (0, 0)
        return 'big-inrange' if lo <= v <= hi else 'big-oor'
    if v != v:
        return 'nan'
    if v in (INF, -INF):
        return 'inf'
    if cls == 'f':
        if ty == 'Float64':
            return 'inrange'
        eb, mb = FMT[ty]
        r = bits_to_float(float_to_bits(v, eb, mb), eb, mb)
        if r in (INF, -INF):
            return 'float-overflow'
        if r != v:
            return 'float-inexact'
        return 'inrange'
    lo, hi = int_range(ty)
    t = int(v)
    if abs(v) >= 2.0 ** 63:
        return 'ge2p63' if v > 0 else 'le-2p63'
    if t < lo or t > hi:
        return 'oor'
    if v == 0 and math.copysign(1.0, v) < 0:
        return 'negzero'
    if t != v:
        return 'frac'
    return 'inrange'


OOR_CLASSES = ('nan', 'inf', 'float-overflow', 'ge2p63', 'le-2p63', 'oor', 'big-oor')


class Model(object):
    def __init__(self):
        self.B = {}
        self.V = {}
        self.flags = set()
        self.ctx = ''
        self.nan_payload = False

    # -------------------------------------------------------------- conversions
    def numeric_to_raw(self, ty, v, le=True):
        size, cls = TYPES[ty]
        vc = value_class(ty, v)
        if vc in OOR_CLASSES:
            self.flags.add('conv-oor')
            self.flags.add('conv-' + vc)
        if cls in 'IU':
            n = int(v) % (1 << 64)
            raw = n.to_bytes(8, 'little')
        elif cls == 'f':
            eb, mb = FMT[ty]
            if ty == 'Float64':
                raw = struct.pack('<d', v) if v == v else bytes.fromhex('000000000000f87f')
            else:
                raw = float_to_bits(v, eb, mb).to_bytes(size, 'little')
        elif cls == 'c':
            if v != v:
                n = 0
            elif v <= 0:
                n = 0
            elif v >= 255:
                n = 255
            else:
                f = math.floor(v)
                if f + 0.5 < v:
                    n = int(f) + 1
                elif v < f + 0.5:
                    n = int(f)
                else:
                    n = int(f) if int(f) % 2 == 0 else int(f) + 1
            raw = bytes([n])
        else:
            if v != v or v in (INF, -INF):
                n = 0
            else:
                n = int(v) % (1 << (8 * size))  # int() truncates toward zero; % is the mathematical modulo
            raw = n.to_bytes(size, 'little')
        return raw if le else raw[::-1]

    def raw_to_numeric(self, ty, raw, le=True):
        size, cls = TYPES[ty]
        if not le:
            raw = raw[::-1]
        if cls == 'f':
            eb, mb = FMT[ty]
            bits = int.from_bytes(raw, 'little')
            v = bits_to_float(bits, eb, mb)
            if v != v:
                canon = (((1 << eb) - 1) << mb) | (1 << (mb - 1))
                if bits != canon:
                    self.nan_payload = True
            return v
        n = int.from_bytes(raw, 'little', signed=(cls in 'iI'))
        if cls in 'IU':
            return Big(n)
        return float(n)

    def to_primitive(self, v):
        if isinstance(v, Evil):
            self.flags.add('evil-' + v.act)
            if v.act == 'resize':
                self.buffer_resize(self.buf(v.buf), float(v.to), 'resize')
            elif v.act == 'grow':
                self.buffer_resize(self.buf(v.buf), float(v.to), 'grow')
            elif v.act == 'detach':
                self.detach(self.buf(v.buf))
            elif v.act == 'throw':
                raise JSThrow('EvalError')
            elif v.act != 'none':
                raise Malformed('evil act ' + v.act)
            return decode_value(v.ret)
        if isinstance(v, JSArray):
            raise Malformed('array as primitive')
        return v

    def to_number(self, v):
        v = self.to_primitive(v)
        if v is UNDEF:
            return float('nan')
        if v is None:
            return 0.0
        if isinstance(v, bool):
            return 1.0 if v else 0.0
        if isinstance(v, Big):
            raise JSThrow('TypeError')
        if isinstance(v, float):
            return v
        if isinstance(v, str):
            return string_to_number(v)
        raise Malformed('to_number of %r' % (v,))

    def to_bigint(self, v):
        v = self.to_primitive(v)
        if v is UNDEF or v is None:
            raise JSThrow('TypeError')
        if isinstance(v, bool):
            return Big(1 if v else 0)
        if isinstance(v, Big):
            return v
        if isinstance(v, float):
            raise JSThrow('TypeError')
        if isinstance(v, str):
            r = string_to_bigint(v)
            if r is None:
                raise JSThrow('SyntaxError')
            return r
        raise Malformed('to_bigint of %r' % (v,))

    def to_numeric_for(self, ty, v):
        return self.to_bigint(v) if is_big(ty) else self.to_number(v)

    def to_integer_or_infinity(self, v):
        """returns an int, or +-INF (float)"""
        n = self.to_number(v)
        if n != n or n == 0:
            return 0
        if n in (INF, -INF):
            return n
        return int(n)

    def to_index(self, v):
        if v is UNDEF or v is ABSENT:
            return 0
        i = self.to_integer_or_infinity(v)
        if i < 0 or i > MAXSAFE:
            raise JSThrow('RangeError')
        return i

    def to_boolean(self, v):
        if v is UNDEF or v is None or v is ABSENT:
            return False
        if isinstance(v, bool):
            return v
        if isinstance(v, Big):
            return v != 0
        if isinstance(v, float):
            return not (v != v or v == 0)
        if isinstance(v, str):
            return v != ''
        return True

    def relative(self, v, length, default_len=False):
        """ToIntegerOrInfinity + the usual clamp of start/end style arguments"""
        if default_len and (v is UNDEF or v is ABSENT):
            return length
        r = self.to_integer_or_infinity(v if v is not ABSENT else UNDEF)
        if r == -INF:
            return 0
        if r < 0:
            return max(length + r, 0)
        return min(r, length) if r != INF else length

    # -------------------------------------------------------------- buffers
    def buf(self, i):
        if i not in self.B:
            raise Malformed('no buffer %r' % (i,))
        return self.B[i]

    def view(self, i):
        if i not in self.V:
            raise Malformed('no view %r' % (i,))
        return self.V[i]

    def status_snapshot(self):
        return dict((i, v.status()) for i, v in self.V.items())

    def note_status_changes(self, before):
        for i, v in self.V.items():
            if i in before and before[i] != v.status():
                if before[i][0] != v.status()[0]:
                    v.bounds_changed = True
                    self.flags.add('bounds-status-changed')
                else:
                    v.length_changed = True
                    self.flags.add('tracked-length-changed')

    def buffer_resize(self, b, new_len, method):
        # method: 'resize' (ArrayBuffer.prototype.resize) or 'grow' (SharedArrayBuffer.prototype.grow)
        if (method == 'resize') == b.shared:
            raise JSThrow('TypeError')  # the prototype of the other kind has no such method
        if b.max is None:
            raise JSThrow('TypeError')
        n = self.to_index(new_len)
        if not b.shared and b.data is None:
            raise JSThrow('TypeError')
        if n > b.max:
            raise JSThrow('RangeError')
        cur = len(b.data)
        if b.shared and n < cur:
            raise JSThrow('RangeError')
        before = self.status_snapshot()
        if n < cur:
            del b.data[n:]
        else:
            b.data.extend(bytes(n - cur))
        self.note_status_changes(before)

    def detach(self, b):
        if b.shared:
            raise JSThrow('TypeError')
        before = self.status_snapshot()
        b.data = None
        self.note_status_changes(before)

    # -------------------------------------------------------------- dump
    def dump(self):
        out = []
        for i in sorted(self.B):
            out.append('b%d %s' % (i, self.B[i].dump()))
        for i in sorted(self.V):
            out.append('v%d %s' % (i, self.V[i].dump(self)))
        return out

    def fmt(self, v):
        if v is UNDEF:
            return 'undefined'
        if v is None:
            return 'null'
        if isinstance(v, bool):
            return 'true' if v else 'false'
        if isinstance(v, Big):
            return '%dn' % int(v)
        if isinstance(v, float):
            return F(v)
        if isinstance(v, str):
            return 's:' + v
        if isinstance(v, (TA, DV)):
            for i, x in self.V.items():
                if x is v:
                    return 'V%d' % i
            return 'TA:' + v.dump(self)
        if isinstance(v, Buf):
            for i, x in self.B.items():
                if x is v:
                    return 'B%d' % i
            return 'BUF:' + v.dump()
        raise Malformed('fmt %r' % (v,))


def F(x):
    if x != x:
        return 'NaN'
    if x == 0:
        return '-0' if math.copysign(1.0, x) < 0 else '0'
    if x not in (INF, -INF) and x == math.floor(x) and abs(x) < 2.0 ** 53:
        return str(int(x))
    return 'f:' + struct.pack('>d', x).hex()


class Buf(object):
    def __init__(self, shared, length, maxlen):
        self.shared = shared
        self.data = bytearray(length)
        self.max = maxlen

    def dump(self):
        if self.data is None:
            return 'AB 0/0/%s detached' % ('true' if self.max is not None else 'false')
        cur = len(self.data)
        return '%s %d/%d/%s %s' % ('SAB' if self.shared else 'AB', cur, self.max if self.max is not None else cur,
                                   'true' if self.max is not None else 'false', bytes(self.data).hex())

    def is_fixed(self):
        return self.max is None


class TA(object):
    def __init__(self, ty, buf, off, length):
        self.ty = ty
        self.size = TYPES[ty][0]
        self.buf = buf
        self.off = off
        self.length = length  # None = length-tracking
        self.props = {}
        self.bounds_changed = False
        self.length_changed = False

    def oob(self):
        if self.buf.data is None:
            return True
        bl = len(self.buf.data)
        if self.length is None:
            return self.off > bl
        return self.off > bl or self.off + self.length * self.size > bl

    def len(self):
        if self.oob():
            return 0
        if self.length is not None:
            return self.length
        return (len(self.buf.data) - self.off) // self.size

    def status(self):
        return ('oob' if self.oob() else 'in', self.len())

    def valid_index(self, idx):
        # IsValidIntegerIndex
        if self.buf.data is None:
            return False
        if isinstance(idx, float):
            if idx != idx or idx in (INF, -INF) or idx != math.floor(idx):
                return False
            if idx == 0 and math.copysign(1.0, idx) < 0:
                return False
            idx = int(idx)
        if self.oob():
            return False
        return 0 <= idx < self.len()

    def get(self, m, idx):
        idx = int(idx)
        p = self.off + idx * self.size
        return m.raw_to_numeric(self.ty, bytes(self.buf.data[p:p + self.size]))

    def put(self, m, idx, num):
        idx = int(idx)
        p = self.off + idx * self.size
        self.buf.data[p:p + self.size] = m.numeric_to_raw(self.ty, num)

    def get_index(self, m, idx):
        """[[Get]] of a canonical numeric key / TypedArrayGetElement"""
        m.touch(self)
        if not self.valid_index(idx):
            return UNDEF
        return self.get(m, idx)

    def set_index(self, m, idx, value):
        """TypedArraySetElement"""
        m.touch(self)
        num = m.to_numeric_for(self.ty, value)
        if self.valid_index(idx):
            self.put(m, idx, num)

    def dump(self, m):
        saved = m.nan_payload
        n = self.len()
        els = ','.join(m.fmt(self.get(m, i)) for i in range(n))
        m.nan_payload = saved  # reading for the dump prints NaN as "NaN": payload not observable
        return '%sArray len=%d bl=%d bo=%d [%s]' % (self.ty, n, n * self.size, 0 if self.oob() else self.off, els)


class DV(object):
    def __init__(self, buf, off, length):
        self.buf = buf
        self.off = off
        self.length = length  # None = tracking
        self.bounds_changed = False
        self.length_changed = False

    def oob(self):
        if self.buf.data is None:
            return True
        bl = len(self.buf.data)
        if self.length is None:
            return self.off > bl
        return self.off > bl or self.off + self.length > bl

    def byte_length(self):
        if self.length is not None:
            return self.length
        return len(self.buf.data) - self.off

    def status(self):
        return ('oob' if self.oob() else 'in', 0 if self.oob() else self.byte_length())

    def dump(self, m):
        if self.oob():
            return 'DataView bl=TypeError bo=TypeError'
        return 'DataView bl=%d bo=%d' % (self.byte_length(), self.off)


def decode_value(spec):
    if spec is None:
        return ABSENT
    if 'f' in spec:
        return struct.unpack('>d', bytes.fromhex(spec['f']))[0]
    if 'b' in spec:
        return Big(int(spec['b']))
    if 's' in spec:
        return spec['s']
    if 'u' in spec:
        return UNDEF
    if 'z' in spec:
        return None
    if 't' in spec:
        return bool(spec['t'])
    if 'evil' in spec:
        return Evil(spec['evil'])
    if 'arr' in spec:
        return JSArray([decode_value(x) for x in spec['arr']])
    raise Malformed('value spec %r' % (spec,))


def describe_value(spec):
    if spec is None:
        return 'absent'
    for k, name in (('f', 'num'), ('b', 'bigint'), ('s', 'string'), ('u', 'undefined'), ('z', 'null'), ('t', 'bool'), ('arr', 'array')):
        if k in spec:
            return name
    if 'evil' in spec:
        return 'evil-' + spec['evil']['act']
    return '?'


PRIORITY = ['ge2p63', 'le-2p63', 'oor', 'big-oor', 'inf', 'nan', 'float-overflow', 'evil-resize', 'evil-detach', 'evil-grow', 'evil-throw',
            'frac', 'negzero', 'float-inexact', 'string', 'undefined', 'null', 'bool', 'bigint', 'num', 'inrange', 'big-inrange']


def arr_ctx(ty, spec):
    """worst value class among the items of an array source"""
    items = (spec or {}).get('arr') or []
    classes = [val_ctx(ty, it)[4:] for it in items]
    for p in PRIORITY:
        if p in classes:
            return 'val=' + p
    return 'val=' + (classes[0] if classes else 'empty')


def val_ctx(ty, spec):
    """value class of the primary value argument, for signatures: e.g. num:ge2p63"""
    d = describe_value(spec)
    if d == 'num' and ty is not None and not is_big(ty):
        return 'val=' + value_class(ty, decode_value(spec))
    if d == 'bigint' and ty is not None and is_big(ty):
        return 'val=' + value_class(ty, decode_value(spec))
    if d.startswith('evil'):
        return 'val=' + d
    return 'val=' + d


# ------------------------------------------------------------------------------------------
# operations

def touch(self, v):
    if v.bounds_changed:
        self.flags.add('access-after-bounds-change')
    if v.length_changed:
        self.flags.add('access-after-length-change')


Model.touch = touch


def validate_ta(m, v):
    """ValidateTypedArray: TypeError when out of bounds / detached; returns length"""
    if not isinstance(v, TA):
        raise JSThrow('TypeError')
    m.touch(v)
    if v.oob():
        raise JSThrow('TypeError')
    return v.len()


def op_newbuf(m, op):
    kind = op['kind']
    length = op['len']
    mx = op.get('max')
    m.ctx = 'newbuf ' + kind
    if mx is not None and length > mx:
        raise JSThrow('RangeError')
    b = Buf(kind in ('sab', 'gsab'), length, mx)
    if (kind in ('rab', 'gsab')) != (mx is not None):
        raise Malformed('newbuf kind/max')
    if op.get('pat'):
        # the harness fills the new buffer with a position-dependent pattern
        for i in range(length):
            b.data[i] = (i * 37 + 11) & 255
    m.B[op['id']] = b
    return 'undefined'


def construct_view(m, ctor, b, off, length):
    """new <ctor>(buffer, byteOffset, length) with plain (possibly evil) arguments; returns TA / DV"""
    if ctor == 'DataView':
        offset = m.to_index(off)
        if b.data is None:
            raise JSThrow('TypeError')
        bl = len(b.data)
        if offset > bl:
            raise JSThrow('RangeError')
        if length is UNDEF or length is ABSENT:
            vl = None if not b.is_fixed() else bl - offset
        else:
            vl = m.to_index(length)
            if offset + vl > bl:
                raise JSThrow('RangeError')
        # after OrdinaryCreateFromConstructor the checks are repeated
        if b.data is None:
            raise JSThrow('TypeError')
        bl = len(b.data)
        if offset > bl:
            raise JSThrow('RangeError')
        if not (length is UNDEF or length is ABSENT) and offset + vl > bl:
            raise JSThrow('RangeError')
        return DV(b, offset, vl)
    ty = ctor[:-5]
    size = TYPES[ty][0]
    offset = m.to_index(off)
    if offset % size != 0:
        raise JSThrow('RangeError')
    new_len = None
    if not (length is UNDEF or length is ABSENT):
        new_len = m.to_index(length)
    if b.data is None:
        raise JSThrow('TypeError')
    bl = len(b.data)
    if new_len is None and not b.is_fixed():
        if offset > bl:
            raise JSThrow('RangeError')
        return TA(ty, b, offset, None)
    if new_len is None:
        if bl % size != 0:
            raise JSThrow('RangeError')
        nbl = bl - offset
        if nbl < 0:
            raise JSThrow('RangeError')
        return TA(ty, b, offset, nbl // size)
    if offset + new_len * size > bl:
        raise JSThrow('RangeError')
    return TA(ty, b, offset, new_len)


def op_newview(m, op):
    b = m.buf(op['buf'])
    off = decode_value(op.get('off'))
    length = decode_value(op.get('len'))
    m.ctx = 'newview ' + op['ctor']
    v = construct_view(m, op['ctor'], b, off, length)
    if op.get('id') is not None:
        m.V[op['id']] = v
        return 'undefined'
    return m.fmt(v)


def op_resize(m, op):
    b = m.buf(op['buf'])
    m.ctx = 'resize %s%s to=%s' % (op['method'], ' fixed-length-buffer' if (b.max is None and not b.shared and op['method'] == 'resize') else '', describe_value(op['to']))
    m.buffer_resize(b, decode_value(op['to']), op['method'])
    return 'undefined'


def op_detach(m, op):
    b = m.buf(op['buf'])
    m.ctx = 'detach'
    m.detach(b)
    return 'undefined'


def op_bslice(m, op):
    b = m.buf(op['buf'])
    m.ctx = 'bslice' + (' shared-zero-capacity' if (b.shared and (b.max if b.max is not None else len(b.data)) == 0) else '')
    start = decode_value(op.get('start'))
    end = decode_value(op.get('end'))
    if not b.shared and b.data is None:
        raise JSThrow('TypeError')
    length = len(b.data)
    first = m.relative(start, length)
    final = m.relative(end, length, default_len=True)
    new_len = max(final - first, 0)
    nb = Buf(b.shared, new_len, None)
    if not b.shared:
        if b.data is None:
            raise JSThrow('TypeError')
        cur = len(b.data)
        if first < cur:
            count = min(new_len, cur - first)
            nb.data[0:count] = b.data[first:first + count]
    else:
        nb.data[0:new_len] = b.data[first:first + new_len]
    return m.fmt(nb)


def key_of(m, kspec):
    """returns ('index', number) | ('prop', string)"""
    if 'n' in kspec:
        n = decode_value({'f': kspec['n']})
        # numeric literal key: ToString(n) is always a canonical numeric string ("-0" prints as "0")
        if n == 0:
            n = 0.0
        return ('index', n)
    s = kspec['k']
    n = canonical_numeric_index(s)
    if n is None:
        return ('prop', s)
    return ('index', n)


def op_get(m, op):
    v = m.view(op['view'])
    if not isinstance(v, TA):
        raise Malformed('get on DataView')
    kind, key = key_of(m, op['key'])
    m.ctx = 'get %s key=%s' % (v.ty, 'index' if kind == 'index' else 'prop')
    if kind == 'prop':
        return m.fmt(v.props.get(key, UNDEF))
    return m.fmt(v.get_index(m, key))


def op_set(m, op):
    v = m.view(op['view'])
    if not isinstance(v, TA):
        raise Malformed('set on DataView')
    kind, key = key_of(m, op['key'])
    m.ctx = 'set %s %s' % (v.ty, val_ctx(v.ty, op['val']))
    val = decode_value(op['val'])
    if kind == 'prop':
        if isinstance(val, Evil):
            raise Malformed('evil as ordinary property value')
        v.props[key] = val
        return 'undefined'
    v.set_index(m, key, val)
    return 'undefined'


def op_elemcopy(m, op):
    dst = m.view(op['view'])
    src = m.view(op['src'])
    m.ctx = 'elemcopy %s>%s' % (src.ty, dst.ty)
    m.nan_payload = False
    val = src.get_index(m, float(op['si']))
    if m.nan_payload and TYPES[dst.ty][1] == 'f':
        raise Stop()
    if isinstance(val, float) and not is_big(dst.ty):
        m.ctx += ' val=' + value_class(dst.ty, val)
    dst.set_index(m, float(op['di']), val)
    return 'undefined'


def dv_check(m, v, size, idx):
    m.touch(v)
    if v.oob():
        raise JSThrow('TypeError')
    if idx + size > v.byte_length():
        raise JSThrow('RangeError')
    return idx + v.off


def op_dvget(m, op):
    v = m.view(op['view'])
    if not isinstance(v, DV):
        raise Malformed('dvget on TA')
    ty = op['ty']
    size = TYPES[ty][0]
    m.ctx = 'dvget %s' % ty
    idx = m.to_index(decode_value(op.get('off')))
    le = m.to_boolean(decode_value(op.get('le')))
    if 'le' in BREAK:
        le = True
    p = dv_check(m, v, size, idx)
    return m.fmt(m.raw_to_numeric(ty, bytes(v.buf.data[p:p + size]), le))


def op_dvset(m, op):
    v = m.view(op['view'])
    if not isinstance(v, DV):
        raise Malformed('dvset on TA')
    ty = op['ty']
    size = TYPES[ty][0]
    m.ctx = 'dvset %s %s' % (ty, val_ctx(ty, op.get('val')))
    idx = m.to_index(decode_value(op.get('off')))
    val = decode_value(op.get('val'))
    num = m.to_numeric_for(ty, UNDEF if val is ABSENT else val)
    le = m.to_boolean(decode_value(op.get('le')))
    if 'le' in BREAK:
        le = True
    p = dv_check(m, v, size, idx)
    v.buf.data[p:p + size] = m.numeric_to_raw(ty, num, le)
    return 'undefined'


def op_tset(m, op):
    target = m.view(op['view'])
    if not isinstance(target, TA):
        raise Malformed('tset on DataView')
    off = decode_value(op.get('off'))
    toff = m.to_integer_or_infinity(UNDEF if off is ABSENT else off)
    if toff < 0:
        m.ctx = 'tset %s' % target.ty
        raise JSThrow('RangeError')
    if 'src' in op and 'view' in op['src']:
        src = m.view(op['src']['view'])
        if not isinstance(src, TA):
            raise Malformed('tset from DataView')
        m.ctx = 'tset %s>%s' % (src.ty, target.ty)
        m.touch(target)
        if target.oob():
            raise JSThrow('TypeError')
        tlen = target.len()
        m.touch(src)
        if src.oob():
            raise JSThrow('TypeError')
        slen = src.len()
        if toff == INF:
            raise JSThrow('RangeError')
        if slen + toff > tlen:
            raise JSThrow('RangeError')
        if is_big(target.ty) != is_big(src.ty):
            raise JSThrow('TypeError')
        sbytes = bytes(src.buf.data[src.off:src.off + slen * src.size])  # clone (covers the same-buffer case)
        tstart = target.off + toff * target.size
        if src.buf is target.buf:
            s0, s1 = src.off, src.off + slen * src.size
            t0, t1 = tstart, tstart + slen * target.size
            if s0 < t1 and t0 < s1 and slen > 0:
                m.flags.add('overlapping-set')
                if src.size != target.size:
                    m.flags.add('overlapping-set-different-size')
        if src.ty == target.ty:
            target.buf.data[tstart:tstart + len(sbytes)] = sbytes
        else:
            m.nan_payload = False
            if src.buf is target.buf:
                vals = [m.raw_to_numeric(src.ty, sbytes[i * src.size:(i + 1) * src.size]) for i in range(slen)]
            else:
                vals = None
            classes = set()
            for i in range(slen):
                # different buffers: the spec reads each source element right before writing it
                val = vals[i] if vals is not None else src.get(m, i)
                if m.nan_payload and TYPES[target.ty][1] == 'f':
                    raise Stop()
                classes.add(value_class(target.ty, val))
                target.put(m, toff + i, val)
            worst = [p for p in PRIORITY if p in classes]
            if worst:
                m.ctx += ' val=' + worst[0]
        return 'undefined'
    arr = decode_value(op['src'])
    if not isinstance(arr, JSArray):
        raise Malformed('tset source')
    m.ctx = 'tset array>%s %s' % (target.ty, arr_ctx(target.ty, op['src']))
    m.touch(target)
    if target.oob():
        raise JSThrow('TypeError')
    tlen = target.len()
    slen = len(arr.items)
    if toff == INF:
        raise JSThrow('RangeError')
    if slen + toff > tlen:
        raise JSThrow('RangeError')
    for k, item in enumerate(arr.items):
        target.set_index(m, toff + k, item)
    return 'undefined'


def species_create_same(m, src, args_len):
    """TypedArraySpeciesCreate with the default constructor and a length argument"""
    nb = Buf(False, args_len * src.size, None)
    return TA(src.ty, nb, 0, args_len)


def op_subarray(m, op):
    v = m.view(op['view'])
    if not isinstance(v, TA):
        raise Malformed('subarray on DataView')
    m.ctx = 'subarray %s' % v.ty
    m.touch(v)
    src_len = 0 if v.oob() else v.len()
    begin = decode_value(op.get('begin'))
    end = decode_value(op.get('end'))
    start_index = m.relative(begin, src_len)
    begin_off = v.off + start_index * v.size
    if v.length is None and (end is UNDEF or end is ABSENT):
        r = construct_view(m, v.ty + 'Array', v.buf, float(begin_off), UNDEF)
    else:
        end_index = m.relative(end, src_len, default_len=True)
        new_len = max(end_index - start_index, 0)
        r = construct_view(m, v.ty + 'Array', v.buf, float(begin_off), float(new_len))
    if op.get('as') is not None:
        m.V[op['as']] = r
    return 'TA:' + r.dump(m) if op.get('as') is None else m.fmt(r)


def op_slice(m, op):
    v = m.view(op['view'])
    if not isinstance(v, TA):
        raise Malformed('slice on DataView')
    m.ctx = 'slice %s' % v.ty
    src_len = validate_ta(m, v)
    start = m.relative(decode_value(op.get('start')), src_len)
    end = m.relative(decode_value(op.get('end')), src_len, default_len=True)
    count = max(end - start, 0)
    a = species_create_same(m, v, count)
    if count > 0:
        if v.oob():
            raise JSThrow('TypeError')
        end = min(end, v.len())
        count = max(end - start, 0)
        p = v.off + start * v.size
        a.buf.data[0:count * v.size] = v.buf.data[p:p + count * v.size]
    return m.fmt(a)


def op_copywithin(m, op):
    v = m.view(op['view'])
    if not isinstance(v, TA):
        raise Malformed('copyWithin on DataView')
    m.ctx = 'copyWithin %s' % v.ty
    length = validate_ta(m, v)
    to = m.relative(decode_value(op.get('target')), length)
    frm = m.relative(decode_value(op.get('start')), length)
    final = m.relative(decode_value(op.get('end')), length, default_len=True)
    count = min(final - frm, length - to)
    if count > 0:
        if v.oob():
            raise JSThrow('TypeError')
        length = v.len()
        size = v.size
        limit = length * size + v.off
        to_b = to * size + v.off
        from_b = frm * size + v.off
        cb = count * size
        if from_b < to_b and to_b < from_b + cb:
            d = -1
            from_b += cb - 1
            to_b += cb - 1
        else:
            d = 1
        data = v.buf.data
        while cb > 0:
            if from_b < limit and to_b < limit:
                data[to_b] = data[from_b]
                from_b += d
                to_b += d
                cb -= 1
            else:
                if d == -1:
                    # backward copy whose (old) end lies beyond the shrunk array: the literal algorithm
                    # copies nothing, V8 and boa copy the part that still fits; not asserted either way
                    m.flags.add('copywithin-shrunk-backward')
                    raise Stop()
                cb = 0
    return m.fmt(v)


def op_fill(m, op):
    v = m.view(op['view'])
    if not isinstance(v, TA):
        raise Malformed('fill on DataView')
    m.ctx = 'fill %s %s' % (v.ty, val_ctx(v.ty, op.get('val')))
    length = validate_ta(m, v)
    val = decode_value(op.get('val'))
    num = m.to_numeric_for(v.ty, UNDEF if val is ABSENT else val)
    start = m.relative(decode_value(op.get('start')), length)
    end = m.relative(decode_value(op.get('end')), length, default_len=True)
    if v.oob():
        raise JSThrow('TypeError')
    length = v.len()
    end = min(end, length)
    for k in range(start, end):
        v.put(m, k, num)
    return m.fmt(v)


def js_lt(a, b):
    return a < b


def sort_key_cmp(x, y):
    """CompareTypedArrayElements without comparefn: -1/0/1"""
    if isinstance(x, Big):
        return (x > y) - (x < y)
    if x != x and y != y:
        return 0
    if x != x:
        return 1
    if y != y:
        return -1
    if x < y:
        return -1
    if x > y:
        return 1
    sx = math.copysign(1.0, x) < 0
    sy = math.copysign(1.0, y) < 0
    if x == 0 and y == 0:
        if sx and not sy:
            return -1
        if sy and not sx:
            return 1
    return 0


def op_sort(m, op):
    import functools
    v = m.view(op['view'])
    if not isinstance(v, TA):
        raise Malformed('sort on DataView')
    cmpname = op.get('cmp')
    m.ctx = 'sort %s cmp=%s' % (v.ty, cmpname)
    length = validate_ta(m, v)
    m.nan_payload = False
    vals = [v.get(m, i) for i in range(length)]
    if m.nan_payload:
        raise Stop()
    if cmpname is None:
        f = sort_key_cmp
    elif cmpname == 'desc':
        # (a,b) => a<b ? 1 : a>b ? -1 : 0   (NaN compares as equal to everything: inconsistent => excluded by the generator for float arrays with NaN)
        def f(a, b):
            return 1 if a < b else (-1 if a > b else 0)
        if any(isinstance(x, float) and x != x for x in vals):
            raise Stop()
    elif cmpname == 'zero':
        def f(a, b):
            return 0
    elif cmpname == 'nan':
        def f(a, b):
            return 0  # comparefn returns NaN => +0
    else:
        raise Malformed('cmp')
    vals = sorted(vals, key=functools.cmp_to_key(f))  # stable, as the spec requires
    for i, x in enumerate(vals):
        v.put(m, i, x)
    return m.fmt(v)


def op_reverse(m, op):
    v = m.view(op['view'])
    if not isinstance(v, TA):
        raise Malformed('reverse on DataView')
    m.ctx = 'reverse %s' % v.ty
    length = validate_ta(m, v)
    m.nan_payload = False
    vals = [v.get(m, i) for i in range(length)]
    if m.nan_payload:
        raise Stop()
    for i, x in enumerate(reversed(vals)):
        v.put(m, i, x)
    return m.fmt(v)


def strict_equals(a, b):
    if isinstance(a, Big) != isinstance(b, Big):
        return False
    if isinstance(a, bool) or isinstance(b, bool):
        return isinstance(a, bool) and isinstance(b, bool) and a == b
    if isinstance(a, Big):
        return int(a) == int(b)
    if isinstance(a, float) and isinstance(b, float):
        return a == b
    if isinstance(a, str) and isinstance(b, str):
        return a == b
    return a is b


def same_value_zero(a, b):
    if isinstance(a, float) and isinstance(b, float) and a != a and b != b:
        return True
    return strict_equals(a, b)


def op_search(m, op):
    v = m.view(op['view'])
    if not isinstance(v, TA):
        raise Malformed('search on DataView')
    which = op['which']
    m.ctx = '%s %s' % (which, v.ty)
    length = validate_ta(m, v)
    needle = decode_value(op['val'])
    if isinstance(needle, (Evil, JSArray)):
        raise Malformed('needle')
    has_from = 'from' in op and op['from'] is not None
    frm = decode_value(op.get('from'))
    if which in ('includes', 'indexOf'):
        if length == 0:
            return 'false' if which == 'includes' else '-1'
        n = m.to_integer_or_infinity(UNDEF if frm is ABSENT else frm)
        if n == INF:
            return 'false' if which == 'includes' else '-1'
        if n == -INF:
            n = 0
        k = n if n >= 0 else max(length + n, 0)
        while k < length:
            if which == 'includes':
                el = v.get_index(m, k)
                if same_value_zero(needle, el):
                    return 'true'
            else:
                if v.valid_index(k):
                    el = v.get(m, k)
                    if strict_equals(needle, el):
                        return m.fmt(float(k))
            k += 1
        return 'false' if which == 'includes' else '-1'
    if which == 'lastIndexOf':
        if length == 0:
            return '-1'
        n = m.to_integer_or_infinity(frm) if has_from else length - 1
        if n == -INF:
            return '-1'
        k = min(n, length - 1) if n >= 0 else length + n
        if k == INF:
            k = length - 1
        while k >= 0:
            if v.valid_index(k):
                el = v.get(m, k)
                if strict_equals(needle, el):
                    return m.fmt(float(k))
            k -= 1
        return '-1'
    raise Malformed('search kind')


def op_at(m, op):
    v = m.view(op['view'])
    if not isinstance(v, TA):
        raise Malformed('at on DataView')
    m.ctx = 'at %s' % v.ty
    length = validate_ta(m, v)
    idx = decode_value(op.get('idx'))
    rel = m.to_integer_or_infinity(UNDEF if idx is ABSENT else idx)
    if rel in (INF, -INF):
        return 'undefined'
    k = rel if rel >= 0 else length + rel
    if k < 0 or k >= length:
        return 'undefined'
    return m.fmt(v.get_index(m, k))


def op_newfrom(m, op):
    ctor = op['ctor']
    ty = ctor[:-5]
    size = TYPES[ty][0]
    if 'view' in op['src']:
        src = m.view(op['src']['view'])
        if not isinstance(src, TA):
            raise Malformed('newfrom DataView')
        m.ctx = 'newfrom %s>%s' % (src.ty, ty)
        m.touch(src)
        if src.oob():
            raise JSThrow('TypeError')
        n = src.len()
        nb = Buf(False, n * size, None)
        r = TA(ty, nb, 0, n)
        if src.ty == ty:
            nb.data[:] = src.buf.data[src.off:src.off + n * size]
        else:
            if is_big(ty) != is_big(src.ty):
                raise JSThrow('TypeError')
            m.nan_payload = False
            classes = set()
            for i in range(n):
                val = src.get(m, i)
                if m.nan_payload and TYPES[ty][1] == 'f':
                    raise Stop()
                classes.add(value_class(ty, val))
                r.put(m, i, val)
            if classes & set(OOR_CLASSES):
                m.ctx += ' cast-oor'
            elif 'frac' in classes and TYPES[ty][1] == 'c':
                m.ctx += ' cast-clamp-frac'
            else:
                m.ctx += ' cast-inrange'
        return m.fmt(r)
    arr = decode_value(op['src'])
    if not isinstance(arr, JSArray):
        raise Malformed('newfrom source')
    m.ctx = 'newfrom array>%s %s' % (ty, arr_ctx(ty, op['src']))
    n = len(arr.items)
    nb = Buf(False, n * size, None)
    r = TA(ty, nb, 0, n)
    for k, item in enumerate(arr.items):
        r.set_index(m, k, item)
    return m.fmt(r)


ATOMIC_OK = ('Int8', 'Uint8', 'Int16', 'Uint16', 'Int32', 'Uint32', 'BigInt64', 'BigUint64')


def op_atomic(m, op):
    v = m.view(op['view'])
    fn = op['fn']
    ty = v.ty if isinstance(v, TA) else 'DataView'
    vc = val_ctx(ty if ty in TYPES else None, op.get('val'))
    if fn == 'compareExchange':
        both = [vc[4:], val_ctx(ty if ty in TYPES else None, op.get('val2'))[4:]]
        vc = 'val=' + ([p for p in PRIORITY if p in both] + both)[0]
    m.ctx = 'Atomics.%s %s %s' % (fn, ty, vc)
    # ValidateIntegerTypedArray
    if not isinstance(v, TA):
        raise JSThrow('TypeError')
    length = validate_ta(m, v)
    if v.ty not in ATOMIC_OK:
        raise JSThrow('TypeError')
    # ValidateAtomicAccess
    idx = m.to_index(decode_value(op.get('idx')))
    if idx >= length:
        raise JSThrow('RangeError')
    byte_index = idx * v.size + v.off

    def conv(spec):
        val = decode_value(spec)
        if val is ABSENT:
            val = UNDEF
        if is_big(v.ty):
            return m.to_bigint(val)
        r = m.to_integer_or_infinity(val)
        return float(r)

    def revalidate():
        if v.oob():
            raise JSThrow('TypeError')
        if byte_index >= len(v.buf.data):
            raise JSThrow('RangeError')
        if byte_index + v.size > len(v.buf.data):
            # RevalidateAtomicAccess only compares the first byte with the buffer length; an element that
            # straddles the new end is not covered by the specification text
            m.flags.add('atomics-straddle')
            raise Stop()

    size = v.size
    data = v.buf.data
    if fn == 'load':
        revalidate()
        return m.fmt(m.raw_to_numeric(v.ty, bytes(v.buf.data[byte_index:byte_index + size])))
    if fn == 'store':
        val = conv(op.get('val'))
        if isinstance(val, float) and val == val and val not in (INF, -INF) and abs(val) >= 2.0 ** 63:
            m.ctx = m.ctx.replace('Atomics.store', 'Atomics.store-huge')
        revalidate()
        v.buf.data[byte_index:byte_index + size] = m.numeric_to_raw(v.ty, val)
        return m.fmt(val)
    if fn == 'compareExchange':
        expected = conv(op.get('val'))
        repl = conv(op.get('val2'))
        revalidate()
        eb = m.numeric_to_raw(v.ty, expected)
        rb = m.numeric_to_raw(v.ty, repl)
        old = bytes(v.buf.data[byte_index:byte_index + size])
        if old == eb:
            v.buf.data[byte_index:byte_index + size] = rb
        return m.fmt(m.raw_to_numeric(v.ty, old))
    val = conv(op.get('val'))
    revalidate()
    old = bytes(v.buf.data[byte_index:byte_index + size])
    a = int.from_bytes(old, 'little')
    b = int.from_bytes(m.numeric_to_raw(v.ty, val), 'little')
    mask = (1 << (8 * size)) - 1
    if fn == 'add':
        r = (a + b) & mask
    elif fn == 'sub':
        r = (a - b) & mask
    elif fn == 'and':
        r = a & b
    elif fn == 'or':
        r = a | b
    elif fn == 'xor':
        r = a ^ b
    elif fn == 'exchange':
        r = b
    else:
        raise Malformed('atomic fn')
    v.buf.data[byte_index:byte_index + size] = r.to_bytes(size, 'little')
    return m.fmt(m.raw_to_numeric(v.ty, old))


OPS = {
    'newbuf': op_newbuf, 'newview': op_newview, 'resize': op_resize, 'detach': op_detach, 'bslice': op_bslice,
    'get': op_get, 'set': op_set, 'elemcopy': op_elemcopy, 'dvget': op_dvget, 'dvset': op_dvset, 'tset': op_tset,
    'subarray': op_subarray, 'slice': op_slice, 'copyWithin': op_copywithin, 'fill': op_fill, 'sort': op_sort,
    'reverse': op_reverse, 'search': op_search, 'at': op_at, 'newfrom': op_newfrom, 'atomic': op_atomic,
}


def run(ops):
    m = Model()
    lines = []
    ctxs = []
    stop = -1
    k = 0
    for op in ops:
        name = op.get('op')
        if name == 'guard':
            continue
        if name not in OPS:
            raise Malformed('unknown op %r' % (name,))
        m.ctx = name
        saved = None
        try:
            r = OPS[name](m, op)
        except JSThrow as e:
            r = 'throw:' + e.name
        except Stop:
            stop = len(lines)
            m.flags.add('truncated-nan-payload')
            break
        ctxs.append(m.ctx)
        lines.append('#%d %s' % (k, r))
        lines.extend(m.dump())
        k += 1
    if stop < 0:
        lines.append('guard ok')
    return {'lines': lines, 'flags': sorted(m.flags), 'ctx': ctxs, 'stop': stop, 'malformed': None}


def selftest():
    import random
    rnd = random.Random(1)
    for _ in range(200000):
        bits = rnd.getrandbits(64)
        x = struct.unpack('>d', bits.to_bytes(8, 'big'))[0]
        if x != x:
            continue
        for scale in (1.0, 1e-30, 1e30):
            y = x * scale if abs(x) < 1e300 else x
            try:
                want = struct.unpack('<I', struct.pack('<f', y))[0]
            except OverflowError:
                want = 0x7f800000 | (0x80000000 if y < 0 else 0)
            got = float_to_bits(y, 8, 23)
            assert got == want, (y, hex(got), hex(want))
    for _ in range(200000):
        e = rnd.randint(-30, 18)
        y = rnd.choice((-1, 1)) * rnd.random() * 2.0 ** e
        try:
            want = struct.unpack('<H', struct.pack('<e', y))[0]
        except OverflowError:
            want = 0x7c00 | (0x8000 if y < 0 else 0)
        got = float_to_bits(y, 5, 10)
        assert got == want, (y, hex(got), hex(want))
    for b in range(1 << 16):
        v = bits_to_float(b, 5, 10)
        w = struct.unpack('<e', struct.pack('<H', b))[0]
        assert (v != v and w != w) or (v == w and math.copysign(1, v) == math.copysign(1, w)), b
        if v == v:
            assert float_to_bits(v, 5, 10) == b
    for s, want in (('1e21', '1e+21'), ('123456789012345680000', '123456789012345680000'), ('0.000001', '0.000001'),
                    ('1e-7', '1e-7'), ('1.5', '1.5'), ('4294967296', '4294967296'), ('5e-324', '5e-324'),
                    ('1.7976931348623157e308', '1.7976931348623157e+308'), ('0.1', '0.1'), ('100', '100'), ('1.25e-5', '0.0000125')):
        assert number_to_string(float(s)) == want, (s, number_to_string(float(s)))
    print('selftest ok')


class V8(object):
    """lazy proxy to the node child process"""

    def __init__(self):
        self.proc = None
        self.spawn()

    def spawn(self):
        import subprocess, os
        here = os.path.dirname(os.path.abspath(__file__))
        try:
            self.proc = subprocess.Popen(['node', '--no-warnings', os.path.join(here, 'node_c15.js')], stdin=subprocess.PIPE,
                                         stdout=subprocess.PIPE, stderr=subprocess.DEVNULL, universal_newlines=True, bufsize=1)
        except Exception:
            self.proc = None

    def call(self, src):
        for attempt in (0, 1):
            if self.proc is None:
                self.spawn()
                if self.proc is None:
                    return None
            try:
                self.proc.stdin.write(json.dumps({'id': 1, 'src': src, 'timeout': 5000}) + '\n')
                self.proc.stdin.flush()
                line = self.proc.stdout.readline()
                if line:
                    r = json.loads(line)
                    if 'error' not in r:
                        return {'prints': r.get('prints', []), 'completion': r.get('completion', '')}
            except Exception:
                pass
            try:
                self.proc.kill()
            except Exception:
                pass
            self.proc = None
        return None


def main():
    if len(sys.argv) > 1 and sys.argv[1] == '--selftest':
        selftest()
        return
    v8 = V8()
    for line in sys.stdin:
        line = line.strip()
        if not line:
            continue
        rid = None
        try:
            req = json.loads(line)
            rid = req.get('id')
            try:
                resp = run(req['ops'])
            except Malformed as e:
                resp = {'lines': [], 'flags': [], 'ctx': [], 'stop': -1, 'malformed': str(e)}
            resp['id'] = rid
            resp['v8'] = v8.call(req['v8src']) if req.get('v8src') else None
        except Exception as e:  # model bug: report, never guess
            import traceback
            resp = {'id': rid, 'error': 'model exception: ' + traceback.format_exc()[-1500:]}
        sys.stdout.write(json.dumps(resp) + '\n')
        sys.stdout.flush()


if __name__ == '__main__':
    main()
