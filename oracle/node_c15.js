// V8 second-opinion server for C15: like node_oracle.js (script requests only) plus a host hook
// DETACH(buffer) in the sandbox (node 20 has no ArrayBuffer.prototype.transfer; structuredClone with a
// transfer list detaches). JSON lines: {"id":n,"src":"...","timeout":ms} -> {"id":n,"prints":[...],"completion":"..."}
'use strict';
const vm = require('vm');
const readline = require('readline');

function esc(s) {
  let out = '';
  for (let i = 0; i < s.length; i++) {
    const u = s.charCodeAt(i);
    if (u >= 0x20 && u < 0x7f && u !== 0x5c) out += s[i];
    else out += '\\u' + u.toString(16).padStart(4, '0');
  }
  return out;
}

function runScript(req) {
  const prints = [];
  const sandbox = {};
  const ctx = vm.createContext(sandbox, { microtaskMode: 'afterEvaluate' });
  const mk = vm.runInContext(`(function(push, det){ return [function print(){ var a=[]; for (var i=0;i<arguments.length;i++){ var x=arguments[i]; a.push(typeof x==='symbol' ? 'Symbol()' : String(x)); } push(a); }, function DETACH(b){ if (!(b instanceof ArrayBuffer)) throw new TypeError('DETACH'); det(b); }]; })`, ctx);
  const [print, DETACH] = mk((a) => { prints.push(a.map(esc).join(' ')); }, (b) => { try { structuredClone(b, { transfer: [b] }); } catch (e) { /* already detached */ } });
  Object.defineProperty(sandbox, 'print', { value: print, writable: true, enumerable: false, configurable: true });
  Object.defineProperty(sandbox, 'DETACH', { value: DETACH, writable: true, enumerable: false, configurable: true });
  let script;
  try {
    script = new vm.Script(req.src, { filename: 'case.js' });
  } catch (e) {
    return { id: req.id, prints, completion: 'early-syntax-error' };
  }
  let completion;
  try {
    script.runInContext(ctx, { timeout: req.timeout || 5000 });
    completion = 'value:done';
  } catch (e) {
    if (e && e.code === 'ERR_SCRIPT_EXECUTION_TIMEOUT') completion = 'limit:timeout';
    else completion = 'throw:' + (e && e.name);
  }
  return { id: req.id, prints, completion };
}

const rl = readline.createInterface({ input: process.stdin, terminal: false });
rl.on('line', (line) => {
  if (!line.trim()) return;
  let req;
  try { req = JSON.parse(line); } catch (e) { process.stdout.write(JSON.stringify({ id: -1, error: 'bad json' }) + '\n'); return; }
  let resp;
  try { resp = runScript(req); } catch (e) { resp = { id: req.id, error: String(e && e.stack || e) }; }
  process.stdout.write(JSON.stringify(resp) + '\n');
});
rl.on('close', () => process.exit(0));
