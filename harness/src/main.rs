use bv::driver::{self, Tier};

fn usage() -> ! {
    eprintln!("usage: bv check <ID> quick|thorough | bv replay <ID> <file> | bv gen <profile> <seed> [n] | bv run <file.js> | bv node <file.js>");
    std::process::exit(2)
}

fn main() {
    let args: Vec<String> = std::env::args().collect();
    if args.len() < 2 {
        usage();
    }
    // big stack for the main thread's work
    let child = std::thread::Builder::new().stack_size(512 << 20).spawn(move || real_main(args)).unwrap();
    let code = child.join().unwrap_or(2);
    std::process::exit(code);
}

fn real_main(args: Vec<String>) -> i32 {
    match args[1].as_str() {
        "check" => {
            let Some(prop) = args.get(2).and_then(|id| bv::props::find(id)) else { usage() };
            let tier = if args.get(3).map(String::as_str) == Some("thorough") { Tier::Thorough } else { Tier::Quick };
            driver::run_check(prop.as_ref(), tier, |_, _| {})
        }
        "worker" => {
            // worker <ID> <tier> <seed> <dir> <wid>
            let Some(prop) = args.get(2).and_then(|id| bv::props::find(id)) else { usage() };
            let tier = if args[3] == "thorough" { Tier::Thorough } else { Tier::Quick };
            let seed: u64 = args[4].parse().unwrap_or(1);
            driver::worker_main(prop.as_ref(), tier, seed, &args[5], args[6].parse().unwrap_or(0));
            0
        }
        "replay" => {
            let Some(prop) = args.get(2).and_then(|id| bv::props::find(id)) else { usage() };
            driver::replay(prop.as_ref(), &args[3])
        }
        "bc" => {
            // bc <file.js>: compile + run, verify every block, print disassembly of blocks with findings
            let src = std::fs::read_to_string(&args[2]).expect("read");
            let all_off = std::env::var_os("BV_ALL_OFF").is_some();
            let cfg = bv::run::RunCfg { force_escape: all_off || std::env::var_os("BV_FORCE_ESCAPE").is_some(), no_const_cache: all_off, no_hoist: all_off, no_fusion: all_off, ..bv::run::RunCfg::default() };
            let (_t, dumps) = bv::run::run_with_dump(&src, &cfg);
            for d in &dumps {
                let rep = bv::verify_bc::verify(d);
                println!("== block {} '{}' origin={} parent={:?} flags={:#b} fscope={} : {} violations, {} leftovers, unmodelled={:?}", d.debug_id, d.name, d.origin, d.parent, d.flags, d.has_function_scope, rep.violations.len(), rep.handler_leftovers.len(), rep.unmodelled);
                for v in rep.violations.iter().chain(rep.handler_leftovers.iter()) {
                    println!("   {} @{}: {}", v.kind, v.pc, v.detail);
                }
                if !rep.violations.is_empty() || args.get(3).is_some() {
                    println!("{}", bv::verify_bc::disassemble(d));
                }
            }
            0
        }
        "tracer" => {
            bv::props::c20::tracer_main();
            0
        }
        "tapes" => {
            // tapes <PROP> <stream> <n> <dir> <seed>: write the seeded generator's first n tapes as corpus files
            let Some(prop) = args.get(2).and_then(|id| bv::props::find(id)) else { usage() };
            let stream = args[3].clone();
            let n: u64 = args[4].parse().unwrap_or(16);
            let seed: u64 = args.get(6).and_then(|s| s.parse().ok()).unwrap_or(1);
            let st = prop.streams(Tier::Quick).into_iter().find(|s| s.name == stream).expect("stream");
            for i in 0..n {
                let tape = driver::tape_for(seed, prop.id(), &stream, i, st.tape_len);
                let _ = std::fs::write(format!("{}/seed-{i}", args[5]), tape);
            }
            0
        }
        "replay-tape" => {
            // replay-tape <PROP> <stream> <file>: run one case whose tape is the file's bytes
            let Some(prop) = args.get(2).and_then(|id| bv::props::find(id)) else { usage() };
            let tape = std::fs::read(&args[4]).expect("read tape");
            let mut env = driver::Env::new(Tier::Thorough, 1);
            env.replay = true;
            let out = prop.run_case(&mut env, &args[3], 0, &tape);
            match out.verdict {
                driver::Verdict::Fail { sig, detail } => {
                    let known = driver::match_known(&driver::load_known(), prop.id(), &sig).is_some();
                    if known {
                        println!("fuzz artifact matches a known finding: {sig}");
                        0
                    } else {
                        let dir = format!("{}/replays/{}", bv::oracle::verif_root(), prop.id());
                        let _ = std::fs::create_dir_all(&dir);
                        let path = format!("{dir}/fuzz-{:016x}.json", bv::rng::hash_bytes(&tape));
                        let v = serde_json::json!({"property": prop.id(), "stream": args[3], "index": 0, "tape": driver::hex(&tape), "rendered": out.rendered, "sig": sig, "detail": detail, "seed": 1, "tier": "thorough"});
                        let _ = std::fs::write(&path, serde_json::to_string_pretty(&v).unwrap_or_default());
                        println!("VIOLATION property={} replay={path}", prop.id());
                        1
                    }
                }
                _ => {
                    println!("fuzz artifact does not reproduce as a property failure (crash inside the target?)");
                    0
                }
            }
        }
        "known1" => {
            let Some(prop) = args.get(2).and_then(|id| bv::props::find(id)) else { usage() };
            driver::known_one(prop.as_ref(), &args[3])
        }
        "shrink" => {
            let Some(prop) = args.get(2).and_then(|id| bv::props::find(id)) else { usage() };
            driver::shrink_file(prop.as_ref(), &args[3])
        }
        "case" => {
            // case <ID> <stream> <index> [seed]: print the rendered input of one generated case (does not run it when BV_NORUN is set)
            let Some(prop) = args.get(2).and_then(|id| bv::props::find(id)) else { usage() };
            let stream = args[3].clone();
            let index: u64 = args[4].parse().unwrap_or(0);
            let seed: u64 = args.get(5).and_then(|s| s.parse().ok()).unwrap_or(1);
            let st = prop.streams(Tier::Quick).into_iter().find(|s| s.name == stream).expect("stream");
            let tape = driver::tape_for(seed, prop.id(), &stream, index, st.tape_len);
            let mut env = driver::Env::new(Tier::Quick, seed);
            let out = prop.run_case(&mut env, &stream, index, &tape);
            println!("{}\n// verdict: {:?}", out.rendered, out.verdict);
            0
        }
        "gen" => {
            let profile = args.get(2).map(String::as_str).unwrap_or("core");
            let seed: u64 = args.get(3).and_then(|s| s.parse().ok()).unwrap_or(1);
            let n: u64 = args.get(4).and_then(|s| s.parse().ok()).unwrap_or(1);
            if let Some(rest) = profile.strip_prefix("tape:") {
                // gen tape:<PROP>/<stream>:<index>:<len> <seed> — print generator outputs for the exact tape of a case
                let parts: Vec<&str> = rest.split(':').collect();
                let (ps, idx, len) = (parts[0], parts[1].parse::<u64>().unwrap_or(0), parts[2].parse::<usize>().unwrap_or(200));
                let (prop, stream) = ps.split_once('/').unwrap_or((ps, ""));
                let tape = driver::tape_for(seed, prop, stream, idx, len);
                if parts.get(3) == Some(&"core") {
                    println!("{}", bv::genp::prog::generate(&tape, bv::genp::prog::Opts::core()).src);
                } else {
                    println!("{}", bv::genp::wild::generate(&tape).src);
                }
                return 0;
            }
            for i in 0..n {
                let tape = driver::tape_for(seed, "gen", profile, i, 700);
                let o = match profile {
                    "scope" => bv::genp::prog::Opts::scope(),
                    "lit" => bv::genp::prog::Opts::lit(),
                    "main" => { let mut o = bv::genp::prog::Opts::core(); o.in_main = true; o }
                    _ => bv::genp::prog::Opts::core(),
                };
                let p = bv::genp::prog::generate(&tape, o);
                println!("// ---- case {i} labels={:?} kinds={} excluded={:?}\n{}", p.labels, p.stmt_kinds, p.excluded, p.src);
            }
            0
        }
        "run" => {
            let src = std::fs::read_to_string(&args[2]).expect("read");
            let stress: u64 = std::env::var("BV_GC_STRESS").ok().and_then(|s| s.parse().ok()).unwrap_or(0);
            let t = bv::run::run(&src, &bv::run::RunCfg { gc_stress: stress, ic_off: std::env::var_os("BV_IC_OFF").is_some(), ..bv::run::RunCfg::default() });
            println!("{}", t.render());
            0
        }
        "node" => {
            let src = std::fs::read_to_string(&args[2]).expect("read");
            let mut s = bv::oracle::Server::node().expect("node");
            let (p, c) = bv::oracle::node_script(&mut s, &src).expect("oracle");
            println!("{}\n=> {c}", p.join("\n"));
            0
        }
        _ => usage(),
    }
}
