//! The byte tape: the single currency of all generators. A tape that runs out yields 0 at
//! every choice point, which every generator maps to its simplest alternative; so truncating
//! or zeroing a tape simplifies the generated case (this is what the shrinker exploits).

pub struct Tape<'a> {
    data: &'a [u8],
    pos: usize,
}

impl<'a> Tape<'a> {
    pub fn new(data: &'a [u8]) -> Self {
        Self { data, pos: 0 }
    }
    pub fn exhausted(&self) -> bool {
        self.pos >= self.data.len()
    }
    pub fn consumed(&self) -> usize {
        self.pos.min(self.data.len())
    }
    pub fn u8(&mut self) -> u8 {
        let b = self.data.get(self.pos).copied().unwrap_or(0);
        self.pos += 1;
        b
    }
    pub fn u16(&mut self) -> u16 {
        u16::from(self.u8()) | (u16::from(self.u8()) << 8)
    }
    pub fn u32(&mut self) -> u32 {
        u32::from(self.u16()) | (u32::from(self.u16()) << 16)
    }
    pub fn u64(&mut self) -> u64 {
        u64::from(self.u32()) | (u64::from(self.u32()) << 32)
    }
    /// Monotone map of one byte onto 0..n (n <= 256): smaller byte => smaller choice.
    pub fn below(&mut self, n: usize) -> usize {
        if n <= 1 {
            // still consume nothing: a forced choice costs no tape
            return 0;
        }
        if n <= 256 {
            (usize::from(self.u8()) * n) >> 8
        } else {
            (usize::from(self.u16()) * n) >> 16
        }
    }
    /// Inclusive range.
    pub fn range(&mut self, lo: i64, hi: i64) -> i64 {
        if hi <= lo {
            return lo;
        }
        lo + self.below((hi - lo + 1) as usize) as i64
    }
    pub fn bool(&mut self) -> bool {
        self.u8() >= 128
    }
    /// true with probability p/256 (never true on an exhausted tape).
    pub fn chance(&mut self, p: u32) -> bool {
        u32::from(self.u8()) >= 256 - p.min(256)
    }
    pub fn pick<'b, T>(&mut self, items: &'b [T]) -> &'b T {
        let i = self.below(items.len());
        &items[i]
    }
    /// Weighted choice; index 0 is the "simplest".
    pub fn weighted(&mut self, weights: &[u32]) -> usize {
        let total: u32 = weights.iter().sum();
        if total == 0 {
            return 0;
        }
        let r = if total <= 256 {
            (u32::from(self.u8()) * total) >> 8
        } else {
            ((u32::from(self.u16()) as u64 * u64::from(total)) >> 16) as u32
        };
        let mut acc = 0;
        for (i, w) in weights.iter().enumerate() {
            acc += w;
            if r < acc {
                return i;
            }
        }
        weights.len() - 1
    }
}

/// Generic tape shrinker (delta debugging): remove chunks, then zero bytes, then lower bytes,
/// keeping any candidate for which `fails` still holds. `budget` bounds predicate calls.
pub fn shrink_tape(tape: &[u8], mut budget: usize, fails: &mut dyn FnMut(&[u8]) -> bool) -> Vec<u8> {
    let mut cur = tape.to_vec();
    // truncate trailing part first (cheap big win)
    let mut len = cur.len();
    while len > 0 && budget > 0 {
        let half = len / 2;
        budget -= 1;
        if fails(&cur[..half]) {
            cur.truncate(half);
            len = half;
        } else {
            break;
        }
    }
    let mut chunk = (cur.len() / 2).max(1);
    while chunk >= 1 && budget > 0 {
        let mut i = 0;
        let mut progressed = false;
        while i < cur.len() && budget > 0 {
            let end = (i + chunk).min(cur.len());
            let mut cand = cur.clone();
            cand.drain(i..end);
            budget -= 1;
            if fails(&cand) {
                cur = cand;
                progressed = true;
            } else {
                // try zeroing the chunk instead
                if cur[i..end].iter().any(|b| *b != 0) {
                    let mut cand = cur.clone();
                    for b in &mut cand[i..end] {
                        *b = 0;
                    }
                    if budget > 0 {
                        budget -= 1;
                        if fails(&cand) {
                            cur = cand;
                            progressed = true;
                        }
                    }
                }
                i = end;
            }
        }
        if chunk == 1 && !progressed {
            break;
        }
        if chunk > 1 {
            chunk /= 2;
        }
    }
    // lower individual bytes
    let mut i = 0;
    while i < cur.len() && budget > 0 {
        let b = cur[i];
        if b > 0 {
            for cand_b in [b / 2, b - 1] {
                if cand_b >= b {
                    continue;
                }
                let mut cand = cur.clone();
                cand[i] = cand_b;
                if budget == 0 {
                    break;
                }
                budget -= 1;
                if fails(&cand) {
                    cur = cand;
                    break;
                }
            }
        }
        i += 1;
    }
    while cur.last() == Some(&0) {
        cur.pop();
    }
    cur
}

/// Line-level delta debugging of a rendered program: remove ranges of lines (keeping brace
/// balance) while `fails` still holds. Lines before `keep_prefix` (the prelude) are untouched.
pub fn shrink_lines(src: &str, keep_prefix: usize, mut budget: usize, fails: &mut dyn FnMut(&str) -> bool) -> String {
    let mut lines: Vec<String> = src.lines().map(str::to_string).collect();
    let balanced = |ls: &[String]| -> bool {
        let mut depth: i64 = 0;
        for l in ls {
            for c in l.chars() {
                match c {
                    '{' => depth += 1,
                    '}' => {
                        depth -= 1;
                        if depth < 0 {
                            return false;
                        }
                    }
                    _ => {}
                }
            }
        }
        depth == 0
    };
    let mut chunk = ((lines.len().saturating_sub(keep_prefix)) / 2).max(1);
    loop {
        let mut progressed = false;
        let mut i = keep_prefix;
        while i < lines.len() && budget > 0 {
            let end = (i + chunk).min(lines.len());
            let mut cand = lines.clone();
            cand.drain(i..end);
            if balanced(&cand[keep_prefix.min(cand.len())..]) {
                budget -= 1;
                let text = cand.join("\n") + "\n";
                if fails(&text) {
                    lines = cand;
                    progressed = true;
                    continue;
                }
            }
            i += 1.max(chunk / 2);
        }
        if budget == 0 {
            break;
        }
        if chunk == 1 {
            if !progressed {
                break;
            }
        } else {
            chunk = (chunk / 2).max(1);
        }
    }
    lines.join("\n") + "\n"
}
