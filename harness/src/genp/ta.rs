//! Profile `ta`: tape-driven histories over ArrayBuffers / SharedArrayBuffers / typed arrays /
//! DataViews / Atomics for property C15. A history is a list of JSON ops; `render` writes it out as
//! a JS script in which every step is ONE line carrying its op as a trailing `//OP: <json>` comment,
//! so the same text feeds boa/V8 (the JS) and the python byte model (the comments), and removing a
//! line removes the step on both sides.

use crate::tape::Tape;
use serde_json::{Value, json};

pub const CTORS: [&str; 13] = [
    "Int8Array", "Uint8Array", "Uint8ClampedArray", "Int16Array", "Uint16Array", "Int32Array", "Uint32Array",
    "Float16Array", "Float32Array", "Float64Array", "BigInt64Array", "BigUint64Array", "DataView",
];
const SIZES: [u64; 13] = [1, 1, 1, 2, 2, 4, 4, 2, 4, 8, 8, 8, 1];
const DV: usize = 12;

fn elem_name(c: usize) -> &'static str {
    CTORS[c].trim_end_matches("Array")
}
fn is_big(c: usize) -> bool {
    c == 10 || c == 11
}
fn is_float(c: usize) -> bool {
    (7..=9).contains(&c)
}
/// Int8/Uint8/Int16/Uint16: the element types whose ToIntN goes through `as i64`
fn is_small_int(c: usize) -> bool {
    matches!(c, 0 | 1 | 3 | 4)
}

/// value range of an integer element type (None for floats / bigints)
fn int_range(c: usize) -> Option<(f64, f64)> {
    Some(match c {
        0 => (-128.0, 127.0),
        1 | 2 => (0.0, 255.0),
        3 => (-32768.0, 32767.0),
        4 => (0.0, 65535.0),
        5 => (-2147483648.0, 2147483647.0),
        6 => (0.0, 4294967295.0),
        _ => return None,
    })
}
/// `new T(typedArrayOfS)`: can a source element be outside T's range (or need clamped rounding)?
fn cast_risky(sc: usize, c: usize) -> bool {
    if sc == c || is_big(sc) || is_big(c) {
        return false;
    }
    let Some((tlo, thi)) = int_range(c) else { return false };
    match int_range(sc) {
        None => true, // float source into an integer / clamped target
        Some((slo, shi)) => c != 2 && (slo < tlo || shi > thi),
    }
}

pub const PRELUDE: &str = r#"var B = [], V = [], G = [new Uint8Array(64).fill(165)], K = 0;
function HX(n) { return (n < 16 ? '0' : '') + n.toString(16); }
var F64 = new Float64Array(1), F8 = new Uint8Array(F64.buffer);
function F(x) { if (typeof x === 'bigint') return String(x) + 'n'; if (x !== x) return 'NaN'; if (x === 0) return 1 / x < 0 ? '-0' : '0'; if (Number.isInteger(x) && Math.abs(x) < 9007199254740992) return String(x); F64[0] = x; var s = 'f:'; for (var i = 7; i >= 0; i--) s += HX(F8[i]); return s; }
function CN(x) { return Object.prototype.toString.call(x).slice(8, -1); }
function ELS(x) { var n = x.length, s = '['; for (var i = 0; i < n; i++) s += (i ? ',' : '') + F(x[i]); return s + ']'; }
function T(f) { try { return String(f()); } catch (e) { return e.name; } }
function VIEWD(v) { if (v instanceof DataView) return 'DataView bl=' + T(function () { return v.byteLength; }) + ' bo=' + T(function () { return v.byteOffset; }); return CN(v) + ' len=' + v.length + ' bl=' + v.byteLength + ' bo=' + v.byteOffset + ' ' + ELS(v); }
function BUFD(b) { var sh = b instanceof SharedArrayBuffer; var s = (sh ? 'SAB ' : 'AB ') + b.byteLength + '/' + b.maxByteLength + '/' + (sh ? b.growable : b.resizable) + ' '; var u; try { u = new Uint8Array(b); } catch (e) { return s + 'detached'; } for (var i = 0; i < u.length; i++) s += HX(u[i]); return s; }
function R(x) { if (x === undefined) return 'undefined'; if (x === null) return 'null'; var t = typeof x; if (t === 'number' || t === 'bigint') return F(x); if (t === 'boolean') return String(x); if (t === 'string') return 's:' + x; for (var i = 0; i < V.length; i++) if (V[i] === x) return 'V' + i; for (var i = 0; i < B.length; i++) if (B[i] === x) return 'B' + i; if (ArrayBuffer.isView(x)) return 'TA:' + VIEWD(x); if (x instanceof ArrayBuffer || x instanceof SharedArrayBuffer) return 'BUF:' + BUFD(x); return 'object'; }
function D() { for (var i = 0; i < B.length; i++) if (B[i] !== undefined) print('b' + i + ' ' + BUFD(B[i])); for (var i = 0; i < V.length; i++) if (V[i] !== undefined) print('v' + i + ' ' + VIEWD(V[i])); }
function S(f) { var r; try { r = R(f()); } catch (e) { r = 'throw:' + (e !== null && typeof e === 'object' && typeof e.name === 'string' ? e.name : '?'); } print('#' + (K++) + ' ' + r); D(); }
function GC() { for (var i = 0; i < G.length; i++) for (var j = 0; j < G[i].length; j++) if (G[i][j] !== 165) return 'BAD'; return 'ok'; }
"#;
pub const EPILOGUE: &str = "print('guard ' + GC());\n";

/// Named generator exclusions (constructs that hit a known open finding). `true` = avoid.
#[derive(Clone, Copy, Debug)]
pub struct Excl {
    /// Number >= 2^63 converted to Int8/Uint8/Int16/Uint16, or <= -2^63 converted to Int16/Uint16 (C15-a)
    pub small_int_ge_2p63: bool,
    /// `new T(typedArray)` with a different element type whose source values may not fit (C15-b)
    pub ctor_cast: bool,
    /// Atomics.* whose index/value conversion shrinks the buffer (C15-c: panic)
    pub atomics_shrink: bool,
    /// Atomics.store of a finite Number with magnitude >= 2^63 (C15-d: returned value saturates)
    pub atomics_store_huge: bool,
    /// ArrayBuffer.prototype.resize on a fixed-length buffer with an argument ToIndex rejects (C15-e: error order)
    pub resize_fixed_bad_index: bool,
    /// SharedArrayBuffer.prototype.slice on a buffer with zero capacity (C15-f: spurious TypeError)
    pub sab_zero_slice: bool,
}
impl Excl {
    pub fn all() -> Self {
        Self { small_int_ge_2p63: true, ctor_cast: true, atomics_shrink: true, atomics_store_huge: true, resize_fixed_bad_index: true, sab_zero_slice: true }
    }
    pub fn none() -> Self {
        Self { small_int_ge_2p63: false, ctor_cast: false, atomics_shrink: false, atomics_store_huge: false, resize_fixed_bad_index: false, sab_zero_slice: false }
    }
    /// The default: exclusions of the findings that are still open (a, b, e, f are fixed in /repo and checked again).
    pub fn open() -> Self {
        Self { small_int_ge_2p63: false, ctor_cast: false, resize_fixed_bad_index: false, sab_zero_slice: false, ..Self::all() }
    }
    pub fn from_env() -> Self {
        match std::env::var("BV_C15_NOEXCL") {
            Ok(s) if s == "1" || s == "all" => Self::none(),
            Ok(s) => {
                let mut e = Self::open();
                for p in s.split(',') {
                    match p {
                        "a" => e.small_int_ge_2p63 = false,
                        "b" => e.ctor_cast = false,
                        "c" => e.atomics_shrink = false,
                        "d" => e.atomics_store_huge = false,
                        "e" => e.resize_fixed_bad_index = false,
                        "f" => e.sab_zero_slice = false,
                        _ => {}
                    }
                }
                e
            }
            Err(_) => Self::open(),
        }
    }
}

pub struct Case {
    pub ops: Vec<Value>,
    pub labels: Vec<&'static str>,
}

// ---------------------------------------------------------------------------------------------
// value specs

pub fn num(x: f64) -> Value {
    json!({"f": format!("{:016x}", x.to_bits())})
}
fn big(s: &str) -> Value {
    json!({"b": s})
}
fn strv(s: &str) -> Value {
    json!({"s": s})
}
fn undef() -> Value {
    json!({"u": 1})
}

fn js_num(x: f64) -> String {
    if x.is_nan() {
        "NaN".into()
    } else if x == f64::INFINITY {
        "Infinity".into()
    } else if x == f64::NEG_INFINITY {
        "-Infinity".into()
    } else if x == 0.0 {
        if x.is_sign_negative() { "-0".into() } else { "0".into() }
    } else if x == x.trunc() && x.abs() < 1e15 {
        format!("{}", x as i64)
    } else {
        format!("{x:e}")
    }
}

fn js_str(s: &str) -> String {
    serde_json::to_string(s).unwrap_or_else(|_| "\"\"".into())
}

/// JS text of a value spec
pub fn js_value(v: &Value) -> String {
    if v.is_null() {
        return "undefined".into();
    }
    if let Some(h) = v["f"].as_str() {
        return js_num(f64::from_bits(u64::from_str_radix(h, 16).unwrap_or(0)));
    }
    if let Some(b) = v["b"].as_str() {
        return format!("{b}n");
    }
    if let Some(s) = v["s"].as_str() {
        return js_str(s);
    }
    if !v["u"].is_null() {
        return "undefined".into();
    }
    if !v["z"].is_null() {
        return "null".into();
    }
    if let Some(t) = v["t"].as_bool() {
        return format!("{t}");
    }
    if let Some(a) = v["arr"].as_array() {
        return format!("[{}]", a.iter().map(js_value).collect::<Vec<_>>().join(", "));
    }
    let e = &v["evil"];
    if e.is_object() {
        let buf = e["buf"].as_u64().unwrap_or(0);
        let to = e["to"].as_u64().unwrap_or(0);
        let act = match e["act"].as_str().unwrap_or("none") {
            "resize" => format!("B[{buf}].resize({to}); "),
            "grow" => format!("B[{buf}].grow({to}); "),
            "detach" => format!("DETACH(B[{buf}]); "),
            "throw" => "throw new EvalError(); ".to_string(),
            _ => String::new(),
        };
        return format!("{{ valueOf: function () {{ {act}return {}; }} }}", js_value(&e["ret"]));
    }
    "undefined".into()
}

fn js_args(args: &[&Value]) -> String {
    let mut n = args.len();
    while n > 0 && args[n - 1].is_null() {
        n -= 1;
    }
    args[..n].iter().map(|a| js_value(a)).collect::<Vec<_>>().join(", ")
}

fn js_key(k: &Value) -> String {
    if let Some(h) = k["n"].as_str() {
        return js_num(f64::from_bits(u64::from_str_radix(h, 16).unwrap_or(0)));
    }
    js_str(k["k"].as_str().unwrap_or(""))
}

/// One JS statement for an op (without the trailing comment).
pub fn js_of_op(op: &Value) -> String {
    let name = op["op"].as_str().unwrap_or("");
    let v = op["view"].as_u64().unwrap_or(0);
    let b = op["buf"].as_u64().unwrap_or(0);
    let body = match name {
        "guard" => return "G.push(new Uint8Array(48).fill(165));".into(),
        "newbuf" => {
            let id = op["id"].as_u64().unwrap_or(0);
            let len = op["len"].as_u64().unwrap_or(0);
            let ctor = if matches!(op["kind"].as_str(), Some("sab" | "gsab")) { "SharedArrayBuffer" } else { "ArrayBuffer" };
            let pat = if op["pat"].as_bool().unwrap_or(false) { format!(" (function (u) {{ for (var i = 0; i < u.length; i++) u[i] = (i * 37 + 11) & 255; }})(new Uint8Array(B[{id}]));") } else { String::new() };
            match op["max"].as_u64() {
                Some(m) => format!("B[{id}] = new {ctor}({len}, {{ maxByteLength: {m} }});{pat}"),
                None => format!("B[{id}] = new {ctor}({len});{pat}"),
            }
        }
        "newview" => {
            let ctor = op["ctor"].as_str().unwrap_or("Int8Array");
            let args = js_args(&[&op["off"], &op["len"]]);
            let sep = if args.is_empty() { "" } else { ", " };
            match op["id"].as_u64() {
                Some(id) => format!("V[{id}] = new {ctor}(B[{b}]{sep}{args});"),
                None => format!("return new {ctor}(B[{b}]{sep}{args});"),
            }
        }
        "resize" => format!("return B[{b}].{}({});", op["method"].as_str().unwrap_or("resize"), js_value(&op["to"])),
        "detach" => format!("return DETACH(B[{b}]);"),
        "bslice" => format!("return B[{b}].slice({});", js_args(&[&op["start"], &op["end"]])),
        "get" => format!("return V[{v}][{}];", js_key(&op["key"])),
        "set" => format!("V[{v}][{}] = {};", js_key(&op["key"]), js_value(&op["val"])),
        "elemcopy" => format!("V[{v}][{}] = V[{}][{}];", op["di"].as_u64().unwrap_or(0), op["src"].as_u64().unwrap_or(0), op["si"].as_u64().unwrap_or(0)),
        "dvget" => format!("return V[{v}].get{}({});", op["ty"].as_str().unwrap_or("Int8"), js_args(&[&op["off"], &op["le"]])),
        "dvset" => format!("return V[{v}].set{}({});", op["ty"].as_str().unwrap_or("Int8"), js_args(&[&op["off"], &op["val"], &op["le"]])),
        "tset" => {
            let src = match op["src"]["view"].as_u64() {
                Some(s) => format!("V[{s}]"),
                None => js_value(&op["src"]),
            };
            let off = if op["off"].is_null() { String::new() } else { format!(", {}", js_value(&op["off"])) };
            format!("return V[{v}].set({src}{off});")
        }
        "subarray" => match op["as"].as_u64() {
            Some(id) => format!("return V[{id}] = V[{v}].subarray({});", js_args(&[&op["begin"], &op["end"]])),
            None => format!("return V[{v}].subarray({});", js_args(&[&op["begin"], &op["end"]])),
        },
        "slice" => format!("return V[{v}].slice({});", js_args(&[&op["start"], &op["end"]])),
        "copyWithin" => format!("return V[{v}].copyWithin({});", js_args(&[&op["target"], &op["start"], &op["end"]])),
        "fill" => format!("return V[{v}].fill({});", js_args(&[&op["val"], &op["start"], &op["end"]])),
        "sort" => {
            let cmp = match op["cmp"].as_str() {
                Some("desc") => "function (a, b) { return a < b ? 1 : a > b ? -1 : 0; }",
                Some("zero") => "function () { return 0; }",
                Some("nan") => "function () { return NaN; }",
                _ => "",
            };
            format!("return V[{v}].sort({cmp});")
        }
        "reverse" => format!("return V[{v}].reverse();"),
        "search" => format!("return V[{v}].{}({});", op["which"].as_str().unwrap_or("indexOf"), js_args(&[&op["val"], &op["from"]])),
        "at" => format!("return V[{v}].at({});", js_args(&[&op["idx"]])),
        "newfrom" => {
            let src = match op["src"]["view"].as_u64() {
                Some(s) => format!("V[{s}]"),
                None => js_value(&op["src"]),
            };
            format!("return new {}({src});", op["ctor"].as_str().unwrap_or("Int8Array"))
        }
        "atomic" => {
            let fnn = op["fn"].as_str().unwrap_or("load");
            let rest = js_args(&[&op["idx"], &op["val"], &op["val2"]]);
            let sep = if rest.is_empty() { "" } else { ", " };
            format!("return Atomics.{fnn}(V[{v}]{sep}{rest});")
        }
        _ => "return 'unknown-op';".to_string(),
    };
    format!("S(function () {{ {body} }});")
}

/// The rendered input: prelude, one line per op (`<js> //OP: <json>`), epilogue.
pub fn render(ops: &[Value]) -> String {
    let mut s = String::from(PRELUDE);
    for op in ops {
        s.push_str(&js_of_op(op));
        s.push_str(" //OP: ");
        s.push_str(&serde_json::to_string(op).unwrap_or_default());
        s.push('\n');
    }
    s.push_str(EPILOGUE);
    s
}

/// Recover the op list from a rendered input (lines may have been removed by the shrinker).
pub fn parse_ops(rendered: &str) -> Option<Vec<Value>> {
    let mut ops = vec![];
    for line in rendered.lines() {
        if let Some(i) = line.find("//OP: ") {
            let v: Value = serde_json::from_str(line[i + 6..].trim()).ok()?;
            ops.push(v);
        }
    }
    if ops.is_empty() { None } else { Some(ops) }
}

// ---------------------------------------------------------------------------------------------
// generator

#[derive(Clone, Debug)]
struct GBuf {
    kind: &'static str,
    len: u64,
    max: Option<u64>,
    detached: bool,
}
#[derive(Clone, Debug)]
struct GView {
    ctor: usize,
    buf: usize,
    off: u64,
    len: Option<u64>,
}

struct Gen<'a> {
    t: Tape<'a>,
    excl: Excl,
    bufs: Vec<GBuf>,
    views: Vec<GView>,
    ops: Vec<Value>,
    labels: Vec<&'static str>,
}

const LENS: [u64; 6] = [8, 16, 24, 32, 0, 40];
const ODD_LENS: [u64; 8] = [4, 12, 1, 2, 3, 7, 17, 20];

impl<'a> Gen<'a> {
    fn label(&mut self, l: &'static str) {
        if !self.labels.contains(&l) {
            self.labels.push(l);
        }
    }

    fn shared(&self, b: usize) -> bool {
        matches!(self.bufs[b].kind, "sab" | "gsab")
    }

    fn cur_len(&self, v: usize) -> u64 {
        let w = &self.views[v];
        let b = &self.bufs[w.buf];
        if b.detached {
            return 0;
        }
        let size = SIZES[w.ctor];
        match w.len {
            Some(l) => {
                if w.off + l * size > b.len { 0 } else { l }
            }
            None => {
                if w.off > b.len { 0 } else { (b.len - w.off) / size }
            }
        }
    }

    fn new_buffer(&mut self) {
        let id = self.bufs.len();
        let kind = ["rab", "ab", "gsab", "sab"][self.t.weighted(&[5, 2, 2, 1])];
        let len = if self.t.chance(64) { ODD_LENS[self.t.below(ODD_LENS.len())] } else { LENS[self.t.below(LENS.len())] };
        let max = if kind == "rab" || kind == "gsab" { Some(len + [8u64, 0, 1, 16, 24, 40][self.t.below(6)]) } else { None };
        self.label(match kind {
            "rab" => "buf-resizable",
            "ab" => "buf-fixed",
            "gsab" => "buf-growable-shared",
            _ => "buf-shared",
        });
        // most buffers start with a position-dependent byte pattern, so that moves / copies of the
        // wrong bytes are visible (an all-zero buffer hides them)
        let pat = self.t.chance(200);
        self.ops.push(json!({"op":"newbuf","id":id,"kind":kind,"len":len,"max":max,"pat":pat}));
        self.bufs.push(GBuf { kind, len, max, detached: false });
    }

    /// create a view; `valid` views are registered, invalid ones are constructor calls expected to throw
    fn new_view(&mut self) {
        if self.views.len() >= 6 {
            return;
        }
        let b = self.t.below(self.bufs.len());
        let ctor = if self.t.chance(50) { DV } else { self.pick_ctor() };
        let size = SIZES[ctor];
        let blen = self.bufs[b].len;
        let fixed_buf = self.bufs[b].max.is_none();
        let detached = self.bufs[b].detached;
        // offset
        let max_el = blen / size;
        let off_choice = self.t.weighted(&[5, 4, 2, 1, 1]);
        let off: Option<u64> = match off_choice {
            0 => None,
            1 => Some(self.t.below(max_el as usize + 1) as u64 * size),
            2 => Some(max_el * size), // at (aligned) end
            3 => Some(self.t.below(blen as usize + 2) as u64), // possibly misaligned
            _ => Some(blen + size), // beyond the end
        };
        let o = off.unwrap_or(0);
        // length
        let room = if o <= blen { (blen - o) / size } else { 0 };
        let len_choice = self.t.weighted(&[5, 4, 3, 1, 1]);
        let len: Option<u64> = match len_choice {
            0 => None,
            1 => Some(room),
            2 => Some(self.t.below(room as usize + 1) as u64),
            3 => Some(0),
            _ => Some(room + 1),
        };
        // predict validity (spec rules)
        let valid = if detached {
            false
        } else if ctor == DV {
            o <= blen && len.is_none_or(|l| o + l <= blen)
        } else if o % size != 0 {
            false
        } else {
            match len {
                Some(l) => o + l * size <= blen,
                None => {
                    if fixed_buf { blen % size == 0 && o <= blen } else { o <= blen }
                }
            }
        };
        let offv = off.map_or(Value::Null, |x| num(x as f64));
        let lenv = len.map_or(Value::Null, |x| num(x as f64));
        if valid {
            let id = self.views.len();
            let tracked = len.is_none() && !fixed_buf;
            // a fixed-length buffer gives views a fixed length even when none was passed
            let glen = if tracked { None } else { Some(len.unwrap_or(if ctor == DV { blen - o } else { (blen - o) / size })) };
            self.ops.push(json!({"op":"newview","id":id,"ctor":CTORS[ctor],"buf":b,"off":offv,"len":lenv}));
            self.views.push(GView { ctor, buf: b, off: o, len: glen });
            self.label(if ctor == DV { "view-dataview" } else if tracked { "view-length-tracking" } else { "view-fixed-length" });
            if o > 0 && o == blen {
                self.label("view-offset-at-end");
            }
            if ctor == 7 {
                self.label("view-float16");
            }
            if is_big(ctor) {
                self.label("view-bigint");
            }
        } else {
            self.ops.push(json!({"op":"newview","id":null,"ctor":CTORS[ctor],"buf":b,"off":offv,"len":lenv}));
            self.label("view-ctor-invalid-args");
        }
    }

    /// element type; Float16 (absent from node 20, so no V8 second opinion) gets a lower weight
    fn pick_ctor(&mut self) -> usize {
        self.t.weighted(&[3, 3, 2, 3, 3, 3, 3, 1, 2, 2, 2, 2])
    }

    /// a short fixed-length view over the byte range of view `v` (a source for an overlapping `set`)
    fn overlapping_source(&mut self, v: usize) -> Option<usize> {
        if self.views.len() >= 6 {
            return None;
        }
        let w = self.views[v].clone();
        let b = w.buf;
        if self.bufs[b].detached {
            return None;
        }
        let tlen = self.cur_len(v);
        let tsize = SIZES[w.ctor];
        if tlen < 2 {
            return None;
        }
        let big = is_big(w.ctor);
        let ctor = if big { 10 + self.t.below(2) } else { [0usize, 1, 3, 4, 5, 6, 8, 9, 2, 7][self.t.below(10)] };
        let size = SIZES[ctor];
        let (lo, hi) = (w.off, w.off + tlen * tsize);
        let first = lo.div_ceil(size) * size;
        if first + size > hi {
            return None;
        }
        let slots = (hi - first) / size;
        let at = self.t.below(slots as usize) as u64;
        let off = first + at * size;
        let room = (hi - off) / size;
        // at most as many elements as the target can take
        let len = (1 + self.t.below(3) as u64).min(room).min(tlen);
        let id = self.views.len();
        self.ops.push(json!({"op":"newview","id":id,"ctor":CTORS[ctor],"buf":b,"off":num(off as f64),"len":num(len as f64)}));
        self.views.push(GView { ctor, buf: b, off, len: Some(len) });
        self.label("view-made-as-overlapping-set-source");
        Some(id)
    }

    fn pick_ta(&mut self) -> Option<usize> {
        let c: Vec<usize> = (0..self.views.len()).filter(|i| self.views[*i].ctor != DV).collect();
        if c.is_empty() { None } else { Some(c[self.t.below(c.len())]) }
    }
    fn pick_dv(&mut self) -> Option<usize> {
        let c: Vec<usize> = (0..self.views.len()).filter(|i| self.views[*i].ctor == DV).collect();
        if c.is_empty() { None } else { Some(c[self.t.below(c.len())]) }
    }

    /// an object whose valueOf resizes / detaches buffer `b` (and returns `ret`)
    fn evil(&mut self, b: usize, view: Option<usize>, ret: Value) -> Value {
        let kind = self.bufs[b].kind;
        let act = match kind {
            "rab" => ["resize", "detach", "throw", "resize"][self.t.below(4)],
            "ab" => ["detach", "throw", "none"][self.t.below(3)],
            "gsab" => ["grow", "throw"][self.t.below(2)],
            _ => ["none", "throw"][self.t.below(2)],
        };
        let cur = self.bufs[b].len;
        let max = self.bufs[b].max.unwrap_or(cur);
        let (voff, vend) = match view {
            Some(v) => {
                let w = &self.views[v];
                (w.off, w.off + self.cur_len(v) * SIZES[w.ctor].max(1))
            }
            None => (0, cur),
        };
        let to = match act {
            "resize" => {
                let c = [0, voff.saturating_sub(1), voff, vend.saturating_sub(1), (voff + vend) / 2, max, cur / 2];
                c[self.t.below(c.len())].min(max)
            }
            "grow" => [max, cur, (cur + max) / 2][self.t.below(3)],
            _ => 0,
        };
        match act {
            "resize" | "grow" => {
                self.bufs[b].len = to;
                self.label(if act == "grow" { "evil-valueOf-grows" } else { "evil-valueOf-resizes" });
            }
            "detach" => {
                self.bufs[b].detached = true;
                self.bufs[b].len = 0;
                self.label("evil-valueOf-detaches");
            }
            "throw" => self.label("evil-valueOf-throws"),
            _ => {}
        }
        json!({"evil": {"act": act, "buf": b, "to": to, "ret": ret}})
    }

    /// a Number for element type `c` (None = index-like context)
    fn number_for(&mut self, c: usize) -> f64 {
        let size = SIZES[c];
        let bits = 8 * size as i32;
        let p = |e: i32| 2f64.powi(e);
        let cat = self.t.weighted(&[6, 5, 5, 3, 3, 3, 3, 2]);
        let x = match cat {
            0 => [1.0, 0.0, -1.0, 7.0, 100.0, 127.0, -128.0, 255.0, 42.0][self.t.below(9)],
            1 => {
                // boundaries of the element type
                let c = [p(bits - 1) - 1.0, p(bits - 1), p(bits) - 1.0, p(bits), p(bits) + 1.0, -p(bits - 1), -p(bits - 1) - 1.0, -p(bits), p(bits) * 3.0 + 5.0];
                c[self.t.below(9)]
            }
            2 => [300.0, -200.0, 65541.0, 2147483648.0, 4294967303.0, -2147483649.0, 9007199254740992.0, -9007199254740992.0, 1e20, -1e20, 4.6e18, -9.3e18][self.t.below(12)],
            3 => [9223372036854775808.0, 9223372036854777856.0, 18446744073709551616.0, 3.5e38, 1e308, -1e300, -9223372036854775808.0, 1.2e19, 1e21, -3.5e38][self.t.below(10)],
            4 => [f64::NAN, f64::INFINITY, f64::NEG_INFINITY, -0.0][self.t.below(4)],
            5 => [0.5, 1.5, 2.5, -0.5, -1.5, 254.5, 255.5, 1e-7, 3.14159, 0.49999999999999994, 127.5, -128.5, 0.9, -0.9, 255.49999999999997][self.t.below(15)],
            6 => [
                65504.0, 65520.0, 65519.99, 5.960464477539063e-8, 2.9802322387695312e-8, 2.98e-8, 3.4028234663852886e38, 3.4028235677973366e38,
                1.401298464324817e-45, 7.006492321624085e-46, 7.1e-46, 16777217.0, 2049.0, 1.0009765625, 1.00048828125, 6.103515625e-5, 6.097555160522461e-5, 1e-320,
            ][self.t.below(18)],
            _ => f64::from_bits(self.t.u64()),
        };
        // Int8/Uint8: only x >= 2^63 goes wrong (i64::MIN % 256 happens to be right); Int16/Uint16: both signs
        if self.excl.small_int_ge_2p63 && is_small_int(c) && x.is_finite() && (x >= 9223372036854775808.0 || (SIZES[c] == 2 && x <= -9223372036854775808.0)) {
            self.label("excluded-small-int-conversion-of-number-ge-2p63");
            return 4.6e18;
        }
        x
    }

    /// value spec for a write into element type `c`
    fn value_for(&mut self, c: usize, view: Option<usize>, allow_evil: bool) -> Value {
        let bigt = is_big(c);
        let cat = self.t.weighted(&[14, 3, 2, 2, if allow_evil { 4 } else { 0 }]);
        match cat {
            0 => {
                if bigt {
                    self.bigint_value()
                } else {
                    let x = self.number_for(c);
                    if is_float(c) {
                        self.label("value-for-float-type");
                    }
                    num(x)
                }
            }
            1 => {
                // strings (numeric and not)
                let s = ["12", " 7 ", "0x10", "1e3", "abc", "", "-0", "Infinity", "1.5", "0b101", "-0x10", "300", "-129", "  -1\n", "1e400", ".5"];
                strv(s[self.t.below(s.len())])
            }
            2 => [undef(), json!({"z":1}), json!({"t":true}), json!({"t":false})][self.t.below(4)].clone(),
            3 => {
                // the other numeric kind: TypeError
                self.label("value-wrong-numeric-kind");
                if bigt { num(5.0) } else { big("5") }
            }
            _ => {
                let b = match view {
                    Some(v) if !self.t.chance(40) => self.views[v].buf,
                    _ => self.t.below(self.bufs.len()),
                };
                let ret = if bigt { self.bigint_value() } else { num([7.0, 300.0, -1.0, 1.5][self.t.below(4)]) };
                self.evil(b, view, ret)
            }
        }
    }

    fn bigint_value(&mut self) -> Value {
        let s = [
            "1", "0", "-1", "255", "9223372036854775807", "9223372036854775808", "18446744073709551615", "18446744073709551616", "18446744073709551621",
            "-9223372036854775808", "-9223372036854775809", "1000000000000000000000000000000", "-18446744073709551617", "4294967296",
        ];
        big(s[self.t.below(s.len())])
    }

    /// integer-ish argument around a length (start/end/target/fromIndex/at)
    fn rel_arg(&mut self, len: u64, view: Option<usize>, allow_evil: bool) -> Value {
        let l = len as f64;
        let cat = self.t.weighted(&[8, 3, 2, 2, if allow_evil { 2 } else { 0 }]);
        match cat {
            0 => num(self.t.below(len as usize + 1) as f64),
            1 => num(-(self.t.below(len as usize + 2) as f64)),
            2 => num([l + 1.0, l, 4294967296.0, f64::INFINITY, f64::NEG_INFINITY, f64::NAN, -0.0, 1.5, -1.5, 9007199254740993.0][self.t.below(10)]),
            3 => [undef(), Value::Null, strv("1"), strv("-1"), json!({"z":1}), json!({"t":true})][self.t.below(6)].clone(),
            _ => {
                let b = match view {
                    Some(v) => self.views[v].buf,
                    None => 0,
                };
                let ret = num(self.t.below(len as usize + 1) as f64);
                self.evil(b, view, ret)
            }
        }
    }

    fn key_for(&mut self, len: u64) -> Value {
        let l = len as f64;
        let cat = self.t.weighted(&[10, 4, 4]);
        let n = |x: f64| json!({"n": format!("{:016x}", x.to_bits())});
        match cat {
            0 => n(self.t.below(len.max(1) as usize) as f64),
            1 => {
                self.label("key-numeric-out-of-range");
                n([-1.0, l, l + 1.0, 4294967296.0, 1.5, -0.0, f64::NAN, f64::INFINITY, 4294967295.0, 9007199254740992.0, 0.5, 1e21][self.t.below(12)])
            }
            _ => {
                self.label("key-string");
                let last = format!("{}", len.saturating_sub(1));
                let atlen = format!("{len}");
                let c = ["-0", "0", "1", "1.5", "4294967296", "1e3", "1e+21", "Infinity", "-Infinity", "NaN", "01", "+1", "1.0", "-1", "0.0", "1e-7", "0x1", last.as_str(), atlen.as_str(), " 1", "1e21", "1.", "-1e-7"];
                json!({"k": c[self.t.below(c.len())]})
            }
        }
    }

    fn step(&mut self) {
        let w = self.t.weighted(&[10, 14, 8, 10, 10, 6, 8, 4, 4, 5, 3, 3, 4, 2, 7, 4, 3, 2, 2, 2]);
        match w {
            0 => {
                let Some(v) = self.pick_ta() else { return self.fallback() };
                let len = self.cur_len(v);
                let key = self.key_for(len);
                self.label("op-get");
                self.ops.push(json!({"op":"get","view":v,"key":key}));
            }
            1 => {
                let Some(v) = self.pick_ta() else { return self.fallback() };
                let len = self.cur_len(v);
                let key = self.key_for(len);
                let is_prop = key["k"].as_str().is_some();
                let c = self.views[v].ctor;
                let val = self.value_for(c, Some(v), !is_prop);
                self.label("op-set");
                self.ops.push(json!({"op":"set","view":v,"key":key,"val":val}));
            }
            2 | 3 => {
                let Some(v) = self.pick_dv() else { return self.fallback() };
                let tyc = self.pick_ctor();
                if tyc == 2 {
                    return self.fallback(); // no get/setUint8Clamped
                }
                let ty = elem_name(tyc);
                let size = SIZES[tyc];
                let vl = self.cur_len(v); // DataView: SIZES = 1 => byte length
                let cat = self.t.weighted(&[6, 4, 3, 2, 1]);
                let evil_ok = cat == 4;
                let off = match cat {
                    0 => num(self.t.below((vl.saturating_sub(size) + 1) as usize) as f64),
                    1 => num(vl.saturating_sub(size) as f64),
                    2 => num([vl as f64 - size as f64 + 1.0, vl as f64, vl as f64 + 1.0][self.t.below(3)].max(0.0)),
                    3 => [num(-1.0), num(9007199254740992.0), num(1.5), num(f64::NAN), undef(), strv("2"), num(-0.5), num(f64::INFINITY)][self.t.below(8)].clone(),
                    _ => {
                        let b = self.views[v].buf;
                        let ret = num(self.t.below((vl.saturating_sub(size) + 1) as usize) as f64);
                        self.evil(b, Some(v), ret)
                    }
                };
                let _ = evil_ok;
                let le = [Value::Null, json!({"t":true}), json!({"t":false}), num(1.0), num(0.0), strv(""), strv("a"), undef(), json!({"z":1})][self.t.below(9)].clone();
                if !le.is_null() {
                    self.label("dataview-explicit-endianness");
                }
                if w == 2 {
                    self.label("op-dataview-get");
                    self.ops.push(json!({"op":"dvget","view":v,"ty":ty,"off":off,"le":le}));
                } else {
                    let val = self.value_for(tyc, Some(v), true);
                    self.label("op-dataview-set");
                    self.ops.push(json!({"op":"dvset","view":v,"ty":ty,"off":off,"val":val,"le":le}));
                }
            }
            4 => {
                // resize / grow
                let b = self.t.below(self.bufs.len());
                let gb = self.bufs[b].clone();
                let shared = self.shared(b);
                let method = if self.t.chance(16) { if shared { "resize" } else { "grow" } } else if shared { "grow" } else { "resize" };
                let max = gb.max.unwrap_or(gb.len);
                // interesting targets: 0, below/at a view's offset, a view's end, max, max+1
                let mut cands: Vec<u64> = vec![0, max, gb.len, gb.len / 2, gb.len + 1, max + 1];
                for w in &self.views {
                    if w.buf == b {
                        cands.push(w.off);
                        cands.push(w.off.saturating_sub(1));
                        if let Some(l) = w.len {
                            cands.push(w.off + l * SIZES[w.ctor]);
                            cands.push((w.off + l * SIZES[w.ctor]).saturating_sub(1));
                        }
                    }
                }
                let to = cands[self.t.below(cands.len())];
                let tov = if self.t.chance(20) { [num(to as f64 + 0.5), strv("4"), num(-1.0), undef(), num(f64::NAN)][self.t.below(5)].clone() } else { num(to as f64) };
                let plain = tov["f"].as_str().map(|h| f64::from_bits(u64::from_str_radix(h, 16).unwrap_or(0)));
                let tov = if self.excl.resize_fixed_bad_index && gb.max.is_none() && !shared && method == "resize" && plain.is_some_and(|x| x <= -1.0 || x >= 9007199254740992.0) {
                    self.label("excluded-resize-of-fixed-length-buffer-with-invalid-index");
                    num(4.0)
                } else {
                    tov
                };
                let ok = gb.max.is_some() && !gb.detached && (method == "grow") == shared;
                if let (true, Some(x)) = (ok, plain) {
                    if x >= 0.0 && x.trunc() as u64 <= max && !(shared && (x.trunc() as u64) < gb.len) {
                        self.bufs[b].len = x.trunc() as u64;
                    }
                }
                self.label(if shared { "op-grow" } else { "op-resize" });
                if to == 0 && !shared {
                    self.label("resize-to-0");
                }
                self.ops.push(json!({"op":"resize","buf":b,"method":method,"to":tov}));
            }
            5 => {
                let Some(v) = self.pick_ta() else { return self.fallback() };
                let len = self.cur_len(v);
                let c = self.views[v].ctor;
                let val = self.value_for(c, Some(v), true);
                let start = if self.t.chance(100) { self.rel_arg(len, Some(v), true) } else { Value::Null };
                let end = if !start.is_null() && self.t.chance(128) { self.rel_arg(len, Some(v), true) } else { Value::Null };
                self.label("op-fill");
                self.ops.push(json!({"op":"fill","view":v,"val":val,"start":start,"end":end}));
            }
            6 => {
                let Some(v) = self.pick_ta() else { return self.fallback() };
                let len = self.cur_len(v);
                let c = self.views[v].ctor;
                let from_view = self.t.chance(150);
                let off = match self.t.weighted(&[5, 6, 2, 1]) {
                    0 => Value::Null,
                    1 => num(self.t.below(len as usize + 1) as f64),
                    2 => [num(-1.0), num(len as f64 + 1.0), num(f64::INFINITY), num(1.5), num(f64::NAN), strv("1")][self.t.below(6)].clone(),
                    _ => {
                        let b = self.views[v].buf;
                        self.evil(b, Some(v), num(0.0))
                    }
                };
                if from_view {
                    // prefer a source over the same buffer (overlap)
                    let same: Vec<usize> = (0..self.views.len()).filter(|i| self.views[*i].ctor != DV && self.views[*i].buf == self.views[v].buf).collect();
                    let made = if self.t.chance(110) { self.overlapping_source(v) } else { None };
                    let s = match made {
                        Some(s) => s,
                        None if !same.is_empty() && !self.t.chance(60) => same[self.t.below(same.len())],
                        None => self.pick_ta().unwrap_or(v),
                    };
                    // keep the offset small enough for the source to fit when it is known to be short
                    let off = if made.is_some() && off["f"].as_str().is_some() { num(self.t.below((len - self.cur_len(s)) as usize + 1) as f64) } else { off };
                    let s = if self.excl.small_int_ge_2p63 && is_small_int(c) && matches!(self.views[s].ctor, 8 | 9) {
                        // a Float32/Float64 source element may be >= 2^63 (C15-a through ToInt8/16)
                        self.label("excluded-small-int-conversion-of-number-ge-2p63");
                        v
                    } else {
                        s
                    };
                    self.label("op-set-from-typedarray");
                    if self.views[s].buf == self.views[v].buf && SIZES[self.views[s].ctor] != SIZES[c] {
                        self.label("set-same-buffer-different-element-size");
                    }
                    self.ops.push(json!({"op":"tset","view":v,"src":{"view":s},"off":off}));
                } else {
                    let n = self.t.below(5);
                    let mut items = vec![];
                    for _ in 0..n {
                        let it = self.value_for(c, Some(v), true);
                        items.push(it);
                    }
                    self.label("op-set-from-array");
                    self.ops.push(json!({"op":"tset","view":v,"src":{"arr":items},"off":off}));
                }
            }
            7 => {
                let Some(v) = self.pick_ta() else { return self.fallback() };
                let len = self.cur_len(v);
                let begin = if self.t.chance(220) { self.rel_arg(len, Some(v), true) } else { Value::Null };
                let end = if !begin.is_null() && self.t.chance(128) { self.rel_arg(len, Some(v), true) } else { Value::Null };
                let keep = self.views.len() < 6 && self.t.chance(128) && begin["evil"].is_null() && end["evil"].is_null();
                self.label("op-subarray");
                if keep {
                    // register the result as a new view when the arguments are plain in-range numbers
                    let plain = |x: &Value| -> Option<f64> { if x.is_null() { None } else { x["f"].as_str().map(|h| f64::from_bits(u64::from_str_radix(h, 16).unwrap_or(0))) } };
                    let okb = begin.is_null() || plain(&begin).is_some_and(|x| x >= 0.0 && x <= len as f64 && x == x.trunc());
                    let oke = end.is_null() || plain(&end).is_some_and(|x| x >= 0.0 && x <= len as f64 && x == x.trunc());
                    let w = self.views[v].clone();
                    let inb = !self.bufs[w.buf].detached && self.cur_len(v) == len && (w.len.is_none() || w.off + w.len.unwrap_or(0) * SIZES[w.ctor] <= self.bufs[w.buf].len) && w.off <= self.bufs[w.buf].len;
                    if okb && oke && inb {
                        let bi = plain(&begin).unwrap_or(0.0) as u64;
                        let ei = plain(&end).map(|x| x as u64);
                        let id = self.views.len();
                        let noff = w.off + bi * SIZES[w.ctor];
                        let nlen = if w.len.is_none() && ei.is_none() { None } else { Some(ei.unwrap_or(len).saturating_sub(bi)) };
                        self.views.push(GView { ctor: w.ctor, buf: w.buf, off: noff, len: nlen });
                        self.label("subarray-result-kept-as-view");
                        self.ops.push(json!({"op":"subarray","view":v,"begin":begin,"end":end,"as":id}));
                        return;
                    }
                }
                self.ops.push(json!({"op":"subarray","view":v,"begin":begin,"end":end,"as":null}));
            }
            8 => {
                let Some(v) = self.pick_ta() else { return self.fallback() };
                let len = self.cur_len(v);
                let start = if self.t.chance(200) { self.rel_arg(len, Some(v), true) } else { Value::Null };
                let end = if !start.is_null() && self.t.chance(128) { self.rel_arg(len, Some(v), true) } else { Value::Null };
                self.label("op-slice");
                self.ops.push(json!({"op":"slice","view":v,"start":start,"end":end}));
            }
            9 => {
                let Some(v) = self.pick_ta() else { return self.fallback() };
                let len = self.cur_len(v);
                let mut target = self.rel_arg(len, Some(v), true);
                let mut start = self.rel_arg(len, Some(v), true);
                let mut end = if self.t.chance(128) { self.rel_arg(len, Some(v), true) } else { Value::Null };
                if self.t.chance(90) && len >= 2 {
                    // overlapping move whose byte distance is a multiple of 8 (word-wise copy paths), either direction
                    let size = SIZES[self.views[v].ctor].max(1);
                    let step = (8 / size).max(1) * (1 + self.t.below(2) as u64);
                    let s0 = self.t.below(3) as u64;
                    let (a, b) = if self.t.bool() { (s0 + step, s0) } else { (s0, s0 + step) };
                    target = num(a as f64);
                    start = num(b as f64);
                    end = Value::Null;
                    self.label("op-copyWithin-overlap-aligned");
                }
                self.label("op-copyWithin");
                self.ops.push(json!({"op":"copyWithin","view":v,"target":target,"start":start,"end":end}));
            }
            10 => {
                let Some(v) = self.pick_ta() else { return self.fallback() };
                let cmp = [Value::Null, json!("desc"), json!("zero"), json!("nan")][self.t.below(4)].clone();
                self.label("op-sort");
                self.ops.push(json!({"op":"sort","view":v,"cmp":cmp}));
            }
            11 => {
                let Some(v) = self.pick_ta() else { return self.fallback() };
                self.label("op-reverse");
                self.ops.push(json!({"op":"reverse","view":v}));
            }
            12 => {
                let Some(v) = self.pick_ta() else { return self.fallback() };
                let len = self.cur_len(v);
                let c = self.views[v].ctor;
                let which = ["indexOf", "includes", "lastIndexOf"][self.t.below(3)];
                let val = match self.t.below(6) {
                    0 => undef(),
                    1 => num(f64::NAN),
                    2 => num(-0.0),
                    3 => {
                        if is_big(c) { num(0.0) } else { big("0") }
                    }
                    _ => {
                        if is_big(c) { big(["0", "1", "-1", "255"][self.t.below(4)]) } else { num([0.0, 1.0, 255.0, -1.0, 7.0, 127.0][self.t.below(6)]) }
                    }
                };
                let from = if self.t.chance(128) { self.rel_arg(len, Some(v), true) } else { Value::Null };
                self.label("op-search");
                self.ops.push(json!({"op":"search","view":v,"which":which,"val":val,"from":from}));
            }
            13 => {
                let Some(v) = self.pick_ta() else { return self.fallback() };
                let len = self.cur_len(v);
                let idx = self.rel_arg(len, Some(v), true);
                self.label("op-at");
                self.ops.push(json!({"op":"at","view":v,"idx":idx}));
            }
            14 => {
                if self.views.is_empty() {
                    return self.fallback();
                }
                let okv: Vec<usize> = (0..self.views.len()).filter(|i| matches!(self.views[*i].ctor, 0 | 1 | 3 | 4 | 5 | 6 | 10 | 11)).collect();
                let v = if !okv.is_empty() && !self.t.chance(40) { okv[self.t.below(okv.len())] } else { self.t.below(self.views.len()) };
                let c = self.views[v].ctor;
                let len = self.cur_len(v);
                let fnn = ["load", "store", "add", "sub", "and", "or", "xor", "exchange", "compareExchange"][self.t.below(9)];
                let idx = match self.t.weighted(&[8, 3, 1]) {
                    0 => num(self.t.below(len.max(1) as usize) as f64),
                    1 => [num(len as f64), num(-1.0), num(len as f64 + 1.0), num(1.5), num(f64::NAN), undef(), strv("1"), num(4294967296.0), num(-0.0)][self.t.below(9)].clone(),
                    _ => {
                        let b = self.views[v].buf;
                        let e = self.evil(b, Some(v), num(0.0));
                        self.atomics_filter(e, num(0.0))
                    }
                };
                let mk = |g: &mut Self| -> Value {
                    let x = g.value_for(if c == DV { 0 } else { c }, Some(v), true);
                    let plain = if is_big(c) { big("3") } else { num(3.0) };
                    let x = g.atomics_filter(x, plain.clone());
                    if g.excl.atomics_store_huge && fnn == "store" {
                        if let Some(f) = x["f"].as_str().map(|h| f64::from_bits(u64::from_str_radix(h, 16).unwrap_or(0))) {
                            if f.is_finite() && f.abs() >= 9223372036854775808.0 {
                                g.label("excluded-atomics-store-of-number-with-magnitude-ge-2p63");
                                return plain;
                            }
                        }
                    }
                    x
                };
                let (val, val2) = match fnn {
                    "load" => (Value::Null, Value::Null),
                    "compareExchange" => {
                        let a = mk(self);
                        let b = mk(self);
                        (a, b)
                    }
                    _ => (mk(self), Value::Null),
                };
                self.label("op-atomics");
                if c == DV || c == 2 || is_float(c) {
                    self.label("atomics-on-unsupported-view");
                }
                self.ops.push(json!({"op":"atomic","fn":fnn,"view":v,"idx":idx,"val":val,"val2":val2}));
            }
            15 => {
                let c = self.pick_ctor();
                if self.t.chance(128) {
                    let Some(s) = self.pick_ta() else { return self.fallback() };
                    let sc = self.views[s].ctor;
                    if cast_risky(sc, c) {
                        self.label("ctor-cast-to-narrower-element-type");
                    }
                    if self.excl.ctor_cast && cast_risky(sc, c) {
                        // a source element may not fit the integer target: the saturating cast path
                        self.label("excluded-typedarray-ctor-cast-to-narrower-element-type");
                        self.ops.push(json!({"op":"newfrom","ctor":CTORS[9],"src":{"view":s}}));
                    } else {
                        self.ops.push(json!({"op":"newfrom","ctor":CTORS[c],"src":{"view":s}}));
                    }
                    self.label("op-new-from-typedarray");
                } else {
                    let n = self.t.below(5);
                    let mut items = vec![];
                    for _ in 0..n {
                        let it = self.value_for(c, None, true);
                        items.push(it);
                    }
                    self.label("op-new-from-array");
                    self.ops.push(json!({"op":"newfrom","ctor":CTORS[c],"src":{"arr":items}}));
                }
            }
            16 => {
                let Some(d) = self.pick_ta() else { return self.fallback() };
                let Some(s) = self.pick_ta() else { return self.fallback() };
                let dl = self.cur_len(d);
                let sl = self.cur_len(s);
                let di = self.t.below(dl as usize + 2);
                let si = self.t.below(sl as usize + 2);
                let s = if self.excl.small_int_ge_2p63 && is_small_int(self.views[d].ctor) && matches!(self.views[s].ctor, 8 | 9) {
                    self.label("excluded-small-int-conversion-of-number-ge-2p63");
                    d
                } else {
                    s
                };
                self.label("op-element-copy");
                self.ops.push(json!({"op":"elemcopy","view":d,"di":di,"src":s,"si":si}));
            }
            17 => {
                let b = self.t.below(self.bufs.len());
                if !self.shared(b) {
                    self.bufs[b].detached = true;
                    self.bufs[b].len = 0;
                }
                self.label("op-detach");
                self.ops.push(json!({"op":"detach","buf":b}));
            }
            18 => {
                let mut b = self.t.below(self.bufs.len());
                if self.excl.sab_zero_slice && self.shared(b) && self.bufs[b].max.unwrap_or(self.bufs[b].len) == 0 {
                    self.label("excluded-slice-of-zero-capacity-shared-buffer");
                    match (0..self.bufs.len()).find(|i| !(self.shared(*i) && self.bufs[*i].max.unwrap_or(self.bufs[*i].len) == 0)) {
                        Some(o) => b = o,
                        None => return self.fallback(),
                    }
                }
                let len = self.bufs[b].len;
                let start = if self.t.chance(220) { self.rel_arg(len, None, false) } else { Value::Null };
                let end = if !start.is_null() && self.t.chance(128) { self.rel_arg(len, None, false) } else { Value::Null };
                self.label("op-buffer-slice");
                self.ops.push(json!({"op":"bslice","buf":b,"start":start,"end":end}));
            }
            _ => {
                self.label("op-late-view-creation");
                self.new_view();
            }
        }
    }

    /// exclusion C15-e: an Atomics argument whose valueOf shrinks a resizable buffer
    fn atomics_filter(&mut self, v: Value, plain: Value) -> Value {
        if self.excl.atomics_shrink && v["evil"]["act"].as_str() == Some("resize") {
            self.label("excluded-atomics-argument-valueOf-shrinks-buffer");
            return plain;
        }
        v
    }

    fn fallback(&mut self) {
        // the chosen op had no suitable view: read geometry through a resize instead of doing nothing
        if self.views.len() < 6 {
            self.new_view();
        }
    }
}

pub fn generate(tape: &[u8], excl: Excl) -> Case {
    let mut g = Gen { t: Tape::new(tape), excl, bufs: vec![], views: vec![], ops: vec![], labels: vec![] };
    let nb = 1 + g.t.weighted(&[5, 3, 2]);
    for _ in 0..nb {
        g.new_buffer();
    }
    let nv = 1 + g.t.below(6);
    let mut tries = 0;
    while g.views.len() < nv && tries < 12 {
        g.new_view();
        tries += 1;
    }
    g.ops.push(json!({"op":"guard"}));
    let steps = 3 + g.t.below(14);
    for _ in 0..steps {
        g.step();
    }
    Case { ops: g.ops, labels: g.labels }
}
