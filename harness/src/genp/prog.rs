//! Tape-driven generator of closed, deterministic, terminating JavaScript programs.
//!
//! Programs are well-scoped by construction (a scope stack tracks live bindings, their kind and
//! a conservative static type), terminate by construction (literal loop bounds, no recursion:
//! a function may only call functions completed before it, and a static cost estimate bounds
//! the total work) and never print implementation-defined text (`show()` in the prelude).

use crate::tape::Tape;

pub const PRELUDE: &str = r#"function show(x, d) {
  d = d | 0;
  if (x === undefined) return 'undefined';
  if (x === null) return 'null';
  var t = typeof x;
  if (t === 'number') return (x === 0 && 1 / x < 0) ? '-0' : String(x);
  if (t === 'string') return '"' + x + '"';
  if (t === 'boolean') return String(x);
  if (t === 'bigint') return String(x) + 'n';
  if (t === 'symbol') return 'Symbol(' + String(x.description) + ')';
  if (t === 'function') return '[fn ' + String(x.name) + '/' + x.length + ']';
  if (x instanceof Error) return '[' + x.name + ']';
  if (d > 3) return '...';
  var s, i;
  if (Array.isArray(x)) {
    s = '[';
    for (i = 0; i < x.length && i < 40; i++) { if (i) s += ','; s += (i in x) ? show(x[i], d + 1) : '<hole>'; }
    return s + ']';
  }
  var keys = Object.keys(x);
  s = '{';
  for (i = 0; i < keys.length; i++) { if (i) s += ','; s += keys[i] + ':' + show(x[keys[i]], d + 1); }
  return s + '}';
}
function mkIt(tag, n, withReturn) {
  var it = { i: 0 };
  it[Symbol.iterator] = function () { print(tag + ' @@iterator'); return it; };
  it.next = function (v) { print(tag + ' next ' + it.i); return it.i < n ? { value: tag + it.i++, done: false } : { value: tag + 'end', done: true }; };
  if (withReturn) it['return'] = function (v) { print(tag + ' return'); return {}; };
  return it;
}
"#;

#[derive(Clone, Copy, Debug, PartialEq, Eq)]
pub enum Ty {
    Num,
    Str,
    Bool,
    Big,
    /// plain data object with known keys a, b (numbers unless reassigned)
    Obj,
    /// coercible object: valueOf/toString print
    Co,
    Arr,
    Func,
    Any,
}

#[derive(Clone, Copy, Debug, PartialEq, Eq)]
pub enum Kind {
    Let,
    Const,
    Var,
    Param,
    Func,
    Class,
    /// loop counter: readable, never assigned by generated code
    Loop,
}

#[derive(Clone, Debug)]
struct Var {
    name: String,
    kind: Kind,
    ty: Ty,
    /// function nesting level at which it was declared
    flevel: usize,
    /// for Func: index into funcs
    func: Option<usize>,
}

#[derive(Clone, Debug)]
struct FuncInfo {
    arity: usize,
    cost: u64,
    generator: bool,
    is_class: bool,
    complete: bool,
}

#[derive(Clone, Debug)]
pub struct Opts {
    pub max_stmts: usize,
    pub max_depth: usize,
    pub budget: u64,
    /// wrap the body in `function main(){...}`; the program then ends with `main()` unless `no_call`
    pub in_main: bool,
    pub no_call: bool,
    pub strict_chance: u32,
    pub w_closure: u32,
    pub w_generator: u32,
    pub w_class: u32,
    pub w_destructure: u32,
    pub w_try: u32,
    pub w_switch: u32,
    pub w_label: u32,
    pub w_coerce: u32,
    pub w_eval: u32,
    pub w_with: u32,
    pub w_tdz: u32,
    pub w_loop: u32,
    pub w_literal: u32,
    pub w_bigint: u32,
    pub w_deadcode: u32,
    pub w_async: u32,
    pub w_collections: u32,
    // exclusions for on-tree known findings (true = construct is avoided)
    pub excl_f2_rest_after_nested: bool,
    pub excl_f4_param_var_redecl: bool,
    pub excl_f6_operand_then_assign: bool,
    pub excl_f7_update_non_number: bool,
    pub excl_f8_switch_lexical: bool,
    pub excl_f9_pow2_object: bool,
    pub excl_f5_global_logical_assign_in_operand: bool,
    pub excl_f17_catch_in_finally: bool,
    /// F28: array destructuring keeps calling next() after the iterator reported done
    pub excl_f28_destructure_exhausted_iterator: bool,
    /// F29: an iterator protocol error inside a destructuring pattern leaves the iterator stack unbalanced
    pub excl_f29_broken_iterator_in_pattern: bool,
}

impl Opts {
    pub fn core() -> Self {
        Self {
            max_stmts: 14,
            max_depth: 4,
            budget: 6000,
            in_main: false,
            no_call: false,
            strict_chance: 40,
            w_closure: 10,
            w_generator: 6,
            w_class: 6,
            w_destructure: 8,
            w_try: 8,
            w_switch: 5,
            w_label: 5,
            w_coerce: 8,
            w_eval: 1,
            w_with: 1,
            w_tdz: 3,
            w_loop: 10,
            w_literal: 4,
            w_bigint: 2,
            w_deadcode: 2,
            w_async: 0,
            w_collections: 3,
            excl_f2_rest_after_nested: true,
            excl_f4_param_var_redecl: true,
            excl_f6_operand_then_assign: true,
            excl_f7_update_non_number: true,
            excl_f8_switch_lexical: true,
            excl_f9_pow2_object: true,
            excl_f5_global_logical_assign_in_operand: true,
            excl_f17_catch_in_finally: true,
            excl_f28_destructure_exhausted_iterator: true,
            excl_f29_broken_iterator_in_pattern: true,
        }
    }
    pub fn scope() -> Self {
        let mut o = Self::core();
        o.w_closure = 22;
        o.w_loop = 18;
        o.w_eval = 4;
        o.w_with = 8;
        o.w_generator = 8;
        o.w_tdz = 6;
        o.w_class = 3;
        o.w_coerce = 4;
        o
    }
    pub fn lit() -> Self {
        let mut o = Self::core();
        o.w_literal = 30;
        o.w_coerce = 20;
        o.w_bigint = 8;
        o.w_deadcode = 14;
        o.w_closure = 4;
        o.w_class = 1;
        o.w_generator = 2;
        o
    }
}

pub struct Program {
    pub src: String,
    pub labels: Vec<&'static str>,
    pub stmt_kinds: usize,
    pub excluded: Vec<&'static str>,
    pub strict: bool,
}

pub struct Gen<'a> {
    t: Tape<'a>,
    o: Opts,
    scopes: Vec<Vec<Var>>,
    funcs: Vec<FuncInfo>,
    next_id: usize,
    /// function nesting level
    flevel: usize,
    in_generator: bool,
    /// active loop labels (innermost last); "" for unlabelled loops
    loops: Vec<String>,
    /// labelled blocks that `break L` may target
    blocks: Vec<String>,
    /// cost multiplier of enclosing loops
    mult: u64,
    cost: u64,
    depth: usize,
    /// names that must not be assigned inside the expression being built (F6 exclusion)
    pinned: Vec<String>,
    labels: Vec<&'static str>,
    kinds: std::collections::BTreeSet<&'static str>,
    excluded: Vec<&'static str>,
    strict: bool,
    in_switch_case: bool,
    in_param_default: bool,
    /// nesting depth of `finally` blocks in the current function (F17 exclusion)
    in_finally: usize,
    /// the program pushes thunks to `__caps` (block-scoped bindings captured by closures)
    uses_caps: bool,
}

const INTS: &[&str] = &["0", "1", "2", "3", "7", "-1", "10", "255", "2147483647", "-2147483648", "4294967295", "0.5", "-0", "1e21", "1e-7", "9007199254740993", "NaN", "Infinity", "1.5", "100", "31", "32", "-5"];
const STRS: &[&str] = &["''", "'a'", "'b'", "'abc'", "'5'", "'-1'", "' 12 '", "'0x10'", "'1e3'", "'\\u00e9'", "'x y'", "'true'", "'null'", "'[object Object]'"];

impl<'a> Gen<'a> {
    pub fn new(tape: &'a [u8], o: Opts) -> Self {
        Self {
            t: Tape::new(tape),
            o,
            scopes: vec![vec![]],
            funcs: vec![],
            next_id: 0,
            flevel: 0,
            in_generator: false,
            loops: vec![],
            blocks: vec![],
            mult: 1,
            cost: 0,
            depth: 0,
            pinned: vec![],
            labels: vec![],
            kinds: Default::default(),
            excluded: vec![],
            strict: false,
            in_switch_case: false,
            in_param_default: false,
            in_finally: 0,
            uses_caps: false,
        }
    }

    fn label(&mut self, l: &'static str) {
        if !self.labels.contains(&l) {
            self.labels.push(l);
        }
    }
    fn fresh(&mut self, p: &str) -> String {
        self.next_id += 1;
        format!("{p}{}", self.next_id)
    }
    fn declare(&mut self, name: &str, kind: Kind, ty: Ty) {
        let v = Var { name: name.to_string(), kind, ty, flevel: self.flevel, func: None };
        if kind == Kind::Var || kind == Kind::Func && false {
            // var: hoist to the nearest function scope — we only model visibility from here on
        }
        self.scopes.last_mut().unwrap().push(v);
    }
    fn vars(&self) -> impl Iterator<Item = &Var> {
        self.scopes.iter().flat_map(|s| s.iter())
    }
    fn vars_of(&self, ty: Ty) -> Vec<Var> {
        self.vars().filter(|v| v.ty == ty && v.kind != Kind::Func && v.kind != Kind::Class).cloned().collect()
    }
    fn assignable(&self, want: Option<Ty>) -> Vec<Var> {
        self.vars()
            .filter(|v| matches!(v.kind, Kind::Let | Kind::Var | Kind::Param))
            .filter(|v| want.is_none_or(|t| v.ty == t))
            .filter(|v| !self.pinned.contains(&v.name))
            .cloned()
            .collect()
    }
    fn spend(&mut self, units: u64) -> bool {
        let c = units.saturating_mul(self.mult);
        if self.cost + c > self.o.budget {
            return false;
        }
        self.cost += c;
        true
    }

    // ------------------------------------------------------------------ expressions

    fn int_lit(&mut self) -> String {
        if self.t.chance(90) { (*self.t.pick(INTS)).to_string() } else { format!("{}", self.t.range(0, 9)) }
    }

    fn num(&mut self, d: usize) -> String {
        let vars = self.vars_of(Ty::Num);
        let w_var = if vars.is_empty() { 0 } else { 30 };
        let deep = if d == 0 { 0 } else { 1 };
        let choice = self.t.weighted(&[20, w_var, 30 * deep, 8 * deep, 6 * deep, 5 * deep, 6 * deep, 4 * deep, 4 * deep, self.o.w_coerce * deep, 3 * deep, 4 * deep]);
        match choice {
            0 => self.int_lit(),
            1 => self.t.pick(&vars).name.clone(),
            2 => {
                let ops = ["+", "-", "*", "/", "%", "|", "&", "^", "<<", ">>", ">>>", "**"];
                let op = *self.t.pick(&ops);
                // `**` is implementation-approximated for non-integral operands: small integer bases only
                let l = if op == "**" { format!("({})", self.t.range(-9, 9)) } else { self.num_operand(d - 1) };
                let pin = self.pin_of(&l);
                let r = if op == "**" { format!("{}", self.t.range(0, 3)) } else { self.num_operand(d - 1) };
                self.unpin(pin);
                format!("({l} {op} {r})")
            }
            3 => {
                let op = *self.t.pick(&["-", "+", "~"]);
                format!("({op}{})", self.num_operand(d - 1))
            }
            4 => {
                // update / compound assignment on a number variable
                let cands = self.assignable(Some(Ty::Num));
                if cands.is_empty() {
                    return self.int_lit();
                }
                let v = self.t.pick(&cands).name.clone();
                self.label("update-expr");
                match self.t.below(5) {
                    0 => format!("({v}++)"),
                    1 => format!("(++{v})"),
                    2 => format!("({v}--)"),
                    3 => {
                        let op = *self.t.pick(&["+=", "-=", "*=", "|=", "%=", ">>="]);
                        self.pinned.push(v.clone());
                        let r = self.num(d - 1);
                        self.pinned.pop();
                        format!("({v} {op} {r})")
                    }
                    _ => {
                        self.pinned.push(v.clone());
                        let r = self.num(d - 1);
                        self.pinned.pop();
                        format!("({v} = {r})")
                    }
                }
            }
            5 => {
                let c = self.boolean(d - 1);
                let a = self.num(d - 1);
                let b = self.num(d - 1);
                format!("({c} ? {a} : {b})")
            }
            6 => {
                let s = self.any(d - 1);
                let f = *self.t.pick(&["Number", "+", "parseInt", "Math.floor", "Math.abs"]);
                if f == "+" {
                    // unary plus on bigint throws; that is fine and deterministic
                    format!("(+{s})")
                } else if f == "Math.floor" || f == "Math.abs" {
                    let n = self.num(d - 1);
                    format!("{f}({n})")
                } else {
                    format!("{f}({s})")
                }
            }
            7 => {
                let arrs = self.vars_of(Ty::Arr);
                let strs = self.vars_of(Ty::Str);
                if !arrs.is_empty() && self.t.bool() {
                    format!("{}.length", self.t.pick(&arrs).name)
                } else if !strs.is_empty() {
                    format!("{}.length", self.t.pick(&strs).name)
                } else {
                    format!("({}).length", self.string(d - 1))
                }
            }
            8 => {
                let a = self.num(d - 1);
                let b = self.num(d - 1);
                format!("({a}, {b})")
            }
            9 => {
                // arithmetic on a coercible object: the conversions print
                let cos = self.vars_of(Ty::Co);
                if cos.is_empty() {
                    return self.int_lit();
                }
                self.label("coercion-object-op");
                let c = self.t.pick(&cos).name.clone();
                let op = *self.t.pick(&["-", "*", "/", "%", "|", "&", ">>", "<<", "**"]);
                if op == "**" && self.o.excl_f9_pow2_object {
                    self.excluded.push("f9-object-pow");
                    let n = self.num(d - 1);
                    return format!("({c} * {n})");
                }
                let n = self.num(d - 1);
                if self.t.bool() { format!("({c} {op} {n})") } else { format!("({n} {op} {c})") }
            }
            10 => {
                let objs = self.vars_of(Ty::Obj);
                if objs.is_empty() {
                    return self.int_lit();
                }
                // may be non-number after reassignment; unary plus keeps the static type honest
                format!("(+{}.{})", self.t.pick(&objs).name, self.t.pick(&["a", "b"]))
            }
            _ => {
                let arrs = self.vars_of(Ty::Arr);
                if arrs.is_empty() {
                    return self.int_lit();
                }
                let a = self.t.pick(&arrs).name.clone();
                let i = self.t.range(0, 4);
                format!("(+{a}[{i}])")
            }
        }
    }

    /// an operand position: bias towards bare identifiers (register operands)
    fn num_operand(&mut self, d: usize) -> String {
        let vars = self.vars_of(Ty::Num);
        if !vars.is_empty() && self.t.chance(120) {
            return self.t.pick(&vars).name.clone();
        }
        self.num(d)
    }

    fn pin_of(&mut self, operand: &str) -> bool {
        if !self.o.excl_f6_operand_then_assign {
            return false;
        }
        if operand.chars().all(|c| c.is_ascii_alphanumeric() || c == '_') && operand.chars().next().is_some_and(|c| c.is_ascii_alphabetic()) {
            self.pinned.push(operand.to_string());
            true
        } else {
            false
        }
    }
    fn unpin(&mut self, pinned: bool) {
        if pinned {
            self.pinned.pop();
        }
    }

    fn string(&mut self, d: usize) -> String {
        let vars = self.vars_of(Ty::Str);
        let w_var = if vars.is_empty() { 0 } else { 30 };
        let deep = if d == 0 { 0 } else { 1 };
        match self.t.weighted(&[20, w_var, 14 * deep, 10 * deep, 8 * deep, 6 * deep, 4 * deep, 4 * deep]) {
            0 => (*self.t.pick(STRS)).to_string(),
            1 => self.t.pick(&vars).name.clone(),
            2 => {
                let l = self.string(d - 1);
                let pin = self.pin_of(&l);
                let r = self.prim(d - 1);
                self.unpin(pin);
                format!("({l} + {r})")
            }
            3 => {
                let a = self.prim(d - 1);
                let b = self.prim(d - 1);
                self.label("template");
                format!("`<${{{a}}}|${{{b}}}>`")
            }
            4 => format!("(typeof {})", self.any(d - 1)),
            5 => format!("String({})", self.prim(d - 1)),
            6 => {
                let cands = self.assignable(Some(Ty::Str));
                if cands.is_empty() {
                    return "'s'".into();
                }
                let v = self.t.pick(&cands).name.clone();
                self.pinned.push(v.clone());
                let r = self.prim(d - 1);
                self.pinned.pop();
                format!("({v} += {r})")
            }
            _ => {
                let s = self.string(d - 1);
                let m = *self.t.pick(&["toUpperCase()", "trim()", "slice(1)", "charAt(0)", "concat('z')", "repeat(2)", "padStart(4, '*')"]);
                format!("{s}.{m}")
            }
        }
    }

    fn boolean(&mut self, d: usize) -> String {
        let vars = self.vars_of(Ty::Bool);
        let w_var = if vars.is_empty() { 0 } else { 20 };
        let deep = if d == 0 { 0 } else { 1 };
        match self.t.weighted(&[10, w_var, 30 * deep, 12 * deep, 8 * deep, 8 * deep, 4 * deep]) {
            0 => (*self.t.pick(&["true", "false"])).to_string(),
            1 => self.t.pick(&vars).name.clone(),
            2 => {
                let op = *self.t.pick(&["<", "<=", ">", ">=", "==", "===", "!=", "!=="]);
                let (l, r) = if self.t.chance(160) {
                    let l = self.num_operand(d - 1);
                    let pin = self.pin_of(&l);
                    let r = self.num_operand(d - 1);
                    self.unpin(pin);
                    (l, r)
                } else {
                    let l = self.prim(d - 1);
                    let pin = self.pin_of(&l);
                    let r = self.prim(d - 1);
                    self.unpin(pin);
                    (l, r)
                };
                format!("({l} {op} {r})")
            }
            3 => format!("(!{})", self.any(d - 1)),
            4 => {
                let a = self.boolean(d - 1);
                let op = *self.t.pick(&["&&", "||"]);
                let b = self.boolean(d - 1);
                format!("({a} {op} {b})")
            }
            5 => {
                let objs = self.vars_of(Ty::Obj);
                if objs.is_empty() {
                    return "false".into();
                }
                let k = *self.t.pick(&["'a'", "'b'", "'zz'", "'toString'"]);
                format!("({k} in {})", self.t.pick(&objs).name)
            }
            _ => {
                let a = self.any(d - 1);
                let c = *self.t.pick(&["Object", "Array", "Function", "Error"]);
                format!("({a} instanceof {c})")
            }
        }
    }

    fn bigint(&mut self, d: usize) -> String {
        let vars = self.vars_of(Ty::Big);
        self.label("bigint");
        if !vars.is_empty() && self.t.chance(100) {
            return self.t.pick(&vars).name.clone();
        }
        if d == 0 || self.t.chance(100) {
            return (*self.t.pick(&["0n", "1n", "2n", "-3n", "9007199254740993n", "18446744073709551616n", "255n"])).to_string();
        }
        let op = *self.t.pick(&["+", "-", "*", "/", "%", "&", "|", "<<", ">>"]);
        let l = self.bigint(d - 1);
        let r = if op == "<<" || op == ">>" { format!("{}n", self.t.range(0, 9)) } else { self.bigint(d - 1) };
        format!("({l} {op} {r})")
    }

    /// a primitive-valued expression (number, string, boolean, null, undefined, sometimes bigint)
    fn prim(&mut self, d: usize) -> String {
        match self.t.weighted(&[30, 20, 10, 3, 3, self.o.w_bigint]) {
            0 => self.num(d),
            1 => self.string(d),
            2 => self.boolean(d),
            3 => "null".into(),
            4 => "undefined".into(),
            _ => self.bigint(d.min(1)),
        }
    }

    fn any(&mut self, d: usize) -> String {
        let deep = if d == 0 { 0 } else { 1 };
        let anyvars: Vec<Var> = self.vars().filter(|v| !matches!(v.kind, Kind::Class)).cloned().collect();
        let w_var = if anyvars.is_empty() { 0 } else { 20 };
        match self.t.weighted(&[30, w_var, 8 * deep, 8 * deep, 8 * deep, 6 * deep, 8 * deep, 5 * deep, 6 * deep, self.o.w_coerce * deep, 4 * deep]) {
            0 => self.prim(d),
            1 => self.t.pick(&anyvars).name.clone(),
            2 => {
                // logical / coalesce
                let op = *self.t.pick(&["||", "&&", "??"]);
                let a = self.any(d - 1);
                let b = self.any(d - 1);
                self.label("logical");
                format!("({a} {op} {b})")
            }
            3 => self.array_lit(d - 1),
            4 => self.object_lit(d - 1),
            5 => {
                let c = self.boolean(d - 1);
                let a = self.any(d - 1);
                let b = self.any(d - 1);
                format!("({c} ? {a} : {b})")
            }
            6 => self.call_expr(d - 1),
            7 => {
                // member access / optional chain
                let objs: Vec<Var> = self.vars().filter(|v| matches!(v.ty, Ty::Obj | Ty::Arr | Ty::Any | Ty::Str)).cloned().collect();
                if objs.is_empty() {
                    return "undefined".into();
                }
                let o = self.t.pick(&objs).name.clone();
                let k = *self.t.pick(&["a", "b", "length", "c"]);
                self.label("optional-chain");
                match self.t.below(4) {
                    0 => format!("{o}?.{k}"),
                    1 => format!("{o}?.[{}]", self.t.range(0, 3)),
                    2 => format!("{o}?.{k}?.toString()"),
                    _ => format!("({o} == null ? 0 : {o}.{k})"),
                }
            }
            8 => {
                // assignment expression to an any-typed variable
                let cands = self.assignable(Some(Ty::Any));
                if cands.is_empty() {
                    return self.prim(d - 1);
                }
                let vv = self.t.pick(&cands).clone();
                let v = vv.name.clone();
                let op = *self.t.pick(&["=", "=", "||=", "&&=", "??="]);
                if op != "=" {
                    self.label("logical-assign");
                    // F5: on the short-circuit path the binding locator of a var / parameter / global
                    // binding that lives in an environment stays pushed and is consumed by the
                    // enclosing assignment, which then writes to the wrong binding
                    if self.o.excl_f5_global_logical_assign_in_operand && (self.flevel == 0 || matches!(vv.kind, Kind::Var | Kind::Param)) {
                        self.excluded.push("f5-global-logical-assign");
                        return self.prim(d - 1);
                    }
                }
                self.pinned.push(v.clone());
                let r = self.any(d - 1);
                self.pinned.pop();
                format!("({v} {op} {r})")
            }
            9 => {
                // loose ops on coercible objects: + (default hint), ==, <, template (string hint)
                let cos = self.vars_of(Ty::Co);
                if cos.is_empty() {
                    return self.prim(d - 1);
                }
                let c = self.t.pick(&cos).name.clone();
                self.label("coercion-object-op");
                let p = self.prim(d - 1);
                match self.t.below(6) {
                    0 => format!("({c} + {p})"),
                    1 => format!("({p} + {c})"),
                    2 => format!("({c} == {p})"),
                    3 => format!("({c} < {p})"),
                    4 => format!("`${{{c}}}`"),
                    _ => format!("({p} >= {c})"),
                }
            }
            _ => {
                let a = self.any(d - 1);
                let b = self.any(d - 1);
                format!("({a}, {b})")
            }
        }
    }

    fn array_lit(&mut self, d: usize) -> String {
        let n = self.t.below(5);
        let mut parts = vec![];
        for _ in 0..n {
            let pick = self.t.below(10);
            if pick == 0 {
                parts.push(String::new()); // hole
                self.label("array-hole");
            } else if pick == 1 {
                let arrs = self.vars_of(Ty::Arr);
                if let Some(a) = arrs.first() {
                    parts.push(format!("...{}", a.name));
                    self.label("spread");
                } else {
                    parts.push(self.prim(d));
                }
            } else {
                parts.push(self.prim(d));
            }
        }
        if parts.last().is_some_and(|p| p.is_empty()) {
            parts.push("0".into());
        }
        format!("[{}]", parts.join(", "))
    }

    fn object_lit(&mut self, d: usize) -> String {
        let mut parts = vec![];
        parts.push(format!("a: {}", self.num(d)));
        if self.t.bool() {
            parts.push(format!("b: {}", self.prim(d)));
        }
        match self.t.below(8) {
            0 => {
                let k = self.string(0);
                parts.push(format!("[{k}]: {}", self.prim(d)));
                self.label("computed-key");
            }
            1 => {
                let objs = self.vars_of(Ty::Obj);
                if let Some(o) = objs.first() {
                    parts.push(format!("...{}", o.name));
                    self.label("spread");
                }
            }
            2 => {
                let n = self.num(0);
                parts.push(format!("get g() {{ print('get g'); return {n}; }}"));
                self.label("getter");
            }
            3 => {
                parts.push("m() { return this.a; }".to_string());
            }
            _ => {}
        }
        format!("({{{}}})", parts.join(", "))
    }

    fn args_for(&mut self, arity: usize, d: usize) -> String {
        let n = match self.t.below(6) {
            0 => arity.saturating_sub(1),
            1 => arity + 1,
            _ => arity,
        };
        let mut args = vec![];
        let mut pins = 0;
        for _ in 0..n {
            let a = if self.t.chance(170) { self.prim(d) } else { self.any(d) };
            if self.pin_of(&a) {
                pins += 1;
            }
            args.push(a);
        }
        for _ in 0..pins {
            self.pinned.pop();
        }
        args.join(", ")
    }

    fn call_expr(&mut self, d: usize) -> String {
        let cands: Vec<Var> = self
            .vars()
            .filter(|v| v.func.is_some_and(|f| self.funcs[f].complete && !self.funcs[f].generator && !self.funcs[f].is_class))
            .cloned()
            .collect();
        if cands.is_empty() {
            return self.prim(d);
        }
        if self.in_finally > 0 && self.o.excl_f17_catch_in_finally {
            // F17: a callee that catches an exception while a finally block is running replaces the
            // pending completion; no calls of generated functions from inside finally
            self.excluded.push("f17-call-in-finally");
            return self.prim(d);
        }
        let v = self.t.pick(&cands).clone();
        let f = self.funcs[v.func.unwrap()].clone();
        if !self.spend(f.cost + 2) {
            return self.prim(d);
        }
        let args = self.args_for(f.arity, d);
        self.label("call");
        match self.t.below(8) {
            0 => format!("{}.call(null, {args})", v.name),
            1 => format!("{}.apply(undefined, [{args}])", v.name),
            2 => format!("{}(...[{args}])", v.name),
            _ => format!("{}({args})", v.name),
        }
    }

    /// expression of a given static type
    fn typed(&mut self, ty: Ty, d: usize) -> String {
        match ty {
            Ty::Num => self.num(d),
            Ty::Str => self.string(d),
            Ty::Bool => self.boolean(d),
            Ty::Big => self.bigint(d),
            Ty::Arr => self.array_lit(d),
            Ty::Obj => self.object_lit(d),
            Ty::Co => self.coercible(),
            Ty::Func | Ty::Any => self.any(d),
        }
    }

    fn coercible(&mut self) -> String {
        let id = self.fresh("co");
        self.label("coercion-object");
        let n = self.int_lit();
        let s = (*self.t.pick(STRS)).to_string();
        match self.t.below(5) {
            0 => format!("({{ valueOf() {{ print('{id}.valueOf'); return {n}; }}, toString() {{ print('{id}.toString'); return {s}; }} }})"),
            1 => format!("({{ valueOf() {{ print('{id}.valueOf'); return {{}}; }}, toString() {{ print('{id}.toString'); return {s}; }} }})"),
            2 => format!("({{ [Symbol.toPrimitive](hint) {{ print('{id}.toPrimitive ' + hint); return hint === 'string' ? {s} : {n}; }} }})"),
            3 => format!("({{ toString() {{ print('{id}.toString'); return {s}; }} }})"),
            _ => format!("({{ valueOf() {{ print('{id}.valueOf'); return {n}; }} }})"),
        }
    }

    // ------------------------------------------------------------------ statements

    fn pick_decl_type(&mut self) -> Ty {
        let w = [30, 14, 8, self.o.w_bigint, 10, self.o.w_coerce, 10, 14];
        [Ty::Num, Ty::Str, Ty::Bool, Ty::Big, Ty::Obj, Ty::Co, Ty::Arr, Ty::Any][self.t.weighted(&w)]
    }

    fn stmt_decl(&mut self, out: &mut String) {
        let ty = self.pick_decl_type();
        let kind = *self.t.pick(&[Kind::Let, Kind::Let, Kind::Const, Kind::Var]);
        let name = self.fresh("v");
        let e = self.typed(ty, self.o.max_depth.min(3));
        let kw = match kind {
            Kind::Let => "let",
            Kind::Const => "const",
            _ => "var",
        };
        out.push_str(&format!("{kw} {name} = {e};\n"));
        self.declare(&name, kind, ty);
        self.kinds.insert(kw);
    }

    /// a block-scoped binding captured by a closure that outlives the block: the thunk is kept in
    /// `__caps` and called at the very end of the program, so a binding that lands in the wrong
    /// environment (abrupt exits through loops / finally / labelled blocks) shows in the trace.
    /// No call and no try/catch here, so the template is also allowed inside `finally` blocks.
    fn stmt_capture(&mut self, out: &mut String) {
        self.label("capture");
        self.kinds.insert("capture");
        self.uses_caps = true;
        let ty = self.pick_decl_type();
        let kind = *self.t.pick(&[Kind::Let, Kind::Let, Kind::Const]);
        let name = self.fresh("z");
        let e = self.typed(ty, 2);
        let kw = if kind == Kind::Const { "const" } else { "let" };
        out.push_str(&format!("{kw} {name} = {e};\n"));
        self.declare(&name, kind, ty);
        self.kinds.insert(kw);
        match self.t.below(3) {
            0 => out.push_str(&format!("__caps.push(() => {name});\n")),
            1 => out.push_str(&format!("__caps.push(function () {{ return {name}; }});\n")),
            _ => {
                let others: Vec<String> = self.vars().filter(|v| !matches!(v.kind, Kind::Func | Kind::Class) && v.name != name).map(|v| v.name.clone()).collect();
                if others.is_empty() {
                    out.push_str(&format!("__caps.push(() => [{name}]);\n"));
                } else {
                    let w = self.t.pick(&others).clone();
                    out.push_str(&format!("__caps.push(() => [{name}, {w}]);\n"));
                }
            }
        }
    }

    /// Abrupt exits through nested scopes: a function (or generator) whose body nests 1-3 scope
    /// kinds (block, for-let, for-of, for-in, switch, with, catch clause, inner try/finally) inside
    /// `L0: for (let ...) { try { ... } finally|catch { ... } }`, every scope declaring a binding that is
    /// captured by a thunk kept in `__caps`, and an abrupt completion (return / break L0 / continue L0 /
    /// throw / break of an inner label) taken at a tape-chosen call argument. The thunks are called at
    /// program end, so an environment that is not popped (or popped twice) on the way out shows up
    /// as a wrong captured value. Generators are additionally closed early from a `for-of` `break`.
    fn stmt_scope_exit(&mut self, out: &mut String) {
        if !self.spend(80) {
            return self.stmt_print(out);
        }
        self.label("scope-exit");
        self.kinds.insert("scope-exit");
        self.uses_caps = true;
        let f = self.fresh("ae");
        let is_gen = self.t.chance(70);
        let levels = 1 + self.t.below(3);
        let when = self.t.below(3);
        let abrupt = match self.t.below(7) {
            0 | 1 => "return 'r' + n".to_string(),
            2 => "break L0".to_string(),
            3 => "continue L0".to_string(),
            4 => "throw 't' + n".to_string(),
            5 => "break L1".to_string(),
            _ => "return".to_string(),
        };
        let y = |on: bool, v: &str| if on { format!("yield {v}; ") } else { String::new() };
        let mut inner = format!("n++; {}if (p === {when}) {abrupt}; n += 10;\n", y(is_gen, "'y' + n"));
        for k in 0..levels {
            let id = self.fresh("s");
            let cap = |v: &str| format!("__caps.push(() => {v});");
            let kinds = if self.strict { 7 } else { 8 };
            inner = match self.t.below(kinds) {
                0 => format!("{{\nlet {id} = 'b{k}' + n; {}\n{inner}}}\n", cap(&id)),
                1 => format!("for (let {id} = 0; {id} < 2; {id}++) {{\n{}\n{inner}}}\n", cap(&id)),
                2 => format!("for (const {id} of ['o{k}', 'p{k}']) {{\n{}\n{inner}}}\n", cap(&id)),
                3 => format!("for (const {id} in {{ k{k}: 1, m{k}: 2 }}) {{\n{}\n{inner}}}\n", cap(&id)),
                4 => format!("switch (1) {{\ncase 1:\nlet {id} = 'w{k}' + n; {}\n{inner}}}\n", cap(&id)),
                5 => format!("try {{ throw 'c{k}' + n; }} catch ({id}) {{\n{}\n{inner}}}\n", cap(&id)),
                6 => format!("try {{\nlet {id} = 'i{k}' + n; {}\n{inner}}} finally {{\nlet {id}f = 'f{k}' + n; {} n += 100;\n}}\n", cap(&id), cap(&format!("{id}f"))),
                _ => format!("with ({{ {id}: 'h{k}' }}) {{\n{}\n{inner}}}\n", cap(&id)),
            };
            self.label("scope-exit-level");
        }
        let handler = match self.t.below(4) {
            0 | 1 => format!("finally {{\nlet zf = 'f' + n; __caps.push(() => zf); {}n += 1000;\n}}", y(is_gen && self.t.bool(), "'yf'")),
            2 => "catch (e) {\nlet zc = 'c' + e; __caps.push(() => zc); n += 2000;\n}".to_string(),
            _ => {
                let over = *self.t.pick(&["", "if (p === 2) continue L0;", "if (p === 2) break L0;", "if (p === 1) return 'fr';"]);
                format!("catch (e) {{\nlet zc = 'c' + e; __caps.push(() => zc);\n}} finally {{\nlet zf = 'f' + n; __caps.push(() => zf); {over}\n}}")
            }
        };
        let star = if is_gen { "*" } else { "" };
        out.push_str(&format!(
            "function{star} {f}(p) {{\nvar n = 0;\nL0: for (let i = 0; i < 2; i++) {{\n__caps.push(() => i);\ntry {{\nL1: {{\n{inner}}}\n}} {handler}\nlet za = 'a' + n; __caps.push(() => za);\n}}\nlet zt = 't' + n; __caps.push(() => zt);\nreturn n;\n}}\n"
        ));
        for p in 0..3 {
            if is_gen {
                let brk = self.t.below(4);
                out.push_str(&format!(
                    "try {{ var c{f} = 0; for (var v{f} of {f}({p})) {{ print(show(v{f})); if (++c{f} === {brk}) break; }} print(c{f}); }} catch (e) {{ print('threw', show(e)); }}\n"
                ));
            } else {
                out.push_str(&format!("try {{ print(show({f}({p}))); }} catch (e) {{ print('threw', show(e)); }}\n"));
            }
        }
    }

    fn stmt_print(&mut self, out: &mut String) {
        let d = self.o.max_depth;
        if self.t.chance(100) {
            let e = self.prim(d);
            out.push_str(&format!("print({e});\n"));
        } else {
            let e = self.any(d);
            out.push_str(&format!("print(show({e}));\n"));
        }
        self.kinds.insert("print");
    }

    fn stmt_assign(&mut self, out: &mut String) {
        let cands = self.assignable(None);
        if cands.is_empty() {
            return self.stmt_print(out);
        }
        let v = self.t.pick(&cands).clone();
        self.kinds.insert("assign");
        let d = self.o.max_depth.min(3);
        match v.ty {
            Ty::Num if self.t.chance(100) => {
                let op = *self.t.pick(&["++", "--"]);
                if self.t.bool() { out.push_str(&format!("{}{op};\n", v.name)) } else { out.push_str(&format!("{op}{};\n", v.name)) }
            }
            Ty::Obj => {
                let k = *self.t.pick(&["a", "b", "c"]);
                let e = self.prim(d);
                out.push_str(&format!("{}.{k} = {e};\n", v.name));
            }
            Ty::Arr => {
                let e = self.prim(d);
                match self.t.below(4) {
                    0 => out.push_str(&format!("{}.push({e});\n", v.name)),
                    1 => out.push_str(&format!("{}[{}] = {e};\n", v.name, self.t.range(0, 5))),
                    2 => out.push_str(&format!("{}.pop();\n", v.name)),
                    _ => out.push_str(&format!("{}.length = {};\n", v.name, self.t.range(0, 4))),
                }
            }
            ty => {
                self.pinned.push(v.name.clone());
                let e = self.typed(ty, d);
                self.pinned.pop();
                out.push_str(&format!("{} = {e};\n", v.name));
            }
        }
    }

    fn block(&mut self, out: &mut String, max: usize) {
        self.scopes.push(vec![]);
        self.depth += 1;
        let n = 1 + self.t.below(max.max(1));
        for _ in 0..n {
            self.stmt(out);
        }
        self.depth -= 1;
        self.scopes.pop();
    }

    fn stmt_if(&mut self, out: &mut String) {
        self.kinds.insert("if");
        let c = if self.t.chance(40) { self.any(2) } else { self.boolean(3) };
        out.push_str(&format!("if ({c}) {{\n"));
        self.block(out, 3);
        if self.t.bool() {
            out.push_str("} else {\n");
            self.block(out, 3);
        }
        out.push_str("}\n");
    }

    fn stmt_loop(&mut self, out: &mut String) {
        let bound = 1 + self.t.below(4) as u64;
        if self.mult * bound > 64 || !self.spend(bound * 3) {
            return self.stmt_print(out);
        }
        self.kinds.insert("loop");
        let label = if self.t.chance(self.o.w_label * 6) {
            let l = self.fresh("L");
            out.push_str(&format!("{l}: "));
            self.label("labelled-loop");
            l
        } else {
            String::new()
        };
        let old_mult = self.mult;
        self.mult *= bound;
        self.scopes.push(vec![]);
        let form = self.t.below(7);
        let i = self.fresh("i");
        let mut close = "}\n".to_string();
        match form {
            0 | 1 => {
                // counting for loop; head shape varies: literal bound / const / let / captured
                let lim = format!("{bound}");
                let op = *self.t.pick(&["<", "<", "!=", "<="]);
                let lim = if op == "<=" { format!("{}", bound - 1) } else { lim };
                let step = *self.t.pick(&["i++", "++i", "i += 1", "i = i + 1"]);
                out.push_str(&format!("for (let {i} = 0; {i} {op} {lim}; {}) {{\n", step.replace('i', &i)));
                self.declare(&i, Kind::Loop, Ty::Num);
                self.label("for-loop");
            }
            2 => {
                out.push_str(&format!("for (var {i} = {bound}; {i} > 0; {i}--) {{\n"));
                self.declare(&i, Kind::Loop, Ty::Num);
                self.label("for-loop");
            }
            3 => {
                // while with relational head (fusion/hoist shapes)
                let pre = format!("let {i} = 0;\n");
                if label.is_empty() {
                    out.push_str(&pre);
                    out.push_str(&format!("while ({i} < {bound}) {{\n{i}++;\n"));
                } else {
                    // label already emitted: keep declaration inside a for head instead
                    out.push_str(&format!("for (let {i} = 0; {i} < {bound};) {{\n{i}++;\n"));
                }
                self.declare(&i, Kind::Loop, Ty::Num);
                self.label("while-loop");
            }
            4 => {
                if label.is_empty() {
                    out.push_str(&format!("let {i} = 0;\ndo {{\n{i}++;\n"));
                    close = format!("}} while ({i} < {bound});\n");
                } else {
                    out.push_str(&format!("for (let {i} = 0; {i} < {bound}; {i}++) {{\n"));
                }
                self.declare(&i, Kind::Loop, Ty::Num);
                self.label("do-while-loop");
            }
            5 => {
                let mut elems = vec![];
                for _ in 0..bound {
                    elems.push(self.prim(1));
                }
                let kw = *self.t.pick(&["const", "let", "var"]);
                out.push_str(&format!("for ({kw} {i} of [{}]) {{\n", elems.join(", ")));
                self.declare(&i, Kind::Loop, Ty::Any);
                self.label("for-of");
            }
            _ => {
                let keys = ["p", "q", "r", "s"];
                let mut parts = vec![];
                for k in keys.iter().take(bound as usize) {
                    parts.push(format!("{k}: {}", self.t.range(0, 9)));
                }
                let kw = *self.t.pick(&["const", "let", "var"]);
                out.push_str(&format!("for ({kw} {i} in {{{}}}) {{\n", parts.join(", ")));
                self.declare(&i, Kind::Loop, Ty::Str);
                self.label("for-in");
            }
        }
        self.loops.push(label.clone());
        // closures capturing the loop variable
        if self.t.chance(self.o.w_closure * 4) {
            let arrs = self.vars_of(Ty::Arr);
            if let Some(a) = arrs.first() {
                out.push_str(&format!("{}.push(() => {i});\n", a.name));
                self.label("closure-in-loop");
            }
        }
        self.block(out, 3);
        // break / continue
        if self.t.chance(70) {
            let c = self.boolean(2);
            let target = self.loops[self.t.below(self.loops.len())].clone();
            let kw = *self.t.pick(&["break", "continue"]);
            if target.is_empty() || self.t.bool() {
                out.push_str(&format!("if ({c}) {kw};\n"));
            } else {
                out.push_str(&format!("if ({c}) {kw} {target};\n"));
                self.label("labelled-jump");
            }
        }
        self.loops.pop();
        out.push_str(&close);
        self.scopes.pop();
        self.mult = old_mult;
        // make loop variables of `let i` pre-declared forms visible afterwards
        if matches!(form, 3 | 4) && label.is_empty() {
            self.declare(&i, Kind::Loop, Ty::Num);
        }
    }

    fn stmt_switch(&mut self, out: &mut String) {
        self.kinds.insert("switch");
        self.label("switch");
        let d = self.num(2);
        out.push_str(&format!("switch ({d}) {{\n"));
        let n = 1 + self.t.below(3);
        let saved = self.in_switch_case;
        let saved_loops = std::mem::take(&mut self.loops);
        let mut had_default = false;
        for k in 0..n {
            if !had_default && self.t.chance(40) {
                had_default = true;
                out.push_str("default:\n");
            } else {
                out.push_str(&format!("case {}:\n", self.t.pick(INTS)));
            }
            let _ = k;
            // F8 exclusion: lexical declarations directly in a case clause are wrapped in a block
            let wrap = self.o.excl_f8_switch_lexical;
            if wrap {
                out.push_str("{\n");
                self.excluded.push("f8-switch-lexical");
            }
            self.in_switch_case = !wrap;
            self.scopes.push(vec![]);
            let m = 1 + self.t.below(2);
            for _ in 0..m {
                self.stmt(out);
            }
            self.scopes.pop();
            if wrap {
                out.push_str("}\n");
            }
            if self.t.chance(150) {
                out.push_str("break;\n");
            }
        }
        self.in_switch_case = saved;
        self.loops = saved_loops;
        out.push_str("}\n");
    }

    fn stmt_try(&mut self, out: &mut String) {
        self.kinds.insert("try");
        self.label("try");
        out.push_str("try {\n");
        self.block(out, 3);
        if self.t.chance(110) {
            let e = match self.t.below(5) {
                0 => "new TypeError('x')".to_string(),
                1 => "new RangeError('r')".to_string(),
                2 => self.prim(1),
                3 => "null.p".to_string(),
                _ => "undefinedVariable".to_string(),
            };
            if e.starts_with("null.") || e.starts_with("undefinedV") {
                out.push_str(&format!("{e};\n"));
            } else {
                out.push_str(&format!("throw {e};\n"));
            }
            self.label("throw");
        }
        let has_catch = self.t.chance(200);
        if has_catch {
            let e = self.fresh("e");
            match self.t.below(4) {
                0 => out.push_str("} catch {\n"),
                1 if self.o.w_destructure > 0 => {
                    out.push_str(&format!("}} catch ({{ name: {e} }}) {{\n"));
                    self.scopes.push(vec![]);
                    self.declare(&e, Kind::Let, Ty::Any);
                    out.push_str(&format!("print(show({e}));\n"));
                    self.block(out, 2);
                    self.scopes.pop();
                    self.label("catch-destructure");
                    return self.try_tail(out, true);
                }
                _ => {
                    out.push_str(&format!("}} catch ({e}) {{\n"));
                    self.scopes.push(vec![]);
                    self.declare(&e, Kind::Let, Ty::Any);
                    out.push_str(&format!("print(show({e}));\n"));
                    self.block(out, 2);
                    self.scopes.pop();
                    return self.try_tail(out, true);
                }
            }
            self.block(out, 2);
        }
        self.try_tail(out, has_catch);
    }

    fn try_tail(&mut self, out: &mut String, has_catch: bool) {
        if !has_catch || self.t.chance(100) {
            out.push_str("} finally {\n");
            self.label("finally");
            out.push_str("print('finally');\n");
            self.in_finally += 1;
            self.block(out, 2);
            self.in_finally -= 1;
            if self.flevel > 0 && self.t.chance(30) {
                out.push_str(&format!("return {};\n", self.prim(1)));
                self.label("return-in-finally");
            }
        }
        out.push_str("}\n");
    }

    fn params(&mut self, out: &mut String) -> (usize, bool) {
        // returns (arity, has_default_closure)
        let n = self.t.below(4);
        let mut parts = vec![];
        let mut has_default_closure = false;
        let mut simple = true;
        for k in 0..n {
            let p = self.fresh("p");
            let form = self.t.below(10);
            match form {
                0 | 1 if k > 0 || true => {
                    // default value, may reference earlier params / create closure
                    let prev: Vec<Var> = self.scopes.last().unwrap().iter().filter(|v| v.kind == Kind::Param).cloned().collect();
                    self.in_param_default = true;
                    let dflt = if !prev.is_empty() && self.t.chance(self.o.w_closure * 8) {
                        has_default_closure = true;
                        self.label("default-param-closure");
                        format!("() => {}", self.t.pick(&prev).name)
                    } else if !prev.is_empty() && self.t.bool() {
                        self.label("default-param-ref");
                        format!("{} ", self.t.pick(&prev).name)
                    } else {
                        self.prim(1)
                    };
                    self.in_param_default = false;
                    parts.push(format!("{p} = {dflt}"));
                    self.declare(&p, Kind::Param, Ty::Any);
                    simple = false;
                }
                2 if self.o.w_destructure > 0 => {
                    let q = self.fresh("p");
                    parts.push(format!("{{ a: {p}, b: {q} = 7 }} = {{}}"));
                    self.declare(&p, Kind::Param, Ty::Any);
                    self.declare(&q, Kind::Param, Ty::Any);
                    self.label("param-destructure");
                    simple = false;
                }
                3 if self.o.w_destructure > 0 => {
                    let q = self.fresh("p");
                    parts.push(format!("[{p}, {q}] = [1, 2]"));
                    self.declare(&p, Kind::Param, Ty::Any);
                    self.declare(&q, Kind::Param, Ty::Any);
                    self.label("param-destructure");
                    simple = false;
                }
                _ => {
                    parts.push(p.clone());
                    self.declare(&p, Kind::Param, Ty::Any);
                }
            }
        }
        if self.t.chance(30) {
            let r = self.fresh("rest");
            parts.push(format!("...{r}"));
            self.declare(&r, Kind::Param, Ty::Arr);
            self.label("rest-param");
            simple = false;
        }
        let _ = has_default_closure;
        out.push_str(&parts.join(", "));
        (n, !simple)
    }

    /// Emit a function (declaration / expression / arrow / method-like) and register it.
    fn stmt_function(&mut self, out: &mut String) {
        if self.flevel >= 3 || !self.spend(5) {
            return self.stmt_print(out);
        }
        self.kinds.insert("function");
        let name = self.fresh("f");
        let generator = self.t.chance(self.o.w_generator * 5);
        let form = if generator { 0 } else { self.t.below(4) };
        // reserve
        let fidx = self.funcs.len();
        self.funcs.push(FuncInfo { arity: 0, cost: 0, generator, is_class: false, complete: false });
        let kind = if form == 0 { Kind::Func } else { Kind::Const };
        let v = Var { name: name.clone(), kind, ty: Ty::Func, flevel: self.flevel, func: Some(fidx) };
        self.scopes.last_mut().unwrap().push(v);

        let star = if generator { "*" } else { "" };
        match form {
            0 => out.push_str(&format!("function{star} {name}(")),
            1 => out.push_str(&format!("const {name} = function(")),
            2 => out.push_str(&format!("const {name} = (")),
            _ => out.push_str(&format!("const {name} = function inner{fidx}(")),
        }
        // body generated with fresh cost accounting
        let saved_in_finally = std::mem::take(&mut self.in_finally);
        let saved = (self.cost, self.mult, std::mem::take(&mut self.loops), std::mem::take(&mut self.blocks), self.in_generator, self.in_switch_case);
        self.cost = 0;
        self.mult = 1;
        self.flevel += 1;
        self.in_generator = generator;
        self.in_switch_case = false;
        self.scopes.push(vec![]);
        let budget_saved = self.o.budget;
        self.o.budget = (budget_saved / 8).max(50);
        let (arity, non_simple) = self.params(out);
        out.push_str(if form == 2 { ") => {\n" } else { ") {\n" });
        if self.t.chance(30) && form != 2 {
            out.push_str(if self.t.bool() { "print(arguments.length);\n" } else { "print(arguments.length, show(arguments[0]));\n" });
            self.label("arguments");
        }
        if self.t.chance(20) && arity > 0 {
            // body var redeclaring a parameter
            let params: Vec<Var> = self.scopes.last().unwrap().iter().filter(|v| v.kind == Kind::Param && v.ty == Ty::Any).cloned().collect();
            if !params.is_empty() {
                if non_simple && self.o.excl_f4_param_var_redecl {
                    self.excluded.push("f4-param-var-redecl");
                } else {
                    let p = self.t.pick(&params).name.clone();
                    if self.t.bool() { out.push_str(&format!("var {p};\n")) } else { out.push_str(&format!("var {p} = {};\n", self.prim(1))) }
                    self.label("var-redeclares-param");
                }
            }
        }
        let n = 1 + self.t.below(4);
        for _ in 0..n {
            self.stmt(out);
            if generator && self.t.chance(150) {
                let e = self.prim(1);
                let y = self.fresh("y");
                out.push_str(&format!("const {y} = yield {e};\nprint('resumed', show({y}));\n"));
                self.declare(&y, Kind::Const, Ty::Any);
                self.label("yield");
            }
            if generator && self.t.chance(60) {
                // yield* delegation: to an earlier generator, an array, or an inline generator whose
                // try/catch/finally observes throw()/return() forwarded from the outer generator
                let y = self.fresh("y");
                let inner_gens: Vec<Var> = self.vars().filter(|v| v.func.is_some_and(|f| self.funcs[f].complete && self.funcs[f].generator)).cloned().collect();
                let target = match self.t.below(4) {
                    0 if !inner_gens.is_empty() => {
                        let g = self.t.pick(&inner_gens).clone();
                        let f = self.funcs[g.func.unwrap()].clone();
                        if self.spend(f.cost + 5) { format!("{}({})", g.name, self.args_for(f.arity, 1)) } else { "[1, 2]".to_string() }
                    }
                    1 => format!("[{}, {}]", self.prim(1), self.prim(1)),
                    2 => "(function* () { try { yield 'in1'; yield 'in2'; } catch (e) { print('inner caught', show(e)); return 'recovered'; } finally { print('inner finally'); } return 'inner-normal'; })()".to_string(),
                    _ => "(function* () { while (true) { try { yield 'loop'; return 'loop-done'; } catch (e) { print('inner loop caught', show(e)); } } })()".to_string(),
                };
                out.push_str(&format!("const {y} = yield* {target};\nprint('yield* result', show({y}));\n"));
                self.declare(&y, Kind::Const, Ty::Any);
                self.label("yield-star");
            }
        }
        if self.t.chance(200) {
            let e = self.any(2);
            out.push_str(&format!("return {e};\n"));
        }
        out.push_str(if form == 0 { "}\n" } else { "};\n" });
        self.scopes.pop();
        self.flevel -= 1;
        let fcost = self.cost + 3;
        self.o.budget = budget_saved;
        self.cost = saved.0;
        self.mult = saved.1;
        self.loops = saved.2;
        self.blocks = saved.3;
        self.in_generator = saved.4;
        self.in_switch_case = saved.5;
        self.in_finally = saved_in_finally;
        self.funcs[fidx] = FuncInfo { arity, cost: fcost, generator, is_class: false, complete: true };
        self.label(if generator { "generator-def" } else { "function-def" });
        // use it right away sometimes
        if generator {
            self.use_generator(out, &name, arity, fcost);
        } else if self.t.chance(160) && self.spend(fcost + 2) {
            let args = self.args_for(arity, 1);
            out.push_str(&format!("print(show({name}({args})));\n"));
        }
    }

    fn use_generator(&mut self, out: &mut String, name: &str, arity: usize, cost: u64) {
        if !self.spend(cost * 2 + 10) {
            return;
        }
        let g = self.fresh("g");
        let args = self.args_for(arity, 1);
        self.label("generator-use");
        match self.t.below(8) {
            0 => {
                out.push_str(&format!("for (const {g} of {name}({args})) {{ print('item', show({g})); }}\n"));
            }
            1 => {
                out.push_str(&format!("print(show([...{name}({args})]));\n"));
            }
            2 => {
                out.push_str(&format!("const {g} = {name}({args});\nprint(show({g}.next()));\nprint(show({g}.next('in1')));\nprint(show({g}.return('early')));\nprint(show({g}.next()));\n"));
                self.label("generator-return");
            }
            3 => {
                out.push_str(&format!("const {g} = {name}({args});\nprint(show({g}.next()));\ntry {{ print(show({g}.throw(new RangeError('t')))); }} catch (e) {{ print('caught', show(e)); }}\nprint(show({g}.next()));\n"));
                self.label("generator-throw");
            }
            6 => {
                out.push_str(&format!("const {g} = {name}({args});\nprint(show({g}.next()));\ntry {{ print(show({g}.throw('t1'))); print(show({g}.next('n2'))); print(show({g}.throw('t2'))); }} catch (e) {{ print('caught', show(e)); }}\nprint(show({g}.next()));\n"));
                self.label("generator-throw");
            }
            7 => {
                out.push_str(&format!("const {g} = {name}({args});\nprint(show({g}.next()));\nprint(show({g}.next('a')));\ntry {{ print(show({g}.return('r1'))); }} catch (e) {{ print('caught', show(e)); }}\nprint(show({g}.next()));\n"));
                self.label("generator-return");
            }
            4 => {
                let a = self.fresh("d");
                let b = self.fresh("d");
                out.push_str(&format!("const [{a}, {b} = 'dflt'] = {name}({args});\nprint(show({a}), show({b}));\n"));
                self.declare(&a, Kind::Const, Ty::Any);
                self.declare(&b, Kind::Const, Ty::Any);
            }
            _ => {
                out.push_str(&format!("const {g} = {name}({args});\nlet r{g};\nwhile (!(r{g} = {g}.next(1)).done) print(show(r{g}.value));\nprint(show(r{g}));\n"));
            }
        }
    }

    fn stmt_closure(&mut self, out: &mut String) {
        if self.flevel >= 3 || !self.spend(12) {
            return self.stmt_print(out);
        }
        self.kinds.insert("closure");
        self.label("closure");
        let mk = self.fresh("mk");
        let c = self.fresh("c");
        let n = self.fresh("n");
        match self.t.below(4) {
            0 => {
                // counter factory
                let init = self.int_lit();
                out.push_str(&format!(
                    "function {mk}() {{ let {n} = {init}; return {{ inc() {{ return ++{n}; }}, get() {{ return {n}; }} }}; }}\nconst {c} = {mk}();\nprint({c}.inc(), {c}.inc(), {c}.get());\nconst {c}b = {mk}();\nprint({c}b.inc(), {c}.get());\n"
                ));
            }
            1 => {
                // closures created in a loop, called later
                let kw = *self.t.pick(&["let", "var"]);
                out.push_str(&format!(
                    "const {c} = [];\nfor ({kw} {n} = 0; {n} < 3; {n}++) {{ {c}.push(() => {n}); }}\nprint({c}.map(f => f()).join(','));\n"
                ));
                self.label("closure-in-loop");
            }
            2 => {
                // IIFE capturing an outer variable and mutating it
                let cands = self.assignable(Some(Ty::Num));
                if let Some(v) = cands.first() {
                    let v = v.name.clone();
                    out.push_str(&format!("(function() {{ {v} = {v} + 1; print('iife', {v}); }})();\nprint({v});\n"));
                } else {
                    out.push_str(&format!("let {n} = 1;\n(() => {{ {n} += 2; }})();\nprint({n});\n"));
                    self.declare(&n, Kind::Let, Ty::Num);
                }
            }
            _ => {
                // nested arrow capturing through two levels
                let x = self.int_lit();
                out.push_str(&format!("const {c} = (a => b => c => a + b + c)({x})(2);\nprint({c}(3));\n"));
            }
        }
    }

    fn stmt_class(&mut self, out: &mut String) {
        if self.flevel >= 2 || !self.spend(30) {
            return self.stmt_print(out);
        }
        self.kinds.insert("class");
        self.label("class");
        let name = self.fresh("C");
        let n1 = self.int_lit();
        let n2 = self.int_lit();
        let mut members = vec![];
        members.push(format!("x = {n1};"));
        if self.t.bool() {
            members.push(format!("#p = {n2};\n  getP() {{ return this.#p; }}\n  setP(v) {{ this.#p = v; return #p in this; }}"));
            self.label("private-name");
        }
        if self.t.bool() {
            members.push(format!("static s = {n2};\n  static sm() {{ return this.s; }}"));
        }
        if self.t.chance(80) {
            members.push("static { print('static block', this.name); }".to_string());
            self.label("static-block");
        }
        members.push("constructor(a) { print('ctor', new.target === undefined ? 'none' : new.target.name); this.a = a; }".to_string());
        if self.t.bool() {
            members.push("get acc() { print('get acc'); return this.a; }\n  set acc(v) { print('set acc', v); this.a = v; }".to_string());
        }
        members.push("m(k) { return this.a + k; }".to_string());
        out.push_str(&format!("class {name} {{\n  {}\n}}\n", members.join("\n  ")));
        let fidx = self.funcs.len();
        self.funcs.push(FuncInfo { arity: 1, cost: 5, generator: false, is_class: true, complete: true });
        let v = Var { name: name.clone(), kind: Kind::Class, ty: Ty::Func, flevel: self.flevel, func: Some(fidx) };
        self.scopes.last_mut().unwrap().push(v);
        let o = self.fresh("o");
        let arg = self.prim(1);
        out.push_str(&format!("const {o} = new {name}({arg});\nprint(show({o}.m(1)), show({o}.x));\n"));
        if members.iter().any(|m| m.contains("#p")) {
            out.push_str(&format!("print({o}.getP(), {o}.setP(5), {o}.getP());\n"));
        }
        if members.iter().any(|m| m.contains("acc")) {
            out.push_str(&format!("{o}.acc = 3; print({o}.acc);\n"));
        }
        if members.iter().any(|m| m.contains("sm()")) {
            out.push_str(&format!("print({name}.sm());\n"));
        }
        if self.t.chance(130) {
            let d = self.fresh("D");
            let ret = if self.t.chance(40) { "return { z: 1 };" } else { "" };
            out.push_str(&format!(
                "class {d} extends {name} {{\n  constructor(a) {{ print('D before super'); super(a); print('D after super', this.a); {ret} }}\n  m(k) {{ return 'D' + super.m(k); }}\n}}\nprint(show(new {d}(2).m?.(3)));\ntry {{ {d}(1); }} catch (e) {{ print(show(e)); }}\n"
            ));
            self.label("class-extends");
        }
        self.declare(&o, Kind::Const, Ty::Any);
    }

    fn stmt_destructure(&mut self, out: &mut String) {
        self.kinds.insert("destructure");
        self.label("destructure");
        let a = self.fresh("d");
        let b = self.fresh("d");
        let c = self.fresh("d");
        let kw = *self.t.pick(&["let", "const", "var"]);
        let kind = match kw {
            "let" => Kind::Let,
            "const" => Kind::Const,
            _ => Kind::Var,
        };
        let e1 = self.prim(1);
        let e2 = self.prim(1);
        match self.t.below(7) {
            0 => {
                out.push_str(&format!("{kw} [{a}, {b} = {e1}, ...{c}] = [{e2}, undefined, 3, 4];\nprint(show({a}), show({b}), show({c}));\n"));
                self.declare(&c, kind, Ty::Arr);
            }
            1 => {
                out.push_str(&format!("{kw} {{ a: {a}, b: {b} = {e1}, ...{c} }} = {{ a: {e2}, c: 3, d: 4 }};\nprint(show({a}), show({b}), show({c}));\n"));
                self.declare(&c, kind, Ty::Obj);
            }
            2 => {
                // nested pattern (+ rest only when F2 is not excluded)
                if self.o.excl_f2_rest_after_nested {
                    self.excluded.push("f2-rest-after-nested");
                    out.push_str(&format!("{kw} {{ a: {{ b: {a} }}, c: [{b}] }} = {{ a: {{ b: {e1} }}, c: [{e2}], d: 1 }};\nprint(show({a}), show({b}));\n"));
                    self.declare(&a, kind, Ty::Any);
                    self.declare(&b, kind, Ty::Any);
                    return;
                }
                out.push_str(&format!("{kw} {{ a: {{ b: {a} }}, c: [{b}], ...{c} }} = {{ a: {{ b: {e1} }}, c: [{e2}], d: 1 }};\nprint(show({a}), show({b}), show({c}));\n"));
                self.declare(&c, kind, Ty::Obj);
                self.label("rest-after-nested");
            }
            3 => {
                let k = self.string(0);
                out.push_str(&format!("{kw} {{ [{k}]: {a} = 'dk', length: {b} }} = 'hello';\nprint(show({a}), show({b}));\n"));
                self.declare(&a, kind, Ty::Any);
                self.declare(&b, kind, Ty::Any);
                self.label("computed-key");
                return;
            }
            4 => {
                // assignment pattern to existing variables, swap
                let cands = self.assignable(Some(Ty::Any));
                if cands.len() >= 2 {
                    let x = cands[0].name.clone();
                    let y = cands[1].name.clone();
                    out.push_str(&format!("[{x}, {y}] = [{y}, {x}];\nprint(show({x}), show({y}));\n"));
                } else {
                    out.push_str(&format!("{kw} [{a}, [{b}]] = [{e1}, [{e2}]];\nprint(show({a}), show({b}));\n"));
                    self.declare(&a, kind, Ty::Any);
                    self.declare(&b, kind, Ty::Any);
                }
                return;
            }
            5 => {
                // destructuring with printing getters: order of evaluation
                out.push_str(&format!("{kw} {{ p: {a}, q: {b} = (print('default q'), 1) }} = {{ get p() {{ print('get p'); return {e1}; }}, get q() {{ print('get q'); return undefined; }} }};\nprint(show({a}), show({b}));\n"));
                self.declare(&a, kind, Ty::Any);
                self.declare(&b, kind, Ty::Any);
                return;
            }
            _ => {
                out.push_str(&format!("for (const [{a}, {{ k: {b} }}] of [[1, {{ k: {e1} }}], [2, {{ k: {e2} }}]]) print(show({a}), show({b}));\n"));
                return;
            }
        }
        self.declare(&a, kind, Ty::Any);
        self.declare(&b, kind, Ty::Any);
    }

    fn stmt_tdz(&mut self, out: &mut String) {
        self.kinds.insert("tdz");
        self.label("tdz-probe");
        let x = self.fresh("z");
        let e = self.prim(1);
        match self.t.below(5) {
            0 => out.push_str(&format!("{{\ntry {{ print(show({x})); }} catch (e) {{ print(show(e)); }}\nlet {x} = {e};\nprint(show({x}));\n}}\n")),
            1 => out.push_str(&format!("{{\nconst f{x} = () => {x};\ntry {{ print(show(f{x}())); }} catch (e) {{ print(show(e)); }}\nconst {x} = {e};\nprint(show(f{x}()));\n}}\n")),
            2 => {
                if self.o.excl_f8_switch_lexical {
                    // F8: uncaptured lexicals have no run-time TDZ state; keep the captured form only
                    self.excluded.push("f8-tdz-assign-uncaptured");
                    out.push_str(&format!("{{\ntry {{ {x} = 1; }} catch (e) {{ print(show(e)); }}\nlet {x};\nprint(show({x}), show((() => {x})()));\n}}\n"));
                } else {
                    out.push_str(&format!("{{\ntry {{ {x} = 1; }} catch (e) {{ print(show(e)); }}\nlet {x};\nprint(show({x}));\n}}\n"));
                }
            }
            3 => out.push_str(&format!("{{\ntry {{ print(typeof {x}); }} catch (e) {{ print(show(e)); }}\nclass {x} {{}}\nprint(typeof {x});\n}}\n")),
            _ => out.push_str(&format!("try {{ (function(a = b{x}, b{x} = {e}) {{ print(show(a)); }})(); }} catch (e) {{ print(show(e)); }}\n")),
        }
    }

    fn stmt_labelled_block(&mut self, out: &mut String) {
        self.kinds.insert("labelled-block");
        self.label("labelled-block");
        let l = self.fresh("B");
        out.push_str(&format!("{l}: {{\n"));
        self.blocks.push(l.clone());
        self.block(out, 2);
        let c = self.boolean(2);
        out.push_str(&format!("if ({c}) break {l};\n"));
        self.block(out, 2);
        self.blocks.pop();
        out.push_str("}\n");
    }

    fn stmt_eval(&mut self, out: &mut String) {
        self.kinds.insert("eval");
        self.label("direct-eval");
        let nums = self.vars_of(Ty::Num);
        let x = self.fresh("ev");
        let body = if let Some(v) = nums.first() {
            match self.t.below(3) {
                0 => format!("{} + 1", v.name),
                1 => format!("var {x} = {} * 2; {x}", v.name),
                _ => format!("let {x} = 3; {x} + {}", v.name),
            }
        } else {
            format!("var {x} = 5; {x}")
        };
        out.push_str(&format!("print(show(eval('{body}')));\n"));
        if body.starts_with("var") && !self.strict {
            out.push_str(&format!("print(typeof {x});\n"));
        }
    }

    fn stmt_with(&mut self, out: &mut String) {
        if self.strict {
            return self.stmt_print(out);
        }
        self.kinds.insert("with");
        self.label("with");
        let nums = self.vars_of(Ty::Num);
        let shadow_var = nums.first().cloned();
        let shadow = shadow_var.as_ref().map(|v| v.name.clone()).unwrap_or_else(|| "a".into());
        // F30: an assignment to a name that statically resolves to a const throws even when a `with`
        // object provides a writable property of that name
        let shadow_is_const = shadow_var.as_ref().is_some_and(|v| v.kind == Kind::Const);
        let e = self.num(1);
        out.push_str(&format!("with ({{ {shadow}: {e}, a: 1 }}) {{\nprint(show({shadow}), a);\n"));
        if self.t.chance(120) {
            // nested with that does not shadow: the outer object must win again afterwards
            out.push_str("with ({ inner: 1 }) {\nprint(inner);\n");
            self.block(out, 2);
            out.push_str("}\n");
            self.label("nested-with");
        }
        self.block(out, 2);
        if shadow != "a" {
            if shadow_is_const {
                self.excluded.push("f30-assign-const-shadowed-by-with");
                out.push_str(&format!("print(show({shadow}));\n"));
            } else {
                out.push_str(&format!("print(show({shadow}));\n{shadow} = {shadow} + 1;\nprint(typeof {shadow}, show({shadow}));\n"));
            }
        }
        out.push_str("}\n");
        if shadow != "a" {
            out.push_str(&format!("print(show({shadow}));\n"));
        }
    }

    fn stmt_deadcode(&mut self, out: &mut String) {
        self.kinds.insert("literal-condition");
        self.label("literal-condition");
        let h = self.fresh("h");
        // plain literals, constant expressions that fold to every falsy / truthy edge value (NaN, -0, '', 0n,
        // null, undefined, Infinity, subnormals), and generated literal expressions
        let mut risky = false;
        let c = match self.t.below(4) {
            0 => (*self.t.pick(&["false", "true", "0", "1", "''", "'x'", "null", "undefined", "NaN", "0n", "-0", "[]"])).to_string(),
            1 | 2 => (*self.t.pick(&[
                "0 / 0", "-'x'", "'a' * 2", "0 * -1", "2 - 2", "1 / 0", "-1 / 0", "'' + ''", "'a' + 'b'", "!0", "!1", "void 0", "0.5", "1e-320", "0n * 1n", "1n - 1n",
                "1 < 2", "'b' < 'a'", "null ?? 0", "typeof 1", "0 || ''", "1 && 0 / 0", "+'1e'", "+''", "+' '", "-0 + 0", "-0 - 0", "0 % 1", "-1 % 1", "5e-324 / 2", "1e308 * 10",
                "'0'", "' '", "+'0'", "!!'0'", "~-1", "1 >>> 32", "null + 0", "undefined + 1", "true - 1", "(0, 0)", "0 == ''", "null == 0", "NaN != NaN",
            ])).to_string(),
            _ if self.in_finally == 0 => {
                risky = true;
                self.lit_expr()
            }
            _ => "0 / 0".to_string(),
        };
        let mut body = String::new();
        {
        let out = &mut body;
        match self.t.below(7) {
            5 => out.push_str(&format!("do {{ print('do body'); }} while (({c}) && false);\nprint(!({c}) ? 'neg' : 'pos');\n")),
            6 => out.push_str(&format!("if ({c}) print('only-then');\nif (!({c})) {{ print('not'); }} else if ({c}) {{ print('elif'); }}\n")),
            0 => out.push_str(&format!("if ({c}) {{ var {h} = 1; function fn{h}() {{ return 1; }} print('then'); }} else {{ print('else'); }}\nprint(typeof {h});\n")),
            1 => out.push_str(&format!("print({c} ? 'T' : 'F');\n")),
            2 => out.push_str(&format!("while ({c}) {{ var {h} = 2; print('body'); break; }}\nprint(typeof {h});\n")),
            3 => out.push_str(&format!("for (; {c};) {{ let {h} = 1; print('for body'); break; }}\n")),
            _ => out.push_str(&format!("print(show(({c}) && 'and'), show(({c}) || 'or'), show(({c}) ?? 'nn'));\n")),
        }
        }
        if risky {
            // a generated literal expression may throw (BigInt mixed with Number)
            out.push_str(&format!("try {{\n{body}}} catch (e) {{ print(show(e)); }}\n"));
        } else {
            out.push_str(&body);
        }
    }

    fn stmt_literal_expr(&mut self, out: &mut String) {
        // literal-heavy expression statements for the optimizer
        self.kinds.insert("literal-expr");
        self.label("literal-expr");
        let e = self.lit_expr();
        out.push_str(&format!("try {{ print(show({e})); }} catch (e) {{ print(show(e)); }}\n"));
    }

    /// an expression over literals (and a few numeric variables) that the optimizer can fold
    fn lit_expr(&mut self) -> String {
        let ops = ["+", "-", "*", "/", "%", "**", "|", "&", "^", "<<", ">>", ">>>", "<", "<=", ">", ">=", "==", "===", "!=", "!==", "&&", "||", "??"];
        let mut e = self.lit_leaf();
        let n = 1 + self.t.below(4);
        for _ in 0..n {
            let op = *self.t.pick(&ops);
            let r = if op == "**" {
                let k = self.t.range(0, 3);
                // F9: `ident ** 2` is rewritten to `ident * ident` (double conversion; BigInt mix no longer throws)
                let ident = e.chars().all(|c| c.is_ascii_alphanumeric());
                if k == 2 && ident && self.o.excl_f9_pow2_object && !self.vars_of(Ty::Num).iter().any(|v| v.name == e) {
                    self.excluded.push("f9-object-pow");
                    "3".to_string()
                } else {
                    format!("{k}")
                }
            } else {
                self.lit_leaf()
            };
            if op == "**" && !e.chars().all(|c| c.is_ascii_digit()) {
                // keep exponentiation exact: integer literal base
                e = format!("{}", self.t.range(0, 9));
            }
            let (l2, r2) = if op == "**" && (e.starts_with('-') || e.starts_with('+') || e.starts_with("typeof") || e.starts_with('!')) { (format!("({e})"), r) } else { (e, r) };
            if op == "??" || op == "&&" || op == "||" {
                e = format!("(({l2}) {op} ({r2}))");
            } else {
                e = format!("({l2} {op} {r2})");
            }
        }
        if self.t.chance(60) {
            let u = *self.t.pick(&["-", "+", "!", "~", "typeof ", "void "]);
            e = format!("({u}{e})");
        }
        e
    }

    fn lit_leaf(&mut self) -> String {
        let cos = self.vars_of(Ty::Co);
        let nums = self.vars_of(Ty::Num);
        match self.t.weighted(&[30, 14, 6, 4, 4, self.o.w_bigint, if cos.is_empty() { 0 } else { 10 }, if nums.is_empty() { 0 } else { 10 }]) {
            0 => (*self.t.pick(INTS)).to_string(),
            1 => (*self.t.pick(STRS)).to_string(),
            2 => (*self.t.pick(&["true", "false"])).to_string(),
            3 => "null".into(),
            4 => "undefined".into(),
            5 => (*self.t.pick(&["0n", "1n", "2n", "-3n", "9007199254740993n"])).to_string(),
            6 => {
                let c = self.t.pick(&cos).name.clone();
                self.label("coercion-object-op");
                c
            }
            _ => self.t.pick(&nums).name.clone(),
        }
    }

    fn stmt_collections(&mut self, out: &mut String) {
        self.kinds.insert("collections");
        self.label("collections");
        let m = self.fresh("m");
        let a = self.prim(1);
        let b = self.prim(1);
        match self.t.below(4) {
            0 => out.push_str(&format!("const {m} = new Map([[{a}, 1], [{b}, 2]]);\n{m}.set('k', 3); {m}.delete({a});\nprint(show([...{m}.keys()]), {m}.size);\n")),
            1 => out.push_str(&format!("const {m} = new Set([{a}, {b}, {a}]);\nprint(show([...{m}]), {m}.has({b}));\n")),
            2 => out.push_str(&format!("const {m} = [{a}, {b}, 3].map((x, i) => [i, x]).filter(p => p[0] !== 1);\nprint(show({m}));\n")),
            _ => out.push_str(&format!("const {m} = Object.entries({{ x: {a}, y: {b} }}).reduce((acc, [k, v]) => acc + k + String(v), '');\nprint({m});\n")),
        }
    }

    /// Map/Set mutated while iterators are live: entries deleted / re-added / appended / cleared during
    /// `forEach`, `for-of` and manual iteration, with one iterator kept alive across the operations and
    /// others abandoned by `break` (they are only released by the collector). The visiting order and
    /// `size` are fully specified, whatever the internal tombstone/lock bookkeeping does.
    fn stmt_map_iter(&mut self, out: &mut String) {
        if !self.spend(60) {
            return self.stmt_print(out);
        }
        self.kinds.insert("map-iter");
        self.label("map-iter");
        let m = self.fresh("m");
        let is_set = self.t.chance(90);
        let (ctor, init, add) = if is_set { ("Set", "[1, 2, 3, 4]", "add") } else { ("Map", "[[1, 'a'], [2, 'b'], [3, 'c'], [4, 'd']]", "set") };
        // `{m}n` bounds how often a mutation inside an iteration can fire: re-adding the key that triggers
        // it would otherwise make the iteration endless (as the specification requires)
        out.push_str(&format!("const {m} = new {ctor}({init}); let {m}n = 0;\n"));
        let mut live: Vec<String> = vec![];
        let steps = 2 + self.t.below(6);
        for i in 0..steps {
            let k = 1 + self.t.below(6);
            let k2 = 1 + self.t.below(6);
            let addk = |key: usize| if is_set { format!("{m}.add({key})") } else { format!("{m}.set({key}, 'v{key}_{i}')") };
            let op = match self.t.below(6) {
                0 => format!("{m}.delete({k});"),
                1 => format!("{};", addk(k)),
                2 => format!("{m}.delete({k}); {};", addk(k)),
                3 => format!("{m}.delete({k}); {m}.delete({k2});"),
                4 if self.t.chance(60) => format!("{m}.clear(); {};", addk(k2)),
                _ => format!("{}; {m}.delete({k2});", addk(k + 6)),
            };
            match self.t.below(8) {
                0 => {
                    let it = format!("{m}i{i}");
                    let kind = *self.t.pick(&["keys", "values", "entries"]);
                    out.push_str(&format!("const {it} = {m}.{kind}(); print(show({it}.next()));\n"));
                    live.push(it);
                }
                1 => out.push_str(&format!("for (const e of {m}) {{ print('abandon', show(e)); break; }}\n")),
                2 => out.push_str(&format!("{m}.forEach(function (v, key) {{ print('each', show(key)); if (key === {k} && {m}n++ < 2) {{ {op} }} }});\n")),
                3 => out.push_str(&format!("for (const e of {m}.keys()) {{ print('of', show(e)); if (e === {k2} && {m}n++ < 2) {{ {op} }} }}\n")),
                4 => out.push_str(&format!("{m}.forEach(function (v, key) {{ if (key === {k} && {m}n++ < 2) {{ for (const q of {m}) {{ if (q !== undefined) break; }} {op} }} }});\n")),
                5 => {
                    if let Some(it) = live.last().cloned() {
                        out.push_str(&format!("print(show({it}.next()));\n"));
                    } else {
                        out.push_str(&format!("{op}\n"));
                    }
                }
                _ => out.push_str(&format!("{op}\n")),
            }
            if self.t.chance(100) {
                out.push_str(&format!("print({m}.size, show([...{m}.keys()]), {m}.has({k}));\n"));
            }
        }
        let _ = add;
        out.push_str(&format!("print({m}.size, show([...{m}]));\n"));
        for it in live {
            out.push_str(&format!("print(show([...{it}]));\n"));
        }
    }

    /// Anonymous function-like expressions in every position where the engine infers a `name` for them
    /// (property values under reserved-word keys, variable initialisers, assignment right-hand sides,
    /// destructuring defaults, class fields incl. private ones). An inferred name is not a binding: the
    /// body can still assign the outer variable of that name, and a reserved word is a legal inferred name.
    fn stmt_anon_naming(&mut self, out: &mut String) {
        self.kinds.insert("anon-naming");
        self.label("anon-naming");
        let id = self.fresh("an");
        let kinds = ["function", "function*", "async function", "async function*"];
        let k = *self.t.pick(&kinds);
        let is_gen = k.ends_with('*');
        let is_async = k.starts_with("async");
        let drive = |f: &str| -> String {
            match (is_gen, is_async) {
                (false, false) => format!("print(show({f}()));"),
                (true, false) => format!("print(show([...{f}()]));"),
                (false, true) => format!("{f}(); print(typeof {f});"),
                (true, true) => format!("{f}().next(); print(typeof {f});"),
            }
        };
        let y = if is_gen { "yield " } else { "return " };
        match self.t.below(6) {
            0 => {
                let key = *self.t.pick(&["return", "default", "new", "delete", "class", "if", "yield", "await", "null", "true", "typeof", "function", "this", "in", "let", "static", "get", "async"]);
                out.push_str(&format!("var {id} = {{ {key}: {k} () {{ {y}1; }}, other: class {{}} , arrow: () => 1 }};\nprint({id}.{key}.name, {id}.other.name, {id}.arrow.name);\n{}\n", drive(&format!("{id}.{key}"))));
            }
            1 => {
                // the body assigns the variable it is stored in
                let decl = *self.t.pick(&["let", "var"]);
                out.push_str(&format!("{decl} {id} = {k} () {{ {id} = 1; {y}typeof {id}; }};\nprint({id}.name);\ntry {{ {} }} catch (e) {{ print(show(e)); }}\nprint(typeof {id});\n", drive(&id)));
            }
            2 => {
                out.push_str(&format!("var {id}; {id} = {k} () {{ {y}typeof {id}; }};\nprint({id}.name);\n{}\n", drive(&id)));
            }
            3 => {
                out.push_str(&format!("var {{ {id} = {k} () {{ {y}2; }} }} = {{}};\nprint({id}.name);\n{}\n", drive(&id)));
            }
            4 => {
                out.push_str(&format!("class C{id} {{ static {id} = {k} () {{ {y}3; }}; #p{id} = {k} () {{ {y}4; }}; static default = {k} () {{ {y}5; }}; pn() {{ return this.#p{id}.name; }} }}\nprint(C{id}.{id}.name, C{id}.default.name, new C{id}().pn());\n{}\n", drive(&format!("C{id}.{id}"))));
            }
            _ => {
                // class expression: the inferred name is not an inner binding either
                out.push_str(&format!("let {id} = class {{ static m() {{ {id} = 7; return typeof {id}; }} }};\nprint({id}.name);\nprint({id}.m(), typeof {id});\n"));
            }
        }
    }

    fn stmt_iterable(&mut self, out: &mut String) {
        if !self.spend(40) {
            return self.stmt_print(out);
        }
        self.kinds.insert("iterable");
        self.label("custom-iterable");
        let tag = self.fresh("it");
        let mut n = self.t.below(4);
        let wr = if self.t.chance(200) { "true" } else { "false" };
        let a = self.fresh("d");
        let b = self.fresh("d");
        let mut which = self.t.below(9);
        if self.o.excl_f28_destructure_exhausted_iterator && (which == 2 || which == 6) && n < 2 {
            self.excluded.push("f28-destructure-exhausted-iterator");
            n = 2 + n;
        }
        if self.o.excl_f29_broken_iterator_in_pattern && which == 8 {
            self.excluded.push("f29-broken-iterator-in-pattern");
            which = 3;
        }
        match which {
            0 => out.push_str(&format!("for (const {a} of mkIt('{tag}', {n}, {wr})) {{ print('body', {a}); if ({a} === '{tag}1') break; }}\n")),
            1 => out.push_str(&format!("try {{ for (const {a} of mkIt('{tag}', {n}, {wr})) {{ print('body', {a}); if ({a} === '{tag}0') throw 'thrown in body'; }} }} catch (e) {{ print('caught', show(e)); }}\n")),
            2 => {
                out.push_str(&format!("const [{a}, {b} = 'dflt'] = mkIt('{tag}', {n}, {wr});\nprint(show({a}), show({b}));\n"));
                self.declare(&a, Kind::Const, Ty::Any);
                self.declare(&b, Kind::Const, Ty::Any);
            }
            3 => out.push_str(&format!("print(show([...mkIt('{tag}', {n}, {wr}), 'tail']));\n")),
            4 => out.push_str(&format!("print(show((function () {{ return arguments.length; }})(...mkIt('{tag}', {n}, {wr}), 1)));\n")),
            5 => out.push_str(&format!("{tag}L: for (const {a} of mkIt('{tag}a', {n}, {wr})) {{ for (const {b} of mkIt('{tag}b', 2, {wr})) {{ print('pair', {a}, {b}); if ({b} === '{tag}b0') continue {tag}L; }} }}\n")),
            6 => {
                out.push_str(&format!("const [{a}, ...{b}] = mkIt('{tag}', {n}, {wr});\nprint(show({a}), show({b}));\n"));
                self.declare(&a, Kind::Const, Ty::Any);
                self.declare(&b, Kind::Const, Ty::Arr);
            }
            7 => out.push_str(&format!("(function () {{ for (const {a} of mkIt('{tag}', {n}, {wr})) {{ try {{ if ({a}) return 'ret'; }} finally {{ print('finally in loop'); }} }} }})();\n")),
            _ => out.push_str(&format!("try {{ const [{a}] = {{ [Symbol.iterator]() {{ print('{tag} broken'); return {{ next() {{ print('{tag} next'); return 5; }} }}; }} }}; print(show({a})); }} catch (e) {{ print(show(e)); }}\n")),
        }
    }

    fn stmt_return_or_throw(&mut self, out: &mut String) {
        if self.flevel == 0 || self.depth == 0 {
            return self.stmt_print(out);
        }
        self.kinds.insert("return");
        let c = self.boolean(2);
        if self.t.chance(200) {
            let e = self.any(2);
            out.push_str(&format!("if ({c}) return {e};\n"));
        } else {
            out.push_str(&format!("if ({c}) throw {};\n", self.prim(1)));
        }
    }

    fn stmt(&mut self, out: &mut String) {
        if self.depth >= self.o.max_depth || self.t.exhausted() {
            return self.stmt_print(out);
        }
        let o = &self.o;
        let weights = [
            26,                  // decl
            22,                  // print
            14,                  // assign
            8,                   // if
            o.w_loop,            // loop
            o.w_switch,          // switch
            o.w_try,             // try
            12,                  // function
            o.w_closure,         // closure templates
            o.w_class,           // class
            o.w_destructure,     // destructure
            o.w_tdz,             // tdz
            o.w_label,           // labelled block
            o.w_eval,            // eval
            o.w_with,            // with
            o.w_deadcode,        // literal conditions
            o.w_literal,         // literal-heavy expr
            o.w_collections,     // Map/Set/array methods
            4,                   // return/throw
            o.w_destructure,     // custom iterables (iterator protocol, closing)
            o.w_closure / 2,     // captured block-scoped binding (thunk called at program end)
            o.w_try / 2,         // abrupt exits through nested capturing scopes
            o.w_collections + 1, // Map/Set mutated under live and abandoned iterators
            o.w_class / 2 + 1,   // anonymous functions/classes in name-inferring positions
        ];
        let mut choice = self.t.weighted(&weights);
        if self.in_finally > 0 && self.o.excl_f17_catch_in_finally && matches!(choice, 6 | 9 | 11 | 16 | 7 | 8 | 19 | 21 | 23) {
            // F17: an exception caught inside a finally block corrupts the pending completion
            // (templates 6/9/11/16 contain try/catch; 7/8 call functions right away, and a callee
            // that throws would be caught by an enclosing catch of this function)
            self.excluded.push("f17-catch-in-finally");
            choice = 1;
        }
        match choice {
            0 => self.stmt_decl(out),
            1 => self.stmt_print(out),
            2 => self.stmt_assign(out),
            3 => self.stmt_if(out),
            4 => self.stmt_loop(out),
            5 => self.stmt_switch(out),
            6 => self.stmt_try(out),
            7 => self.stmt_function(out),
            8 => self.stmt_closure(out),
            9 => self.stmt_class(out),
            10 => self.stmt_destructure(out),
            11 => self.stmt_tdz(out),
            12 => self.stmt_labelled_block(out),
            13 => self.stmt_eval(out),
            14 => self.stmt_with(out),
            15 => self.stmt_deadcode(out),
            16 => self.stmt_literal_expr(out),
            17 => self.stmt_collections(out),
            19 => self.stmt_iterable(out),
            20 => self.stmt_capture(out),
            21 => self.stmt_scope_exit(out),
            22 => self.stmt_map_iter(out),
            23 => self.stmt_anon_naming(out),
            _ => self.stmt_return_or_throw(out),
        }
    }

    pub fn program(mut self) -> Program {
        self.strict = self.t.chance(self.o.strict_chance);
        let mut body = String::new();
        if self.o.in_main {
            self.flevel = 1;
            self.scopes.push(vec![]);
        }
        let n = 2 + self.t.below(self.o.max_stmts.max(1));
        for _ in 0..n {
            self.stmt(&mut body);
        }
        // final value
        let tail = self.any(2);
        let mut src = String::new();
        if self.strict {
            src.push_str("'use strict';\n");
        }
        src.push_str(PRELUDE);
        if self.uses_caps {
            src.push_str("var __caps = [];\n");
        }
        if self.o.in_main {
            src.push_str("function main() {\n");
            src.push_str(&body);
            src.push_str(&format!("return {tail};\n}}\n"));
            if !self.o.no_call {
                src.push_str("main();\n");
            }
        } else {
            src.push_str(&body);
        }
        if self.uses_caps && !(self.o.in_main && self.o.no_call) {
            src.push_str("for (var __i = 0; __i < __caps.length; __i++) print(show(__caps[__i]()));\n");
        }
        if !self.o.in_main {
            src.push_str(&format!("{tail};\n"));
        }
        Program { src, labels: self.labels, stmt_kinds: self.kinds.len(), excluded: self.excluded, strict: self.strict }
    }
}

pub fn generate(tape: &[u8], opts: Opts) -> Program {
    Gen::new(tape, opts).program()
}
