//! Weak-observation programs for C10: WeakRef / FinalizationRegistry / WeakMap / WeakSet.
//! The generator knows which targets stay strongly reachable to the end (`kept`) and which are
//! dropped (`dropped`); cleanup callbacks print `cleanup <held>` lines, deref probes print
//! `deref <name> <alive|dead>` lines. Everything else must be identical under any GC schedule.

use crate::tape::Tape;

pub struct WeakProgram {
    pub src: String,
    /// held values of registrations whose target is dropped and not unregistered
    pub may_cleanup: Vec<String>,
    /// held values that must never be reported
    pub never_cleanup: Vec<String>,
    /// names whose deref may report dead (after their drop point, in a later job)
    pub may_die: Vec<String>,
    pub must_live: Vec<String>,
}

pub fn generate(tape: &[u8]) -> WeakProgram {
    let mut t = Tape::new(tape);
    let mut s = String::new();
    let mut may_cleanup = vec![];
    let mut never_cleanup = vec![];
    let mut may_die = vec![];
    let mut must_live = vec![];
    s.push_str("var keep = [], refs = {}, wm = new WeakMap(), ws = new WeakSet(), tokens = {};\n");
    s.push_str("var fr = new FinalizationRegistry(function (h) { print('cleanup ' + h); });\n");
    let n = 3 + t.below(10);
    // phase 1 (one job): create targets
    s.push_str("(function () {\n");
    for i in 0..n {
        let name = format!("t{i}");
        let kept = t.below(3) == 0;
        let payload = ["{ id: I }", "[I, I]", "function () { return I }", "new Map([[I, I]])", "{ self: null, id: I }"][t.below(5)].replace('I', &i.to_string());
        s.push_str(&format!("  var {name} = {payload};\n"));
        if payload.contains("self") {
            s.push_str(&format!("  {name}.self = {name};\n"));
        }
        if kept {
            s.push_str(&format!("  keep.push({name});\n"));
            must_live.push(name.clone());
        } else {
            may_die.push(name.clone());
        }
        s.push_str(&format!("  refs.{name} = new WeakRef({name});\n"));
        if t.bool() {
            let held = format!("h{i}");
            let unreg = t.below(4) == 0;
            if unreg {
                s.push_str(&format!("  tokens.{name} = {{}}; fr.register({name}, '{held}', tokens.{name});\n"));
                never_cleanup.push(held);
            } else {
                s.push_str(&format!("  fr.register({name}, '{held}');\n"));
                if kept { never_cleanup.push(held) } else { may_cleanup.push(held) }
            }
        }
        if t.bool() {
            s.push_str(&format!("  wm.set({name}, {{ v: {i}, back: {name} }}); ws.add({name});\n"));
        }
        // same-job deref: must be alive (KeepDuringJob)
        s.push_str(&format!("  print('same-job', refs.{name}.deref() === {name}, wm.has({name}) || !ws.has({name}));\n"));
    }
    // ephemeron chains: every key except the first is reachable ONLY through the value of another
    // WeakMap entry; entries are inserted in a tape-chosen order (the collector needs several
    // rounds of its ephemeron fix-point to keep them all)
    let chain_len = [0usize, 3, 4, 5, 6, 2][t.below(6)];
    if chain_len >= 2 {
        s.push_str("  var chainMaps = [new WeakMap(), new WeakMap()];\n  var c0 = { name: 'c0' }; keep.push(c0); refs.chainHead = c0; refs.chainMaps = chainMaps;\n");
        for i in 1..chain_len {
            s.push_str(&format!("  var c{i} = {{ name: 'c{i}' }};\n"));
        }
        let mut order: Vec<usize> = (0..chain_len).collect();
        if t.bool() {
            // reverse chain order: every entry is allocated before the entry that keeps its key alive
            order.reverse();
        } else {
            for i in (1..order.len()).rev() {
                let j = t.below(i + 1);
                order.swap(i, j);
            }
        }
        for i in order {
            let m = t.below(2);
            if i + 1 < chain_len {
                s.push_str(&format!("  chainMaps[{m}].set(c{i}, c{});\n", i + 1));
            } else {
                s.push_str(&format!("  chainMaps[{m}].set(c{i}, 'payload');\n"));
            }
        }
    }
    s.push_str("  for (var k in tokens) fr.unregister(tokens[k]);\n");
    // allocate garbage to give collections something to do
    s.push_str("  var junk = []; for (var j = 0; j < 40; j++) junk.push({ j: j, a: [j, j + 1], s: 'x' + j });\n  print('junk', junk.length);\n");
    s.push_str("})();\n");
    // later jobs: observe
    let jobs = 1 + t.below(3);
    s.push_str("var p = Promise.resolve();\n");
    for j in 0..jobs {
        s.push_str("p = p.then(function () {\n  var junk = []; for (var q = 0; q < 30; q++) junk.push([q, { q: q }]);\n");
        for name in must_live.iter().chain(may_die.iter()) {
            if t.bool() {
                s.push_str(&format!("  print('deref {name} ' + (refs.{name}.deref() === undefined ? 'dead' : 'alive'));\n"));
            }
        }
        if chain_len >= 2 {
            s.push_str("  var cur = refs.chainHead, names = [];\n  for (var step = 0; step < 8 && typeof cur === 'object' && cur !== null; step++) { names.push(cur.name); cur = refs.chainMaps[0].has(cur) ? refs.chainMaps[0].get(cur) : refs.chainMaps[1].get(cur); }\n  print('chain', names.join('>'), String(cur));\n");
        }
        s.push_str(&format!("  print('job {j}', keep.length, junk.length);\n}});\n"));
    }
    s.push_str("p.then(function () { print('kept ids', keep.map(function (x) { return typeof x }).join(',')); });\n");
    WeakProgram { src: s, may_cleanup, never_cleanup, may_die, must_live }
}
