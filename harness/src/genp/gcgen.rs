//! Generators of `boa_gc` operation histories for property C09: a tape-driven random generator
//! and a bounded-exhaustive enumerator (pre-order numbering of the tree of histories whose every
//! operation is applicable in the reference model's state).

use super::gcops::{H, Model, Op};
use crate::tape::Tape;
use std::collections::HashMap;

/// Finding C09-a: resurrection by a finalizer is only sound for an isolated node. If the
/// resurrected node holds handles, `run_finalizer` has already released the reference counts
/// behind them; if handles on the heap point to it, the second mark phase judges its rootedness
/// with the stale `non_root_count` of the first phase and frees it although the host now holds a
/// handle. The generators disarm such nodes right before the collect that would resurrect them.
pub const EXCLUDE_RESURRECT_NON_ISOLATED: bool = true;

pub struct Gen {
    pub ops: Vec<Op>,
    pub model: Model,
    pub excluded: u32,
}

impl Gen {
    pub fn new() -> Self {
        Self { ops: vec![], model: Model::new(), excluded: 0 }
    }
    /// Append an operation if it is applicable; applies the exclusion before collects.
    pub fn push(&mut self, op: Op) -> bool {
        if op == Op::Collect && EXCLUDE_RESURRECT_NON_ISOLATED {
            for n in self.model.resurrect_offenders() {
                if self.model.apply(Op::Disarm(n)).is_some() {
                    self.ops.push(Op::Disarm(n));
                    self.excluded += 1;
                }
            }
        }
        if self.model.apply(op).is_some() {
            self.ops.push(op);
            true
        } else {
            false
        }
    }
}

impl Default for Gen {
    fn default() -> Self {
        Self::new()
    }
}

// ---------------------------------------------------------------------------------------
// random histories

pub struct RandCfg {
    pub max_ops: usize,
    pub node_caps: &'static [u32],
}

const K_ALLOC: usize = 0;
const K_DROP: usize = 1;
const K_LINK: usize = 2;
const K_COLLECT: usize = 3;
const K_UNLINK: usize = 4;
const K_LOAD: usize = 5;
const K_CLONE: usize = 6;
const K_WEAK: usize = 7;
const K_UPGRADE: usize = 8;
const K_DROPWEAK: usize = 9;
const K_SHAREWEAK: usize = 10;
const K_EPH: usize = 11;
const K_EPHVAL: usize = 12;
const K_DROPEPH: usize = 13;
const K_MAP: usize = 14;
const K_MAPINS: usize = 15;
const K_MAPREM: usize = 16;
const K_MAPGET: usize = 17;
const K_DROPMAP: usize = 18;
const K_ARM: usize = 19;
const K_DISARM: usize = 20;
#[allow(dead_code)]
const K_PATTERN: usize = 21;
const NKINDS: usize = 22;

/// weight profiles: strong graphs, weak-heavy, ephemeron-heavy, map-heavy, resurrection-heavy, mixed
const PROFILES: [[u32; NKINDS]; 6] = [
    //  al  dr  li  co  ul  lo  cl  wk  up  dw  sw  ep  ev  de  mp  mi  mr  mg  dm  ar  da  pat
    [14, 16, 22, 8, 8, 6, 3, 2, 2, 1, 0, 0, 0, 0, 0, 0, 0, 0, 0, 0, 0, 3],
    [12, 14, 12, 8, 4, 4, 2, 12, 8, 3, 4, 0, 0, 0, 0, 0, 0, 0, 0, 1, 0, 3],
    [12, 14, 10, 8, 3, 3, 1, 2, 2, 1, 0, 14, 6, 3, 0, 0, 0, 0, 0, 0, 0, 5],
    [12, 14, 8, 8, 3, 3, 1, 1, 1, 0, 0, 2, 1, 0, 6, 14, 4, 5, 2, 0, 0, 5],
    [12, 14, 8, 9, 3, 3, 1, 3, 2, 1, 0, 2, 1, 0, 1, 2, 0, 1, 0, 10, 2, 5],
    [12, 14, 12, 8, 4, 4, 2, 5, 4, 2, 2, 6, 3, 2, 3, 6, 2, 3, 1, 3, 1, 4],
];

fn pick_node(t: &mut Tape, ids: &[u32]) -> Option<u32> {
    if ids.is_empty() { None } else { Some(ids[t.below(ids.len().min(65535))]) }
}

fn pick_holder(t: &mut Tape, ids: &[u32], host_weight: u32) -> H {
    if ids.is_empty() || t.chance(host_weight) { H::Host } else { H::Node(ids[t.below(ids.len().min(65535))]) }
}

/// holders (host first) satisfying a predicate
fn holders_with(m: &Model, ids: &[u32], f: impl Fn(&super::gcops::MHolder) -> bool) -> Vec<H> {
    let mut v = vec![];
    if f(&m.host) {
        v.push(H::Host);
    }
    for &n in ids {
        if m.node(n).is_some_and(|x| f(&x.h)) {
            v.push(H::Node(n));
        }
    }
    v
}

fn pick<T: Copy>(t: &mut Tape, v: &[T]) -> Option<T> {
    if v.is_empty() { None } else { Some(v[t.below(v.len().min(65535))]) }
}

pub fn random(tape: &[u8], cfg: &RandCfg) -> Gen {
    let mut t = Tape::new(tape);
    let mut g = Gen::new();
    let profile = t.below(PROFILES.len());
    let cap = cfg.node_caps[t.below(cfg.node_caps.len())];
    let w = PROFILES[profile];
    let mut next_id: u32 = 0;
    while !t.exhausted() && g.ops.len() < cfg.max_ops {
        let kind = t.weighted(&w);
        let ids = g.model.rooted_ids();
        let m = &g.model;
        let alloc = |g: &mut Gen, next_id: &mut u32| -> Option<u32> {
            if g.model.n_nodes >= u64::from(cap) || *next_id >= super::gcops::MAX_ID {
                return None;
            }
            let n = *next_id;
            *next_id += 1;
            g.push(Op::Alloc(n));
            Some(n)
        };
        let op: Option<Op> = match kind {
            K_ALLOC => {
                alloc(&mut g, &mut next_id);
                None
            }
            K_DROP => pick(&mut t, &m.host.edges).map(|n| Op::Unlink(H::Host, n)),
            K_LINK => {
                let a = pick_node(&mut t, &ids);
                let b = if t.chance(24) { a } else { pick_node(&mut t, &ids) };
                a.zip(b).map(|(a, b)| Op::Link(H::Node(a), b))
            }
            K_COLLECT => Some(Op::Collect),
            K_UNLINK => {
                let hs = holders_with(m, &ids, |h| !h.edges.is_empty());
                let hs: Vec<H> = hs.into_iter().filter(|h| *h != H::Host).collect();
                pick(&mut t, &hs).and_then(|h| pick(&mut t, &m.holder(h).edges).map(|b| Op::Unlink(h, b)))
            }
            K_LOAD => {
                let hs: Vec<H> = holders_with(m, &ids, |h| !h.edges.is_empty()).into_iter().filter(|h| *h != H::Host).collect();
                pick(&mut t, &hs).and_then(|h| match h {
                    H::Node(a) => pick(&mut t, &m.holder(h).edges).map(|b| Op::Load(a, b)),
                    H::Host => None,
                })
            }
            K_CLONE => pick_node(&mut t, &ids).map(|n| Op::Link(H::Host, n)),
            K_WEAK => {
                let h = pick_holder(&mut t, &ids, 100);
                pick_node(&mut t, &ids).map(|n| Op::Weak(h, n))
            }
            K_UPGRADE | K_DROPWEAK | K_SHAREWEAK => {
                let hs = holders_with(m, &ids, |h| !h.weaks.is_empty());
                pick(&mut t, &hs).and_then(|h| {
                    let e = pick(&mut t, &m.holder(h).weaks)?;
                    let super::gcops::MKey::Node(target) = m.ephs[e].key else { return None };
                    Some(match kind {
                        K_UPGRADE => Op::Upgrade(h, target, t.bool()),
                        K_DROPWEAK => Op::DropWeak(h, target),
                        _ => Op::ShareWeak(h, pick_holder(&mut t, &ids, 80), target),
                    })
                })
            }
            K_EPH => {
                let h = pick_holder(&mut t, &ids, 90);
                let k = pick_node(&mut t, &ids);
                let v = pick_node(&mut t, &ids);
                k.zip(v).map(|(k, v)| Op::Eph(h, k, v))
            }
            K_EPHVAL | K_DROPEPH => {
                let hs = holders_with(m, &ids, |h| !h.ephs.is_empty());
                pick(&mut t, &hs).and_then(|h| {
                    let e = pick(&mut t, &m.holder(h).ephs)?;
                    let (super::gcops::MKey::Node(k), Some(v)) = (m.ephs[e].key, m.ephs[e].val) else { return None };
                    Some(if kind == K_EPHVAL { Op::EphVal(h, k, v, t.bool()) } else { Op::DropEph(h, k, v) })
                })
            }
            K_MAP => {
                let hs = holders_with(m, &ids, |h| h.map.is_none());
                pick(&mut t, &hs).map(Op::Map)
            }
            K_MAPINS | K_MAPREM | K_MAPGET | K_DROPMAP => {
                let hs = holders_with(m, &ids, |h| h.map.is_some());
                pick(&mut t, &hs).and_then(|h| {
                    let mid = m.holder(h).map?;
                    // prefer keys that are in the map for remove/get
                    let entry_keys: Vec<u32> = m.maps[mid]
                        .entries
                        .iter()
                        .filter_map(|&e| match m.ephs[e].key {
                            super::gcops::MKey::Node(k) if m.rooted(k) => Some(k),
                            _ => None,
                        })
                        .collect();
                    match kind {
                        K_MAPINS => {
                            let k = pick_node(&mut t, &ids)?;
                            // the value is sometimes the holder itself (a cycle through the map)
                            let v = match h {
                                H::Node(a) if t.chance(64) => a,
                                _ => pick_node(&mut t, &ids)?,
                            };
                            Some(Op::MapIns(h, k, v))
                        }
                        K_MAPREM | K_MAPGET => {
                            let k = if !entry_keys.is_empty() && !t.chance(40) { pick(&mut t, &entry_keys)? } else { pick_node(&mut t, &ids)? };
                            Some(if kind == K_MAPREM { Op::MapRem(h, k) } else { Op::MapGet(h, k, t.bool()) })
                        }
                        _ => Some(Op::DropMap(h)),
                    }
                })
            }
            K_ARM => pick_node(&mut t, &ids).map(Op::Arm),
            K_DISARM => {
                let armed: Vec<u32> = m.armed.keys().copied().collect();
                pick(&mut t, &armed).map(Op::Disarm)
            }
            _ => {
                // small patterns that random single steps reach only slowly
                match t.below(5) {
                    0 => {
                        // cycle of 2..4 fresh nodes, all but possibly one handle dropped
                        let len = 2 + t.below(3);
                        let ns: Vec<u32> = (0..len).filter_map(|_| alloc(&mut g, &mut next_id)).collect();
                        if ns.len() >= 2 {
                            for i in 0..ns.len() {
                                g.push(Op::Link(H::Node(ns[i]), ns[(i + 1) % ns.len()]));
                            }
                            let keep = t.below(ns.len() + 1);
                            for (i, &n) in ns.iter().enumerate() {
                                if i != keep {
                                    g.push(Op::Unlink(H::Host, n));
                                }
                            }
                        }
                    }
                    1 => {
                        // ephemeron whose key is reachable only from its value
                        if let (Some(k), Some(v)) = (alloc(&mut g, &mut next_id), alloc(&mut g, &mut next_id)) {
                            g.push(Op::Link(H::Node(v), k));
                            let h = match t.below(4) {
                                0 => H::Node(v),
                                1 => H::Node(k),
                                2 => pick_holder(&mut t, &ids, 0),
                                _ => H::Host,
                            };
                            g.push(Op::Eph(h, k, v));
                            g.push(Op::Unlink(H::Host, k));
                            if t.chance(200) {
                                g.push(Op::Unlink(H::Host, v));
                            }
                        }
                    }
                    2 => {
                        // weak map held by a node; an entry whose value points back to the holder
                        if let (Some(a), Some(k)) = (alloc(&mut g, &mut next_id), alloc(&mut g, &mut next_id)) {
                            g.push(Op::Map(H::Node(a)));
                            let v = if t.bool() { a } else { alloc(&mut g, &mut next_id).unwrap_or(a) };
                            g.push(Op::MapIns(H::Node(a), k, v));
                            if v != a {
                                if t.bool() {
                                    g.push(Op::Link(H::Node(v), k));
                                }
                                g.push(Op::Unlink(H::Host, v));
                            }
                            if t.bool() {
                                g.push(Op::Unlink(H::Host, k));
                            }
                        }
                    }
                    3 => {
                        // resurrection of a leaf that something else points to
                        if let Some(r) = alloc(&mut g, &mut next_id) {
                            g.push(Op::Arm(r));
                            if let Some(x) = pick_node(&mut t, &ids) {
                                if t.chance(24) {
                                    g.push(Op::Link(H::Node(x), r));
                                } else {
                                    g.push(Op::Weak(if t.bool() { H::Node(x) } else { H::Host }, r));
                                }
                                if t.bool() {
                                    g.push(Op::Unlink(H::Host, x));
                                }
                            }
                            g.push(Op::Unlink(H::Host, r));
                        }
                    }
                    _ => {
                        // chain hanging off one rooted node
                        let len = 2 + t.below(4);
                        let ns: Vec<u32> = (0..len).filter_map(|_| alloc(&mut g, &mut next_id)).collect();
                        for wdw in ns.windows(2) {
                            g.push(Op::Link(H::Node(wdw[0]), wdw[1]));
                        }
                        for &n in ns.iter().skip(1) {
                            g.push(Op::Unlink(H::Host, n));
                        }
                    }
                }
                None
            }
        };
        if let Some(op) = op {
            g.push(op);
        }
    }
    g.push(Op::Collect);
    g
}

// ---------------------------------------------------------------------------------------
// bounded-exhaustive enumeration

#[derive(Clone, Copy, Debug)]
pub struct Alpha {
    pub max_nodes: u32,
    pub clone: bool,
    pub load: bool,
    pub host_weak: bool,
    pub node_weak: bool,
    pub share_weak: bool,
    pub drop_weak: bool,
    pub host_eph: bool,
    pub node_eph: bool,
    pub host_map: bool,
    pub node_map: bool,
    pub arm: bool,
}

impl Alpha {
    pub const FULL: Alpha = Alpha {
        max_nodes: 3,
        clone: true,
        load: true,
        host_weak: true,
        node_weak: true,
        share_weak: true,
        drop_weak: true,
        host_eph: true,
        node_eph: true,
        host_map: true,
        node_map: true,
        arm: true,
    };
    /// the full alphabet without weak-handle sharing/dropping, one more node may be allocated
    pub const SEEDED: Alpha = Alpha {
        max_nodes: 4,
        clone: false,
        load: true,
        host_weak: true,
        node_weak: true,
        share_weak: false,
        drop_weak: false,
        host_eph: true,
        node_eph: true,
        host_map: true,
        node_map: true,
        arm: true,
    };
    pub const STRONG: Alpha = Alpha {
        max_nodes: 3,
        clone: true,
        load: true,
        host_weak: true,
        node_weak: true,
        share_weak: false,
        drop_weak: false,
        host_eph: false,
        node_eph: false,
        host_map: false,
        node_map: false,
        arm: true,
    };
    pub const EPH: Alpha = Alpha {
        max_nodes: 3,
        clone: false,
        load: false,
        host_weak: false,
        node_weak: false,
        share_weak: false,
        drop_weak: false,
        host_eph: true,
        node_eph: true,
        host_map: true,
        node_map: true,
        arm: false,
    };
}

/// The operations of the alphabet that are applicable in state `m`, in canonical order. Pure
/// observations (upgrade/value/get whose result is dropped) are left out: the checker performs
/// all of them after every collect anyway.
pub fn enabled(m: &Model, a: &Alpha) -> Vec<Op> {
    let mut v = vec![];
    let ids = m.rooted_ids();
    if m.created_nodes < a.max_nodes {
        v.push(Op::Alloc(m.created_nodes));
    }
    if m.since_collect > 0 || m.last_collect_effect {
        v.push(Op::Collect);
    }
    for &n in &ids {
        v.push(Op::Unlink(H::Host, n));
    }
    if a.clone {
        for &n in &ids {
            if m.host.edges.iter().filter(|&&x| x == n).count() == 1 {
                v.push(Op::Link(H::Host, n));
            }
        }
    }
    for &x in &ids {
        for &y in &ids {
            if !m.holder(H::Node(x)).edges.contains(&y) {
                v.push(Op::Link(H::Node(x), y));
            }
        }
    }
    for &x in &ids {
        let mut seen = vec![];
        for &y in &m.holder(H::Node(x)).edges {
            if !seen.contains(&y) {
                seen.push(y);
                v.push(Op::Unlink(H::Node(x), y));
                if a.load && !m.rooted(y) {
                    v.push(Op::Load(x, y));
                }
            }
        }
    }
    let mut holders: Vec<H> = vec![H::Host];
    holders.extend(ids.iter().map(|&n| H::Node(n)));
    for &h in &holders {
        let is_host = h == H::Host;
        let weak_ok = if is_host { a.host_weak } else { a.node_weak };
        let eph_ok = if is_host { a.host_eph } else { a.node_eph };
        let map_ok = if is_host { a.host_map } else { a.node_map };
        if weak_ok {
            for &t in &ids {
                if m.find_weak(h, t).is_none() {
                    v.push(Op::Weak(h, t));
                }
            }
        }
        // weak handles this holder has (also to unrooted / dead targets)
        let mut targets: Vec<u32> = vec![];
        for &e in &m.holder(h).weaks {
            if let super::gcops::MKey::Node(t) = m.ephs[e].key {
                if !targets.contains(&t) {
                    targets.push(t);
                }
            }
        }
        for &t in &targets {
            if !m.rooted(t) {
                v.push(Op::Upgrade(h, t, true));
            }
            if a.drop_weak {
                v.push(Op::DropWeak(h, t));
            }
            if a.share_weak {
                for &h2 in &holders {
                    if h2 != h && m.find_weak(h2, t).is_none() {
                        v.push(Op::ShareWeak(h, h2, t));
                    }
                }
            }
        }
        if eph_ok {
            for &k in &ids {
                for &val in &ids {
                    if m.find_eph(h, k, val).is_none() {
                        v.push(Op::Eph(h, k, val));
                    }
                }
            }
        }
        let mut kvs: Vec<(u32, u32)> = vec![];
        for &e in &m.holder(h).ephs {
            if let (super::gcops::MKey::Node(k), Some(val)) = (m.ephs[e].key, m.ephs[e].val) {
                if !kvs.contains(&(k, val)) {
                    kvs.push((k, val));
                }
            }
        }
        for &(k, val) in &kvs {
            if !m.rooted(val) {
                v.push(Op::EphVal(h, k, val, true));
            }
            v.push(Op::DropEph(h, k, val));
        }
        match m.holder(h).map {
            None => {
                if map_ok {
                    v.push(Op::Map(h));
                }
            }
            Some(mid) => {
                v.push(Op::DropMap(h));
                for &k in &ids {
                    match m.find_entry(mid, k) {
                        Some(i) => {
                            v.push(Op::MapRem(h, k));
                            let val = m.ephs[m.maps[mid].entries[i]].val.unwrap_or(0);
                            if !m.rooted(val) {
                                v.push(Op::MapGet(h, k, true));
                            }
                            for &nv in &ids {
                                if nv != val {
                                    v.push(Op::MapIns(h, k, nv));
                                }
                            }
                        }
                        None => {
                            for &nv in &ids {
                                v.push(Op::MapIns(h, k, nv));
                            }
                        }
                    }
                }
            }
        }
    }
    if a.arm {
        for &n in &ids {
            if !m.armed.contains_key(&n) {
                v.push(Op::Arm(n));
            }
        }
    }
    v
}

/// One transition of the enumeration tree: the exclusion of finding C09-a is applied exactly as
/// `Gen::push` applies it when the history is finally built.
pub fn step(m: &mut Model, op: Op) {
    if op == Op::Collect && EXCLUDE_RESURRECT_NON_ISOLATED {
        for n in m.resurrect_offenders() {
            m.apply(Op::Disarm(n));
        }
    }
    m.apply(op);
}

/// Pre-order enumeration of all histories of at most `depth` enabled operations.
pub struct Enumerator {
    pub alpha: Alpha,
    pub depth: u8,
    /// fixed operations every enumerated history starts with (a seed graph)
    pub prefix: Vec<Op>,
    memo: HashMap<(Vec<u8>, u8), u64>,
}

impl Enumerator {
    pub fn new(alpha: Alpha, depth: u8) -> Self {
        Self { alpha, depth, prefix: vec![], memo: HashMap::new() }
    }
    pub fn with_prefix(mut self, prefix: &[Op]) -> Self {
        self.prefix = prefix.to_vec();
        self
    }
    fn start(&self) -> Model {
        let mut m = Model::new();
        for &op in &self.prefix {
            step(&mut m, op);
        }
        m
    }

    /// number of histories of length <= d starting in state m (including the empty one)
    pub fn count(&mut self, m: &Model, d: u8) -> u64 {
        if d == 0 {
            return 1;
        }
        let key = (m.key(), d);
        if let Some(&c) = self.memo.get(&key) {
            return c;
        }
        let mut total = 1u64;
        for op in enabled(m, &self.alpha) {
            let mut c = m.clone();
            step(&mut c, op);
            total += self.count(&c, d - 1);
        }
        self.memo.insert(key, total);
        total
    }

    pub fn memo_len(&self) -> usize {
        self.memo.len()
    }

    pub fn total(&mut self) -> u64 {
        let d = self.depth;
        let m = self.start();
        self.count(&m, d)
    }

    /// the history with pre-order number `index`
    pub fn unrank(&mut self, index: u64) -> Vec<Op> {
        let mut ops = self.prefix.clone();
        let mut m = self.start();
        let mut d = self.depth;
        let mut idx = index;
        'outer: while idx > 0 && d > 0 {
            idx -= 1;
            for op in enabled(&m, &self.alpha) {
                let mut c = m.clone();
                step(&mut c, op);
                let n = self.count(&c, d - 1);
                if idx < n {
                    ops.push(op);
                    m = c;
                    d -= 1;
                    continue 'outer;
                }
                idx -= n;
            }
            break;
        }
        ops
    }
}
