pub mod arb;
pub mod prog;
pub mod wild;
