pub mod prog;
