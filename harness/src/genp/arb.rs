//! The maintainers' own generator: `Arbitrary`-derived `StatementList` printed to source
//! (same construction as /repo/tests/fuzz/fuzz_targets/common.rs).

use arbitrary::{Arbitrary, Unstructured};
use boa_ast::{
    Expression, StatementList,
    visitor::{VisitWith, VisitorMut},
};
use boa_interner::{Interner, Sym, ToInternedString};
use std::ops::ControlFlow;

pub struct FuzzData {
    pub interner: Interner,
    pub ast: StatementList,
}

struct FuzzReplacer<'s> {
    syms: &'s [Sym],
}
impl<'ast> VisitorMut<'ast> for FuzzReplacer<'_> {
    type BreakTy = ();
    fn visit_expression_mut(&mut self, node: &'ast mut Expression) -> ControlFlow<Self::BreakTy> {
        node.visit_with_mut(self)
    }
    fn visit_sym_mut(&mut self, node: &'ast mut Sym) -> ControlFlow<Self::BreakTy> {
        *node = self.syms[node.get() % self.syms.len()];
        ControlFlow::Continue(())
    }
}

pub fn arb_ast(tape: &[u8]) -> Option<FuzzData> {
    let mut u = Unstructured::new(tape);
    let mut interner = Interner::with_capacity(8);
    let mut syms = Vec::with_capacity(8);
    for c in 'a'..='h' {
        syms.push(interner.get_or_intern(&*String::from(c)));
    }
    let mut ast = StatementList::arbitrary(&mut u).ok()?;
    let mut r = FuzzReplacer { syms: &syms };
    let _ = r.visit_statement_list_mut(&mut ast);
    Some(FuzzData { interner, ast })
}

/// Source text printed from an arbitrary AST (may or may not re-parse).
pub fn arb_source(tape: &[u8]) -> Option<String> {
    let d = std::panic::catch_unwind(|| arb_ast(tape)).ok()??;
    let printed = std::panic::catch_unwind(std::panic::AssertUnwindSafe(|| d.ast.to_interned_string(&d.interner))).ok()?;
    Some(printed)
}
