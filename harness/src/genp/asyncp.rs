//! Racing promise/async programs (C16): 2-6 independent chains whose every callback prints, so
//! the interleaving of reaction jobs, await continuations and async-generator steps is observable.

use crate::genp::prog::PRELUDE;
use crate::tape::Tape;

pub struct AsyncProgram {
    pub src: String,
    pub chains: usize,
    pub has_thenable_or_asyncgen: bool,
    pub labels: Vec<&'static str>,
}

fn value(t: &mut Tape<'_>, tag: &str, labels: &mut Vec<&'static str>, special: &mut bool) -> String {
    match t.below(9) {
        0 | 1 => format!("'{tag}v'"),
        2 => format!("Promise.resolve('{tag}p')"),
        3 => {
            *special = true;
            if !labels.contains(&"thenable") { labels.push("thenable"); }
            format!("{{ then(r) {{ print('{tag} thenable.then'); r('{tag}t'); }} }}")
        }
        4 => {
            *special = true;
            if !labels.contains(&"thenable-getter") { labels.push("thenable-getter"); }
            format!("{{ get then() {{ print('{tag} get then'); return function (r) {{ print('{tag} then run'); r('{tag}g'); }}; }} }}")
        }
        5 => {
            if !labels.contains(&"rejected-input") { labels.push("rejected-input"); }
            format!("Promise.reject('{tag}r')")
        }
        6 => {
            *special = true;
            if !labels.contains(&"thenable") { labels.push("thenable"); }
            format!("{{ then(r, j) {{ print('{tag} thenable rejects'); j('{tag}tj'); }} }}")
        }
        7 => {
            if !labels.contains(&"nested-promise") { labels.push("nested-promise"); }
            format!("new Promise(function (res) {{ print('{tag} inner exec'); res(Promise.resolve('{tag}n')); }})")
        }
        _ => {
            *special = true;
            if !labels.contains(&"subclass-promise") { labels.push("subclass-promise"); }
            format!("(class P2 extends Promise {{}}).resolve('{tag}s')")
        }
    }
}

pub fn generate(tape: &[u8]) -> AsyncProgram {
    let mut t = Tape::new(tape);
    let mut s = String::from(PRELUDE);
    let mut labels: Vec<&'static str> = vec![];
    let mut special = false;
    s.push_str("function ok(tag) { return function (v) { print(tag + ' ok ' + show(v)); return v; }; }\nfunction er(tag) { return function (e) { print(tag + ' er ' + show(e)); return 'recovered'; }; }\n");
    let n = 2 + t.below(5);
    for c in 0..n {
        let tag = format!("c{c}");
        let mut lab = |l: &'static str, labels: &mut Vec<&'static str>| {
            if !labels.contains(&l) {
                labels.push(l);
            }
        };
        match t.below(10) {
            0 | 1 => {
                // then chain of length L
                let v = value(&mut t, &tag, &mut labels, &mut special);
                let l = 1 + t.below(5);
                s.push_str(&format!("Promise.resolve({v})"));
                for k in 0..l {
                    match t.below(6) {
                        0 => s.push_str(&format!(".then(ok('{tag}.{k}'), er('{tag}.{k}'))")),
                        1 => s.push_str(&format!(".catch(er('{tag}.{k}'))")),
                        2 => {
                            s.push_str(&format!(".finally(function () {{ print('{tag}.{k} finally'); }})"));
                            lab("finally", &mut labels);
                        }
                        3 => {
                            let v2 = value(&mut t, &format!("{tag}.{k}"), &mut labels, &mut special);
                            s.push_str(&format!(".then(function (v) {{ print('{tag}.{k} returns'); return {v2}; }})"));
                        }
                        4 => {
                            s.push_str(&format!(".then(function (v) {{ print('{tag}.{k} throws'); throw '{tag}x'; }})"));
                            lab("throw-in-then", &mut labels);
                        }
                        _ => s.push_str(&format!(".then(ok('{tag}.{k}'))")),
                    }
                }
                s.push_str(&format!(".then(ok('{tag}.end'), er('{tag}.end'));\n"));
                lab("then-chain", &mut labels);
            }
            2 => {
                let v = value(&mut t, &tag, &mut labels, &mut special);
                s.push_str(&format!("new Promise(function (res, rej) {{ print('{tag} exec'); res({v}); res('again'); rej('late'); }}).then(ok('{tag}.a'), er('{tag}.a')).then(ok('{tag}.b'));\n"));
                lab("executor", &mut labels);
            }
            3 | 4 => {
                // async function with awaits
                let k = 1 + t.below(4);
                s.push_str(&format!("(async function {tag}() {{\n  print('{tag} start');\n"));
                for i in 0..k {
                    let v = value(&mut t, &format!("{tag}.{i}"), &mut labels, &mut special);
                    match t.below(4) {
                        0 => s.push_str(&format!("  try {{ print('{tag}.{i} got ' + show(await {v})); }} catch (e) {{ print('{tag}.{i} caught ' + show(e)); }}\n")),
                        1 => s.push_str(&format!("  try {{ var x{i} = await {v}; print('{tag}.{i} got ' + show(x{i})); }} catch (e) {{ print('{tag}.{i} caught ' + show(e)); }} finally {{ print('{tag}.{i} finally'); }}\n")),
                        2 => s.push_str(&format!("  print('{tag}.{i} got ' + show(await {v}.then ? 1 : 0));\n").replace(".then ? 1 : 0", "")),
                        _ => s.push_str(&format!("  await null; print('{tag}.{i} after await null');\n")),
                    }
                }
                let v = value(&mut t, &format!("{tag}.ret"), &mut labels, &mut special);
                if t.bool() {
                    s.push_str(&format!("  return {v};\n"));
                    lab("async-return", &mut labels);
                } else {
                    s.push_str(&format!("  try {{ return await {v}; }} catch (e) {{ print('{tag} ret caught ' + show(e)); return 'rc'; }}\n"));
                    lab("async-return-await", &mut labels);
                }
                s.push_str(&format!("}})().then(ok('{tag}.end'), er('{tag}.end'));\n"));
                lab("async-function", &mut labels);
            }
            5 => {
                // async generator with queued next() calls
                special = true;
                let k = 1 + t.below(3);
                let mut has_yield_star = false;
                s.push_str(&format!("var {tag}g = (async function* () {{\n  print('{tag} gen start');\n"));
                for i in 0..k {
                    let v = value(&mut t, &format!("{tag}.{i}"), &mut labels, &mut special);
                    if t.chance(60) {
                        s.push_str(&format!("  try {{ yield* [1, {v}]; }} catch (e) {{ print('{tag}.{i} gen caught ' + show(e)); }}\n"));
                        has_yield_star = true;
                        lab("yield-star", &mut labels);
                    } else {
                        s.push_str(&format!("  try {{ var y{i} = yield {v}; print('{tag}.{i} resumed ' + show(y{i})); }} catch (e) {{ print('{tag}.{i} gen caught ' + show(e)); }}\n"));
                    }
                }
                s.push_str(&format!("  return '{tag}done';\n}})();\n"));
                let calls = 1 + t.below(5);
                for i in 0..calls {
                    // a request is made either synchronously or from a later microtask tick (so it can arrive while
                    // the generator is running, suspended, or draining its queue behind an awaited return)
                    let ticks = if t.chance(90) { 1 + t.below(4) } else { 0 };
                    let call = match t.below(6) {
                        // (return() during `yield*` over a sync iterable: same ES2024 vs node-20 difference)
                        0 if !has_yield_star => {
                            let arg = if t.bool() { format!("'{tag}early'") } else { value(&mut t, &format!("{tag}.ra{i}"), &mut labels, &mut special) };
                            format!("{tag}g.return({arg}).then(ok('{tag}.r{i}'), er('{tag}.r{i}'));")
                        }
                        // throw() while suspended in `yield*` over a sync iterable without a throw method:
                        // ES2024 closes the iterator and rejects with a TypeError, V8 in node 20 still
                        // forwards the value; the reference cannot be used there
                        1 if !has_yield_star => format!("{tag}g.throw('{tag}thrown').then(ok('{tag}.t{i}'), er('{tag}.t{i}'));"),
                        _ => format!("{tag}g.next('{tag}in{i}').then(ok('{tag}.n{i}'), er('{tag}.n{i}'));"),
                    };
                    if ticks == 0 {
                        s.push_str(&call);
                        s.push('\n');
                    } else {
                        lab("asyncgen-late-request", &mut labels);
                        s.push_str("Promise.resolve()");
                        for _ in 1..ticks {
                            s.push_str(".then(function () {})");
                        }
                        s.push_str(&format!(".then(function () {{ print('{tag} late{i}'); {call} }});\n"));
                    }
                }
                lab("async-generator", &mut labels);
            }
            6 => {
                // for await over sync iterable of mixed values / async iterable
                special = true;
                let k = 1 + t.below(3);
                let mut vals = vec![];
                for i in 0..k {
                    vals.push(value(&mut t, &format!("{tag}.{i}"), &mut labels, &mut special));
                }
                s.push_str(&format!("(async function () {{ try {{ for await (var v of [{}]) {{ print('{tag} item ' + show(v)); }} }} catch (e) {{ print('{tag} loop caught ' + show(e)); }} print('{tag} loop end'); }})();\n", vals.join(", ")));
                lab("for-await", &mut labels);
            }
            7 => {
                let k = 2 + t.below(3);
                let mut vals = vec![];
                for i in 0..k {
                    vals.push(value(&mut t, &format!("{tag}.{i}"), &mut labels, &mut special));
                }
                let comb = *t.pick(&["all", "allSettled", "race", "any"]);
                s.push_str(&format!("Promise.{comb}([{}]).then(ok('{tag}.{comb}'), er('{tag}.{comb}'));\n", vals.join(", ")));
                lab("combinator", &mut labels);
            }
            8 => {
                // promise resolved later by another chain
                s.push_str(&format!("var {tag}res; var {tag}p = new Promise(function (r) {{ {tag}res = r; }}); {tag}p.then(ok('{tag}.late'));\nPromise.resolve().then(function () {{ print('{tag} resolving'); {tag}res('{tag}late'); }}).then(ok('{tag}.after'));\n"));
                lab("deferred", &mut labels);
            }
            _ => {
                // async arrow + await in a loop
                let k = 1 + t.below(3);
                s.push_str(&format!("(async () => {{ for (let i = 0; i < {k}; i++) {{ await undefined; print('{tag} tick ' + i); }} return '{tag}done'; }})().then(ok('{tag}.end'));\n"));
                lab("await-loop", &mut labels);
            }
        }
    }
    s.push_str("print('sync end');\n");
    AsyncProgram { src: s, chains: n, has_thenable_or_asyncgen: special, labels }
}
