//! C11 support: the code-unit alphabet, tape-driven generators of code-unit sequences, and the
//! naive reference model of every string operation over a plain `[u16]`.
//!
//! Nothing in this file touches `boa_string`; the model is written from the ECMAScript
//! definitions (UTF-16 decoding, WhiteSpace/LineTerminator, StringIndexOf, StringToNumber).

use crate::tape::Tape;

pub const ASTRAL: [u16; 2] = [0xD83D, 0xDE00];

/// The alphabet of DESIGN.md §C11 (18 symbols, the last one is two code units).
pub const ALPHA: [&[u16]; 18] = [
    &[0x61],
    &[0x5A],
    &[0x30],
    &[0x20],
    &[0x7F],
    &[0x80],
    &[0xE9],
    &[0xFF],
    &[0x100],
    &[0x3C0],
    &[0x2028],
    &[0xFEFF],
    &[0xD800],
    &[0xDBFF],
    &[0xDC00],
    &[0xDFFF],
    &[0xFFFF],
    &ASTRAL,
];

/// Extra units used only by the random stream (whitespace classes, digits, UTF-8 lead/trail bytes).
pub const EXTRA: [u16; 28] = [
    0x09, 0x0A, 0x0D, 0xA0, 0x85, 0x31, 0x39, 0x2E, 0x2D, 0x2B, 0x65, 0x78, 0x62, 0x6F, 0x5F, 0x3000, 0x1680, 0x180E, 0x200A, 0x200B, 0xC3, 0xA9, 0x00, 0xFFFE,
    0xD7FF, 0xE000, 0xC2, 0xBF,
];

pub const WORDS: [&str; 14] = ["length", "prototype", "constructor", "Symbol.iterator", "Array", "a", "Z", "NFC", "NFKD", "default", "number", "string", "name", "x"];

/// Number of symbol sequences of length <= maxlen.
pub fn exhaustive_count(maxlen: u32) -> u64 {
    (0..=maxlen).map(|k| (ALPHA.len() as u64).pow(k)).sum()
}

/// The `idx`-th symbol sequence in (length, lexicographic) order.
pub fn seq_of_index(mut idx: u64) -> Vec<u16> {
    let n = ALPHA.len() as u64;
    let mut len = 0u32;
    let mut block = 1u64;
    while idx >= block {
        idx -= block;
        block *= n;
        len += 1;
    }
    let mut digits = vec![0usize; len as usize];
    for d in digits.iter_mut().rev() {
        *d = (idx % n) as usize;
        idx /= n;
    }
    digits.into_iter().flat_map(|d| ALPHA[d].iter().copied()).collect()
}

pub fn hex_units(u: &[u16]) -> String {
    if u.is_empty() {
        return "-".into();
    }
    u.iter().map(|x| format!("{x:04x}")).collect::<Vec<_>>().join(" ")
}

pub fn parse_hex_units(s: &str) -> Option<Vec<u16>> {
    let s = s.trim();
    if s == "-" || s.is_empty() {
        return Some(vec![]);
    }
    s.split_whitespace().map(|t| u16::from_str_radix(t, 16).ok()).collect()
}

/// What kind of sequence the random generator produced (label).
pub struct GenUnits {
    pub units: Vec<u16>,
    pub mode: &'static str,
}

fn alpha_unit(t: &mut Tape) -> Vec<u16> {
    ALPHA[t.below(ALPHA.len())].to_vec()
}

/// A code-unit sequence of at most `maxlen` units decoded from the tape.
pub fn gen_units(t: &mut Tape, maxlen: usize) -> GenUnits {
    let mode = t.weighted(&[44, 14, 8, 12, 12, 10]);
    let len_class = t.weighted(&[40, 40, 20]);
    let len = match len_class {
        0 => t.below(5),
        1 => 5 + t.below(12),
        _ => 17 + t.below(48),
    }
    .min(maxlen);
    let mut u: Vec<u16> = vec![];
    let name = match mode {
        0 => {
            // the alphabet, with a few extras and raw units
            while u.len() < len {
                match t.weighted(&[200, 40, 16]) {
                    0 => u.extend(alpha_unit(t)),
                    1 => u.push(EXTRA[t.below(EXTRA.len())]),
                    _ => u.push(t.u16()),
                }
            }
            "alphabet"
        }
        1 => {
            // Latin-1 only, heavy on bytes >= 0x80
            const L1: [u16; 12] = [0x61, 0x30, 0x20, 0x7F, 0x80, 0xE9, 0xFF, 0xA0, 0xC3, 0xA9, 0x85, 0xBF];
            while u.len() < len {
                if t.chance(40) {
                    u.push(u16::from(t.u8()));
                } else {
                    u.push(L1[t.below(L1.len())]);
                }
            }
            "latin1-only"
        }
        2 => {
            let w = WORDS[t.below(WORDS.len())];
            u = w.encode_utf16().collect();
            match t.below(4) {
                0 | 1 => {}
                2 => u.extend(alpha_unit(t)),
                _ => {
                    if !u.is_empty() {
                        let i = t.below(u.len());
                        u[i] = alpha_unit(t)[0];
                    }
                }
            }
            "static-word"
        }
        3 => {
            // numeric-looking text for to_number
            const WS: [u16; 6] = [0x20, 0x09, 0xA0, 0xFEFF, 0x2028, 0x0A];
            const BODY: [&str; 22] =
                ["0", "1", "9", ".", "-", "+", "e", "E", "Infinity", "0x", "0b", "0o", "0X1f", "12", "5e3", "1.5", "00", "a", "_", "0b102", "0o78", " "];
            for _ in 0..t.below(3) {
                u.push(WS[t.below(WS.len())]);
            }
            for _ in 0..(1 + t.below(5)) {
                u.extend(BODY[t.below(BODY.len())].encode_utf16());
            }
            for _ in 0..t.below(3) {
                u.push(WS[t.below(WS.len())]);
            }
            if t.chance(24) {
                u.extend(alpha_unit(t));
            }
            "numeric"
        }
        4 => {
            // whitespace-padded (trim paths), both Latin-1 and non-Latin-1 whitespace
            const WS: [u16; 12] = [0x20, 0x09, 0x0A, 0x0D, 0xA0, 0x0B, 0x0C, 0xFEFF, 0x2028, 0x3000, 0x1680, 0x85];
            for _ in 0..t.below(4) {
                u.push(WS[t.below(WS.len())]);
            }
            for _ in 0..t.below(len.max(1)) {
                u.extend(alpha_unit(t));
            }
            for _ in 0..t.below(4) {
                u.push(WS[t.below(WS.len())]);
            }
            "ws-padded"
        }
        _ => {
            // surrogate-heavy
            const S: [u16; 8] = [0xD800, 0xDBFF, 0xDC00, 0xDFFF, 0xD83D, 0xDE00, 0x61, 0xE9];
            while u.len() < len {
                u.push(S[t.below(S.len())]);
            }
            "surrogates"
        }
    };
    u.truncate(maxlen);
    GenUnits { units: u, mode: name }
}

/// The UTF-8 bytes of the (valid) string `u`, each byte widened to a code unit.
pub fn utf8_as_latin1(u: &[u16]) -> Option<Vec<u16>> {
    let s = m_to_string(u)?;
    Some(s.as_bytes().iter().map(|b| u16::from(*b)).collect())
}

/// An "almost equal" neighbour of `u`: (kind, units). Never equal to `u`.
pub fn neighbour(u: &[u16], kind: usize, t: &mut Tape) -> Option<(&'static str, Vec<u16>)> {
    let mut v = u.to_vec();
    let name = match kind {
        0 => {
            v.push(0x61);
            "append-a"
        }
        1 => {
            v.extend(alpha_unit(t));
            "append-unit"
        }
        2 => {
            if v.is_empty() {
                return None;
            }
            v.pop();
            "drop-last"
        }
        3 => {
            if v.is_empty() {
                return None;
            }
            let i = t.below(v.len());
            let mut r = alpha_unit(t)[0];
            if r == v[i] {
                r = v[i].wrapping_add(1);
            }
            v[i] = r;
            "change-unit"
        }
        4 => {
            // the UTF-8 bytes of u, read as Latin-1 (differs iff u has a unit >= 0x80)
            v = utf8_as_latin1(u)?;
            "utf8-bytes"
        }
        5 => {
            if v.is_empty() {
                return None;
            }
            let i = t.below(v.len());
            v[i] &= 0xFF;
            "low-byte"
        }
        6 => {
            if v.is_empty() {
                return None;
            }
            v.remove(0);
            "drop-first"
        }
        _ => {
            if v.is_empty() {
                return None;
            }
            let i = t.below(v.len());
            v[i] ^= 0x100;
            "flip-bit8"
        }
    };
    if v == u { None } else { Some((name, v)) }
}

// ---------------------------------------------------------------------------------------
// the reference model

pub fn is_hi(x: u16) -> bool {
    (0xD800..=0xDBFF).contains(&x)
}
pub fn is_lo(x: u16) -> bool {
    (0xDC00..=0xDFFF).contains(&x)
}

#[derive(Clone, Copy, PartialEq, Eq, Debug)]
pub enum Cp {
    Scalar(u32),
    Lone(u16),
}

/// CodePointAt(string, position): (code point, number of code units).
pub fn m_code_point_at(u: &[u16], i: usize) -> (Cp, usize) {
    let first = u[i];
    if !is_hi(first) && !is_lo(first) {
        return (Cp::Scalar(u32::from(first)), 1);
    }
    if is_lo(first) || i + 1 == u.len() {
        return (Cp::Lone(first), 1);
    }
    let second = u[i + 1];
    if !is_lo(second) {
        return (Cp::Lone(first), 1);
    }
    (Cp::Scalar((u32::from(first) - 0xD800) * 0x400 + (u32::from(second) - 0xDC00) + 0x10000), 2)
}

pub fn m_code_points(u: &[u16]) -> Vec<Cp> {
    let mut out = vec![];
    let mut i = 0;
    while i < u.len() {
        let (cp, n) = m_code_point_at(u, i);
        out.push(cp);
        i += n;
    }
    out
}

fn scalar_char(x: u32) -> char {
    char::from_u32(x).expect("model: scalar value")
}

pub fn m_to_string(u: &[u16]) -> Option<String> {
    let mut s = String::new();
    for cp in m_code_points(u) {
        match cp {
            Cp::Scalar(x) => s.push(scalar_char(x)),
            Cp::Lone(_) => return None,
        }
    }
    Some(s)
}

pub fn m_to_string_lossy(u: &[u16]) -> String {
    m_code_points(u).into_iter().map(|cp| match cp { Cp::Scalar(x) => scalar_char(x), Cp::Lone(_) => '\u{FFFD}' }).collect()
}

pub fn m_to_string_escaped(u: &[u16]) -> String {
    let mut s = String::new();
    for cp in m_code_points(u) {
        match cp {
            Cp::Scalar(x) => s.push(scalar_char(x)),
            Cp::Lone(x) => s.push_str(&format!("\\u{x:04X}")),
        }
    }
    s
}

/// maximal valid segments, lone surrogates as errors
pub fn m_segments(u: &[u16]) -> Vec<Result<String, u16>> {
    let mut out: Vec<Result<String, u16>> = vec![];
    let mut cur = String::new();
    for cp in m_code_points(u) {
        match cp {
            Cp::Scalar(x) => cur.push(scalar_char(x)),
            Cp::Lone(x) => {
                if !cur.is_empty() {
                    out.push(Ok(std::mem::take(&mut cur)));
                }
                out.push(Err(x));
            }
        }
    }
    if !cur.is_empty() {
        out.push(Ok(cur));
    }
    out
}

/// ECMAScript WhiteSpace or LineTerminator, as a code unit.
pub fn m_is_ws(x: u16) -> bool {
    matches!(x, 0x09 | 0x0A | 0x0B | 0x0C | 0x0D | 0x20 | 0xA0 | 0x1680 | 0x2000..=0x200A | 0x2028 | 0x2029 | 0x202F | 0x205F | 0x3000 | 0xFEFF)
}

pub fn m_trim_start(u: &[u16]) -> &[u16] {
    let mut i = 0;
    while i < u.len() && m_is_ws(u[i]) {
        i += 1;
    }
    &u[i..]
}
pub fn m_trim_end(u: &[u16]) -> &[u16] {
    let mut j = u.len();
    while j > 0 && m_is_ws(u[j - 1]) {
        j -= 1;
    }
    &u[..j]
}
pub fn m_trim(u: &[u16]) -> &[u16] {
    m_trim_end(m_trim_start(u))
}

pub fn m_index_of(u: &[u16], needle: &[u16], from: usize) -> Option<usize> {
    let (len, nl) = (u.len(), needle.len());
    if nl == 0 {
        return if from <= len { Some(from) } else { None };
    }
    if nl > len {
        return None;
    }
    let mut i = from;
    while i <= len - nl {
        let mut same = true;
        for k in 0..nl {
            if u[i + k] != needle[k] {
                same = false;
                break;
            }
        }
        if same {
            return Some(i);
        }
        i += 1;
    }
    None
}

pub fn m_starts_with(u: &[u16], n: &[u16]) -> bool {
    n.len() <= u.len() && (0..n.len()).all(|k| u[k] == n[k])
}
pub fn m_ends_with(u: &[u16], n: &[u16]) -> bool {
    n.len() <= u.len() && (0..n.len()).all(|k| u[u.len() - n.len() + k] == n[k])
}
pub fn m_contains(u: &[u16], b: u8) -> bool {
    u.iter().any(|x| *x == u16::from(b))
}
pub fn m_slice(u: &[u16], p1: usize, p2: usize) -> &[u16] {
    let p2 = p2.min(u.len());
    if p1 >= p2 { &[] } else { &u[p1..p2] }
}

/// code-unit lexicographic order
pub fn m_cmp(a: &[u16], b: &[u16]) -> std::cmp::Ordering {
    let mut i = 0;
    loop {
        match (a.get(i), b.get(i)) {
            (None, None) => return std::cmp::Ordering::Equal,
            (None, Some(_)) => return std::cmp::Ordering::Less,
            (Some(_), None) => return std::cmp::Ordering::Greater,
            (Some(x), Some(y)) => {
                if x < y {
                    return std::cmp::Ordering::Less;
                }
                if x > y {
                    return std::cmp::Ordering::Greater;
                }
            }
        }
        i += 1;
    }
}

/// StringToNumber; `None` = outside the modelled fragment (only cross-constructor agreement is checked).
pub fn m_to_number(u: &[u16]) -> Option<f64> {
    if m_to_string(u).is_none() {
        return Some(f64::NAN);
    }
    let t = m_trim(u);
    if t.is_empty() {
        return Some(0.0);
    }
    if t.iter().any(|x| *x >= 0x80) {
        return Some(f64::NAN);
    }
    let s: String = t.iter().map(|x| *x as u8 as char).collect();
    let b = s.as_bytes();
    if b.len() >= 2 && b[0] == b'0' && matches!(b[1], b'x' | b'X' | b'o' | b'O' | b'b' | b'B') {
        let radix = match b[1] {
            b'x' | b'X' => 16,
            b'o' | b'O' => 8,
            _ => 2,
        };
        let digits = &s[2..];
        if digits.is_empty() || !digits.chars().all(|c| c.is_digit(radix)) {
            return Some(f64::NAN);
        }
        if digits.len() > 30 {
            return None;
        }
        let v = u128::from_str_radix(digits, radix).ok()?;
        return Some(v as f64);
    }
    let (neg, rest) = match b[0] {
        b'-' => (true, &s[1..]),
        b'+' => (false, &s[1..]),
        _ => (false, &s[..]),
    };
    if rest == "Infinity" {
        return Some(if neg { f64::NEG_INFINITY } else { f64::INFINITY });
    }
    // StrUnsignedDecimalLiteral
    let rb = rest.as_bytes();
    let mut i = 0;
    let mut int_digits = 0;
    while i < rb.len() && rb[i].is_ascii_digit() {
        i += 1;
        int_digits += 1;
    }
    let mut frac_digits = 0;
    if i < rb.len() && rb[i] == b'.' {
        i += 1;
        while i < rb.len() && rb[i].is_ascii_digit() {
            i += 1;
            frac_digits += 1;
        }
    }
    if int_digits + frac_digits == 0 {
        return Some(f64::NAN);
    }
    if i < rb.len() && (rb[i] == b'e' || rb[i] == b'E') {
        i += 1;
        if i < rb.len() && (rb[i] == b'+' || rb[i] == b'-') {
            i += 1;
        }
        let mut exp_digits = 0;
        while i < rb.len() && rb[i].is_ascii_digit() {
            i += 1;
            exp_digits += 1;
        }
        if exp_digits == 0 {
            return Some(f64::NAN);
        }
    }
    if i != rb.len() {
        return Some(f64::NAN);
    }
    let v: f64 = rest.parse().ok()?;
    Some(if neg { -v } else { v })
}

/// What `PartialEq<str> for JsStr` computes on this tree (the known defect), used ONLY to
/// recognise exactly that defect when tolerating it: Latin-1 buffers are compared with the UTF-8
/// bytes, UTF-16 buffers are zipped without a length check.
pub fn known_defect_streq(latin1: bool, u: &[u16], other: &str) -> bool {
    if latin1 {
        u.len() == other.len() && u.iter().zip(other.as_bytes()).all(|(a, b)| *a == u16::from(*b))
    } else {
        other.encode_utf16().zip(u.iter()).all(|(a, b)| a == *b)
    }
}

/// The two `to_number` constructs that are known to be mis-parsed on this tree (findings C11-c,
/// C11-d), recognised on the trimmed text: a sign directly after a radix prefix (`0x+1`), and a
/// signed `inf` / `infinity` / `nan` spelling other than `[+-]Infinity`.
pub fn known_to_number_construct(u: &[u16]) -> Option<&'static str> {
    let t = m_trim(u);
    if t.iter().any(|x| *x >= 0x80) {
        return None;
    }
    let s: String = t.iter().map(|x| *x as u8 as char).collect();
    let b = s.as_bytes();
    if b.len() >= 3 && b[0] == b'0' && matches!(b[1], b'x' | b'X' | b'o' | b'O' | b'b' | b'B') && matches!(b[2], b'+' | b'-') {
        return Some("sign-after-radix-prefix");
    }
    if b.len() >= 2 && matches!(b[0], b'+' | b'-') {
        let rest = s[1..].to_ascii_lowercase();
        if (rest == "inf" || rest == "infinity" || rest == "nan") && &s[1..] != "Infinity" {
            return Some("signed-inf-nan-spelling");
        }
    }
    None
}
