//! C11 support: JS programs that build one string value by several routes and observe it through
//! property keys, Map/Set keys, `===`, `<`, `Symbol.for`, `normalize(form)` / `@@toPrimitive(hint)`
//! argument matching. Everything printed is a pure function of code units (no implementation-defined text).

use super::c11model::{ALPHA, m_to_string, neighbour};
use crate::tape::Tape;

/// Named exclusion switch for the known `PartialEq<str> for JsStr` defect (finding C11-a): form/hint
/// strings that are a proper prefix or a proper extension of a valid form/hint are not generated.
pub const EXCLUDE_KNOWN_STR_EQ_PREFIX_FORMS: bool = false;

pub struct JsCase {
    pub src: String,
    pub labels: Vec<&'static str>,
    pub units: Vec<u16>,
    pub routes: usize,
}

/// A JS string literal of the units (ASCII letters/digits/space raw, everything else `\uXXXX`).
pub fn js_lit(u: &[u16]) -> String {
    let mut s = String::from("\"");
    for &x in u {
        if x < 0x80 && ((x as u8).is_ascii_alphanumeric() || x == 0x20 || x == 0x2E) {
            s.push(x as u8 as char);
        } else {
            s.push_str(&format!("\\u{x:04x}"));
        }
    }
    s.push('"');
    s
}

fn raw_ok(u: &[u16]) -> bool {
    // raw (unescaped) source characters: only for well-formed strings without control characters,
    // line terminators, BOM, non-characters
    m_to_string(u).is_some() && u.iter().all(|&x| matches!(x, 0x20 | 0x30..=0x39 | 0x41..=0x5A | 0x61..=0x7A | 0xA1..=0xFF | 0x100 | 0x3C0) || (0xD800..=0xDFFF).contains(&x))
}

const ROUTES: usize = 20;

/// The expression text of route `r` for units `u` (None when the route does not apply).
fn route(r: usize, u: &[u16], t: &mut Tape) -> Option<(String, &'static str)> {
    let n = u.len();
    let k = if n == 0 { 0 } else { t.below(n + 1) };
    let (a, b) = (&u[..k], &u[k..]);
    let codes = |x: &[u16]| x.iter().map(|c| format!("0x{c:x}")).collect::<Vec<_>>().join(",");
    Some(match r {
        0 => (js_lit(u), "literal"),
        1 => (format!("String.fromCharCode({})", codes(u)), "fromCharCode"),
        2 => (format!("({} + {})", js_lit(a), js_lit(b)), "concat-const"),
        3 => (format!("(function(p, q) {{ return p + q; }})({}, {})", js_lit(a), js_lit(b)), "concat-dyn"),
        4 => (format!("({} + {} + \"z\").slice(2, {})", js_lit(&[0x78, 0x79]), js_lit(u), 2 + n), "slice-latin1-parent"),
        5 => (format!("(\"\\u0100y\" + {} + \"\\u03c0\").slice(2, {})", js_lit(u), 2 + n), "slice-utf16-parent"),
        6 => (format!("(\"\\u0100\" + {}).substring(1)", js_lit(u)), "substring-utf16-parent"),
        7 => (format!("`${{{}}}${{{}}}`", js_lit(a), js_lit(b)), "template-subst"),
        8 => {
            // template with escapes only (cooked value)
            let mut s = String::from("`");
            for &x in u {
                s.push_str(&format!("\\u{x:04x}"));
            }
            s.push('`');
            (s, "template-cooked")
        }
        9 => (format!("[{}, {}].join(\"\")", js_lit(a), js_lit(b)), "join"),
        10 => {
            if !raw_ok(u) {
                return None;
            }
            (format!("\"{}\"", m_to_string(u)?), "literal-raw")
        }
        11 => (format!("\"\".concat({}, {})", js_lit(a), js_lit(b)), "concat-method"),
        12 => {
            // JSON.parse rejects escaped lone surrogates on this tree (a JSON defect, not a string
            // one: see the C11 report); the route is used for well-formed strings only
            if m_to_string(u).is_none() {
                return None;
            }
            let mut j = String::from("'\"");
            for &x in u {
                j.push_str(&format!("\\\\u{x:04x}"));
            }
            j.push_str("\"'");
            (format!("JSON.parse({j})"), "json-parse")
        }
        13 => (format!("({} + \"x\").slice(0, -1)", js_lit(u)), "slice-drop-last"),
        14 => (format!("{}.split(\"\").join(\"\")", js_lit(u)), "split-join"),
        15 => (format!("Array.from({}).join(\"\")", js_lit(u)), "array-from-join"),
        16 => (format!("new String({}).valueOf()", js_lit(u)), "string-object"),
        17 => (format!("({}).repeat(1)", js_lit(u)), "repeat1"),
        18 => (format!("String.fromCharCode.apply(null, [{}])", codes(u)), "fromCharCode-apply"),
        _ => (format!("({} + \"\\u0100\").slice(0, {})", js_lit(u), n), "slice-head-utf16-parent"),
    })
}

const FORMS_OK: [&str; 4] = ["NFC", "NFD", "NFKC", "NFKD"];
const HINTS_OK: [&str; 3] = ["default", "number", "string"];

fn prefix_related(f: &[u16], targets: &[&str]) -> bool {
    targets.iter().any(|t| {
        let tu: Vec<u16> = t.encode_utf16().collect();
        f != tu.as_slice() && (f.starts_with(&tu) || tu.starts_with(f))
    })
}

pub fn generate(tape: &[u8]) -> JsCase {
    let mut t = Tape::new(tape);
    let mut labels: Vec<&'static str> = vec![];
    // the string under test
    let mut u: Vec<u16> = vec![];
    let nsym = t.below(5);
    for _ in 0..nsym {
        // bias towards the non-ASCII symbols
        let i = if t.chance(80) { t.below(5) } else { 5 + t.below(ALPHA.len() - 5) };
        u.extend(ALPHA[i]);
    }
    let mut src = String::new();
    src.push_str("var R = [];\n");
    let nroutes = 3 + t.below(5);
    let mut made = 0;
    for _ in 0..nroutes {
        let r = t.below(ROUTES);
        if let Some((e, l)) = route(r, &u, &mut t) {
            src.push_str(&format!("R.push({e});\n"));
            labels.push(l);
            made += 1;
        }
    }
    if made == 0 {
        src.push_str(&format!("R.push({});\n", js_lit(&u)));
        made = 1;
    }
    // the almost-equal neighbour
    let kind = t.below(8);
    let w = neighbour(&u, kind, &mut t).map(|x| x.1).unwrap_or_else(|| {
        let mut v = u.clone();
        v.push(0x61);
        v
    });
    let wr = t.below(ROUTES);
    let wexpr = route(wr, &w, &mut t).map(|x| x.0).unwrap_or_else(|| js_lit(&w));
    src.push_str(&format!("var W = {wexpr};\n"));
    src.push_str("function cu(s) { var a = []; for (var k = 0; k < s.length; k++) a.push(s.charCodeAt(k)); return a.join(\",\"); }\n");
    src.push_str("for (var i = 0; i < R.length; i++) print(\"units\", i, R[i].length, cu(R[i]));\n");
    src.push_str("print(\"unitsW\", W.length, cu(W));\n");

    let mut uses: Vec<usize> = (0..14).collect();
    // drop a few uses so that programs differ in shape
    for _ in 0..t.below(6) {
        if uses.len() > 4 {
            let i = t.below(uses.len());
            uses.remove(i);
        }
    }
    for us in uses {
        match us {
            0 => src.push_str("for (var i = 0; i < R.length; i++) print(\"eq\", i, R[i] === R[0], R[0] === R[i], R[i] == R[0], R[i] !== R[0], Object.is(R[i], R[0]), R[i] === W, W === R[i], R[i] != W);\n"),
            1 => src.push_str("for (var i = 0; i < R.length; i++) print(\"rel\", i, R[i] < R[0], R[i] > R[0], R[i] <= R[0], R[0] >= R[i], R[i] < W, W < R[i], R[i] <= W, R[i] >= W);\n"),
            2 => {
                src.push_str("var o = {}; o[R[0]] = \"v0\";\n");
                src.push_str("for (var i = 0; i < R.length; i++) print(\"key\", i, o[R[i]], R[i] in o, Object.prototype.hasOwnProperty.call(o, R[i]), o[W], W in o);\n");
                src.push_str("for (var i = 0; i < R.length; i++) o[R[i]] = i;\n");
                src.push_str("print(\"keys\", Object.keys(o).length, cu(Object.keys(o)[0]), o[R[0]] === R.length - 1);\n");
            }
            3 => {
                src.push_str("var m = new Map(); m.set(R[0], \"m0\");\n");
                src.push_str("for (var i = 0; i < R.length; i++) print(\"map\", i, m.get(R[i]), m.has(R[i]), m.has(W));\n");
                src.push_str("for (var i = 0; i < R.length; i++) m.set(R[i], i);\n");
                src.push_str("m.set(W, \"w\"); print(\"mapsize\", m.size, m.get(R[0]), m.get(W), m.delete(R[R.length - 1]), m.size);\n");
            }
            4 => src.push_str("var st = new Set(R); print(\"set\", st.size, st.has(W), st.has(R[R.length - 1])); st.add(W); print(\"set2\", st.size);\n"),
            5 => src.push_str("for (var i = 0; i < R.length; i++) print(\"sym\", i, Symbol.for(R[i]) === Symbol.for(R[0]), Symbol.keyFor(Symbol.for(R[i])) === R[0], Symbol.for(R[i]) === Symbol.for(W), Symbol.for(R[i]).description === R[0], cu(Symbol.for(R[i]).description));\n"),
            6 => src.push_str("print(\"sort\", [W].concat(R).sort().map(function (x) { return x === W ? \"W\" : \"R\"; }).join(\"\"), R.concat([W]).sort().map(function (x) { return x === W ? \"W\" : \"R\"; }).join(\"\"));\n"),
            7 => src.push_str("for (var i = 0; i < R.length; i++) { switch (R[i]) { case W: print(\"switch\", i, \"W\"); break; case R[0]: print(\"switch\", i, \"R0\"); break; default: print(\"switch\", i, \"none\"); } }\n"),
            8 => src.push_str("for (var i = 0; i < R.length; i++) print(\"idx\", i, R[0].indexOf(R[i]), R[0].lastIndexOf(R[i]), R[0].includes(R[i]), R[0].startsWith(R[i]), R[0].endsWith(R[i]), (W + R[i]).indexOf(R[0]), (R[i] + W).lastIndexOf(R[0]), R[i].indexOf(W), W.indexOf(R[i]));\n"),
            9 => src.push_str("for (var i = 0; i < R.length; i++) print(\"num\", i, Object.is(Number(R[i]), Number(R[0])), Object.is(+R[i], +W));\n"),
            10 => src.push_str("for (var i = 0; i < R.length; i++) print(\"ckey\", i, ({ [R[i]]: 1 })[R[0]], ({ [R[0]]: 1 })[R[i]], ({ [R[i]]: 1 })[W], JSON.stringify(R[i]) === JSON.stringify(R[0]), JSON.stringify(R[i]));\n"),
            11 => src.push_str("for (var i = 0; i < R.length; i++) print(\"cp\", i, R[i].codePointAt(0), R[i].charAt(0) === R[0].charAt(0), Array.from(R[i]).length, cu(R[i].trim()), cu(R[i].slice(1)), cu(R[i].at(-1) || \"\"));\n"),
            12 => src.push_str("for (var i = 0; i < R.length; i++) { try { print(\"uri\", i, encodeURIComponent(R[i])); } catch (e) { print(\"uri\", i, e.name); } }\n"),
            _ => src.push_str("for (var i = 0; i < R.length; i++) print(\"cat\", i, cu(R[i] + W), (R[i] + W) === (R[0] + W), cu(R[i].concat(R[0])), R[i].split(R[0]).length, cu(R[i].replace(R[0], \"X\")));\n"),
        }
    }

    // argument matching against Rust `str` constants inside the engine
    let nargs = t.below(4);
    for ai in 0..nargs {
        let is_form = t.bool();
        let targets: &[&str] = if is_form { &FORMS_OK } else { &HINTS_OK };
        let valid = t.chance(150);
        let f: Vec<u16> = if valid {
            targets[t.below(targets.len())].encode_utf16().collect()
        } else {
            let base: Vec<u16> = targets[t.below(targets.len())].encode_utf16().collect();
            let kind = t.below(8);
            neighbour(&base, kind, &mut t).map(|x| x.1).unwrap_or_else(|| vec![0x6E, 0x66, 0x63])
        };
        if !valid && prefix_related(&f, targets) {
            if EXCLUDE_KNOWN_STR_EQ_PREFIX_FORMS {
                labels.push("excluded-known-str-eq-js");
                continue;
            }
        }
        let r = t.below(ROUTES);
        let fe = route(r, &f, &mut t).map(|x| x.0).unwrap_or_else(|| js_lit(&f));
        labels.push(if valid { "arg-valid" } else { "arg-invalid" });
        if is_form {
            src.push_str(&format!("try {{ print(\"norm\", {ai}, cu(\"\\u00e9\\u0041\\u030a\\ufb01\".normalize({fe}))); }} catch (e) {{ print(\"norm\", {ai}, e.name); }}\n"));
        } else {
            src.push_str(&format!("try {{ print(\"hint\", {ai}, typeof Date.prototype[Symbol.toPrimitive].call(new Date(0), {fe})); }} catch (e) {{ print(\"hint\", {ai}, e.name); }}\n"));
        }
    }
    if u.iter().any(|x| *x >= 0x80) {
        labels.push("non-ascii");
    }
    if u.iter().any(|x| (0xD800..=0xDFFF).contains(x)) {
        labels.push("surrogate");
    }
    JsCase { src, labels, units: u, routes: made }
}
