//! Module-graph generator for C17: a directed graph over n <= 8 modules plus per-module
//! attributes, rendered to one ECMAScript module source per node.
//!
//! Rendered sources use a fixed one-statement-per-line vocabulary (see `render_module`), so the
//! reference model in props/c17.rs can read a rendered case back without generator metadata.
//!
//! Everything is driven by the byte tape (0 = simplest choice); the exhaustive streams decode
//! the edge set and a preset attribute vector from the enumeration index instead.

use crate::tape::Tape;

pub const MAXN: usize = 8;

/// The form of the declaration that creates the module request i -> x.
#[derive(Clone, Copy, Debug, PartialEq, Eq)]
pub enum Form {
    /// `import 'mX';`
    Bare,
    /// `import {vX as iX, bumpX as ibX} from 'mX';` + live-binding probe
    Binding,
    /// `import * as nsX from 'mX';` + `Object.keys(nsX)` printed
    Namespace,
    /// `export * from 'mX';`
    Star,
    /// `export {vX as rI_X, bumpX as rbI_X} from 'mX';`
    Named,
}

#[derive(Clone, Copy, Debug, PartialEq, Eq)]
pub enum Throw {
    Never,
    /// first statement after the exported declarations, before the start print
    Start,
    /// after the imports were used (probes), just before the end print
    Late,
}

#[derive(Clone, Copy, Debug, PartialEq, Eq)]
pub enum Await {
    None,
    /// right after the start print; the payload is the length t of the promise chain (0 = `await 0`)
    Early(u8),
    /// just before the late throw / end print
    Late(u8),
}

#[derive(Clone, Debug)]
pub struct ModSpec {
    /// import declarations in source order (a target may occur with several forms)
    pub imports: Vec<(usize, Form)>,
    /// `(y, x)`: import x's live binding through re-exporter y (y has a Star or Named edge to x)
    pub via: Vec<(usize, usize)>,
    pub throw: Throw,
    /// 0 TypeError, 1 RangeError, 2 Error, 3 a thrown string
    pub err: u8,
    pub aw: Await,
    /// dynamic `import('mX')`: (target, awaited)
    pub dynimp: Option<(usize, bool)>,
    /// write the import declarations after the body (they are hoisted)
    pub imports_last: bool,
}

impl ModSpec {
    pub fn plain() -> Self {
        Self { imports: vec![], via: vec![], throw: Throw::Never, err: 0, aw: Await::None, dynimp: None, imports_last: false }
    }
    pub fn has_tla(&self) -> bool {
        self.aw != Await::None || matches!(self.dynimp, Some((_, true)))
    }
}

#[derive(Clone, Debug)]
pub struct Case {
    pub mods: Vec<ModSpec>,
    /// sequence of entry evaluations (an entry may repeat)
    pub entries: Vec<usize>,
    pub async_loader: bool,
    pub labels: Vec<&'static str>,
}

pub fn mod_name(i: usize) -> String {
    format!("m{i}")
}

fn err_expr(err: u8, i: usize) -> String {
    match err {
        0 => format!("new TypeError('m{i}')"),
        1 => format!("new RangeError('m{i}')"),
        2 => format!("new Error('m{i}')"),
        _ => format!("'m{i}'"),
    }
}

fn await_line(t: u8) -> String {
    if t == 0 {
        "await 0;".to_string()
    } else {
        format!("await Promise.resolve(){};", ".then(() => 0)".repeat(t as usize))
    }
}

const CATCH: &str = "e instanceof ReferenceError ? 'TDZ' : 'ERR'";

/// One statement per line. The line shapes are a contract with `props::c17::parse_module`.
pub fn render_module(i: usize, m: &ModSpec) -> String {
    let mut imports = vec![];
    for (x, form) in &m.imports {
        imports.push(match form {
            Form::Bare => format!("import 'm{x}';"),
            Form::Binding => format!("import {{v{x} as i{x}, bump{x} as ib{x}}} from 'm{x}';"),
            Form::Namespace => format!("import * as ns{x} from 'm{x}';"),
            Form::Star => format!("export * from 'm{x}';"),
            Form::Named => format!("export {{v{x} as r{i}_{x}, bump{x} as rb{i}_{x}}} from 'm{x}';"),
        });
    }
    for (y, x) in &m.via {
        // `v{x}@{y}` / `bump{x}@{y}` are placeholders: `Case::render` substitutes the name under which y
        // re-exports them (it depends on y's declaration form)
        imports.push(format!("import {{v{x}@{y} as u{x}_{y}, bump{x}@{y} as ub{x}_{y}}} from 'm{y}';"));
    }
    let mut body = vec![];
    body.push(format!("export let v{i} = {};", i * 10));
    body.push(format!("export function bump{i}() {{ v{i} += 1; }}"));
    if m.throw == Throw::Start {
        body.push(format!("throw {};", err_expr(m.err, i)));
    }
    body.push(format!("print('m{i}:start');"));
    if let Await::Early(t) = m.aw {
        body.push(await_line(t));
    }
    for (x, form) in &m.imports {
        match form {
            Form::Binding => body.push(format!(
                "try {{ print('m{i}:v{x}', i{x}); ib{x}(); print('m{i}:v{x}', i{x}); }} catch (e) {{ print('m{i}:v{x}', {CATCH}); }}"
            )),
            Form::Namespace => {
                body.push(format!("try {{ print('m{i}:ns{x}', Object.keys(ns{x}).join()); }} catch (e) {{ print('m{i}:ns{x}', {CATCH}); }}"));
                body.push(format!("print('m{i}:own{x}', Reflect.ownKeys(ns{x}).filter(k => typeof k === 'string').join());"));
            }
            _ => {}
        }
    }
    for (y, x) in &m.via {
        body.push(format!(
            "try {{ print('m{i}:v{x}@{y}', u{x}_{y}); ub{x}_{y}(); print('m{i}:v{x}@{y}', u{x}_{y}); }} catch (e) {{ print('m{i}:v{x}@{y}', {CATCH}); }}"
        ));
    }
    if let Some((x, awaited)) = m.dynimp {
        if awaited {
            body.push(format!(
                "try {{ const d = await import('m{x}'); print('m{i}:dyn{x}', 'ok', Reflect.ownKeys(d).length); }} catch (e) {{ print('m{i}:dyn{x}', 'rej', typeof e === 'string' ? e : e.name); }}"
            ));
        } else {
            body.push(format!(
                "import('m{x}').then(d => print('m{i}:dyn{x}', 'ok', Reflect.ownKeys(d).length), e => print('m{i}:dyn{x}', 'rej', typeof e === 'string' ? e : e.name));"
            ));
        }
    }
    if let Await::Late(t) = m.aw {
        body.push(await_line(t));
    }
    if m.throw == Throw::Late {
        body.push(format!("throw {};", err_expr(m.err, i)));
    }
    body.push(format!("print('m{i}:end');"));
    let mut lines = vec![];
    if m.imports_last {
        lines.extend(body);
        lines.extend(imports);
    } else {
        lines.extend(imports);
        lines.extend(body);
    }
    lines.join("\n") + "\n"
}

impl Case {
    /// (name, source) of every module, in index order.
    pub fn render(&self) -> Vec<(String, String)> {
        let mut out = vec![];
        for (i, m) in self.mods.iter().enumerate() {
            let mut src = render_module(i, m);
            // resolve the placeholder names of via-imports now that every module's forms are known
            for (y, x) in &m.via {
                let named = self.mods[*y].imports.iter().any(|(t, f)| t == x && *f == Form::Named);
                let star = self.mods[*y].imports.iter().any(|(t, f)| t == x && *f == Form::Star);
                let (vn, bn) = if star || !named { (format!("v{x}"), format!("bump{x}")) } else { (format!("r{y}_{x}"), format!("rb{y}_{x}")) };
                src = src.replace(&format!("v{x}@{y} as"), &format!("{vn} as")).replace(&format!("bump{x}@{y} as"), &format!("{bn} as"));
            }
            out.push((mod_name(i), src));
        }
        out
    }
    pub fn n(&self) -> usize {
        self.mods.len()
    }
    /// `await import('mX')` in module i never settles when X's evaluation waits for i (X is i, X
    /// statically reaches i, or X reaches it through other awaited dynamic imports): that is the
    /// specified behaviour (a deadlock written by the author of the modules), not an engine defect.
    /// Such awaits are turned into non-awaited `import().then(...)`. Returns true if any was.
    pub fn demote_deadlocking_dyn_awaits(&mut self) -> bool {
        let n = self.n();
        let mut changed = false;
        loop {
            // waits[a][b]: a's evaluation promise waits for b's
            let mut w = vec![vec![false; n]; n];
            for (a, m) in self.mods.iter().enumerate() {
                for (b, _) in &m.imports {
                    w[a][*b] = true;
                }
                for (y, _) in &m.via {
                    w[a][*y] = true;
                }
                if let Some((b, true)) = m.dynimp {
                    w[a][b] = true;
                }
            }
            for k in 0..n {
                for a in 0..n {
                    if w[a][k] {
                        for b in 0..n {
                            if w[k][b] {
                                w[a][b] = true;
                            }
                        }
                    }
                }
            }
            let bad = (0..n).find(|i| matches!(self.mods[*i].dynimp, Some((x, true)) if x == *i || w[x][*i]));
            match bad {
                Some(i) => {
                    let (x, _) = self.mods[i].dynimp.expect("has a dynamic import");
                    self.mods[i].dynimp = Some((x, false));
                    changed = true;
                }
                None => return changed,
            }
        }
    }
}

// ---------------------------------------------------------------------------------------
// exhaustive streams

/// Number of edge sets over n nodes (self-imports included iff `selfs`).
pub fn edge_sets(n: usize, selfs: bool) -> u64 {
    let pairs = if selfs { n * n } else { n * (n - 1) };
    1u64 << pairs
}

/// Decode edge set number `code` into adjacency lists (targets ascending).
pub fn decode_edges(n: usize, selfs: bool, code: u64) -> Vec<Vec<usize>> {
    let mut adj = vec![vec![]; n];
    let mut bit = 0;
    for i in 0..n {
        for j in 0..n {
            if i == j && !selfs {
                continue;
            }
            if code >> bit & 1 == 1 {
                adj[i].push(j);
            }
            bit += 1;
        }
    }
    adj
}

pub const PRESETS: usize = 24;

/// Fixed (seed-independent) attribute vectors of the exhaustive stream.
pub fn preset(adj: &[Vec<usize>], p: usize) -> Case {
    let n = adj.len();
    let last = n - 1;
    let mid = n / 2;
    let mut mods: Vec<ModSpec> = adj.iter().map(|t| ModSpec { imports: t.iter().map(|x| (*x, Form::Bare)).collect(), ..ModSpec::plain() }).collect();
    let mut entries = vec![0];
    let mut async_loader = false;
    let forms = |mods: &mut Vec<ModSpec>, f: Form| {
        for m in mods.iter_mut() {
            for e in &mut m.imports {
                e.1 = f;
            }
        }
    };
    match p {
        0 => {}
        1 => entries = vec![0, 0],
        2 => entries = vec![last, 0],
        3 => {
            entries = vec![mid, last, 0];
            for m in &mut mods {
                m.imports.reverse();
            }
        }
        4 => {
            mods[last].throw = Throw::Start;
            entries = vec![0, 0];
        }
        5 => {
            mods[last].throw = Throw::Late;
            mods[last].err = 1;
            entries = vec![0, last];
        }
        6 => {
            mods[0].throw = Throw::Late;
            mods[0].err = 3;
            entries = vec![0, mid];
        }
        7 => {
            mods[mid].throw = Throw::Start;
            mods[mid].err = 2;
            entries = vec![last, mid, 0];
        }
        8 => {
            mods[last].aw = Await::Early(0);
        }
        9 => {
            mods[last].aw = Await::Late(2);
            entries = vec![0, 0];
        }
        10 => {
            mods[0].aw = Await::Early(1);
            entries = vec![0, last];
        }
        11 => {
            mods[mid].aw = Await::Early(0);
            mods[last].throw = Throw::Late;
            entries = vec![0, 0];
        }
        12 => {
            forms(&mut mods, Form::Binding);
            entries = vec![0, last];
        }
        13 => forms(&mut mods, Form::Namespace),
        14 => {
            forms(&mut mods, Form::Star);
            for i in 0..n {
                let extra: Vec<(usize, Form)> = adj[i].iter().map(|x| (*x, Form::Binding)).collect();
                mods[i].imports.extend(extra);
            }
        }
        15 => {
            forms(&mut mods, Form::Named);
            for i in 0..n {
                let extra: Vec<(usize, Form)> = adj[i].iter().map(|x| (*x, Form::Namespace)).collect();
                mods[i].imports.extend(extra);
            }
        }
        16 => {
            for m in &mut mods {
                m.aw = Await::Early(0);
            }
            entries = vec![0, 0];
        }
        17 => {
            for (i, m) in mods.iter_mut().enumerate() {
                m.aw = if i % 2 == 0 { Await::Late(1) } else { Await::None };
            }
            entries = vec![mid, 0];
        }
        18 => {
            // the shape of finding (a): a synchronous thrower above an awaiting module
            mods[last].aw = Await::Early(0);
            mods[0].throw = Throw::Late;
        }
        19 => {
            mods[last].aw = Await::Late(0);
            mods[last].throw = Throw::Late;
            entries = vec![0, last, 0];
        }
        20 => {
            mods[0].dynimp = Some((last, true));
            forms(&mut mods, Form::Binding);
        }
        21 => {
            mods[mid].dynimp = Some((0, false));
            mods[last].throw = Throw::Start;
        }
        22 => {
            async_loader = true;
            forms(&mut mods, Form::Binding);
            for m in &mut mods {
                m.imports_last = true;
                m.imports.reverse();
            }
            entries = vec![last, 0];
        }
        _ => {
            async_loader = true;
            mods[mid].aw = Await::Early(2);
            mods[last].aw = Await::Early(0);
            mods[0].throw = Throw::Start;
            mods[0].aw = Await::Late(0);
            entries = vec![0, mid, 0];
        }
    }
    Case { mods, entries, async_loader, labels: vec![] }
}

// ---------------------------------------------------------------------------------------
// tape-driven attributes and graphs

/// Attributes for a given edge structure, from the tape.
pub fn attributes(adj: &[Vec<usize>], t: &mut Tape) -> Case {
    let n = adj.len();
    let mut labels: Vec<&'static str> = vec![];
    // global intensity knobs first, so that a short tape still yields throwers/awaiters
    let p_throw = [0u32, 40, 90][t.weighted(&[3, 5, 2])];
    let p_await = [0u32, 50, 110][t.weighted(&[3, 5, 2])];
    let p_form = [0u32, 100, 200][t.weighted(&[2, 5, 3])];
    let mut mods = vec![];
    for i in 0..n {
        let mut m = ModSpec::plain();
        let mut targets = adj[i].clone();
        // import order: ascending, descending, or a tape-driven shuffle
        match t.below(3) {
            0 => {}
            1 => targets.reverse(),
            _ => {
                for k in (1..targets.len()).rev() {
                    let j = t.below(k + 1);
                    targets.swap(k, j);
                }
            }
        }
        for x in targets {
            let f = if t.chance(p_form) { [Form::Binding, Form::Namespace, Form::Star, Form::Named][t.below(4)] } else { Form::Bare };
            m.imports.push((x, f));
            if t.chance(24) {
                // the same request twice, in another form
                m.imports.push((x, [Form::Bare, Form::Binding, Form::Namespace][t.below(3)]));
            }
        }
        // drop exact duplicates (same target, same form) which would redeclare a local
        let mut seen: Vec<(usize, Form)> = vec![];
        m.imports.retain(|e| {
            if seen.contains(e) {
                false
            } else {
                seen.push(*e);
                true
            }
        });
        if t.chance(p_throw) {
            m.throw = if t.bool() { Throw::Late } else { Throw::Start };
            m.err = t.below(4) as u8;
        }
        if t.chance(p_await) {
            let len = [0u8, 1, 2, 4][t.below(4)];
            m.aw = if t.bool() { Await::Late(len) } else { Await::Early(len) };
        }
        if t.chance(14) {
            m.dynimp = Some((t.below(n), t.bool()));
        }
        m.imports_last = t.chance(40);
        mods.push(m);
    }
    // via-imports: i imports x's binding through a re-exporter y it already imports
    for i in 0..n {
        let ys: Vec<usize> = mods[i].imports.iter().map(|e| e.0).collect();
        for y in ys {
            let res: Vec<usize> = mods[y].imports.iter().filter(|(_, f)| matches!(f, Form::Star | Form::Named)).map(|e| e.0).collect();
            for x in res {
                if t.chance(110) && !mods[i].via.contains(&(y, x)) {
                    mods[i].via.push((y, x));
                }
            }
        }
    }
    // entries
    let e0 = t.below(n);
    let e1 = t.below(n);
    let entries = match t.weighted(&[4, 3, 3, 2, 1]) {
        0 => vec![e0],
        1 => vec![e0, e0],
        2 => vec![e0, e1],
        3 => vec![e0, e1, e0],
        _ => vec![e0, e0, e1, e1],
    };
    let async_loader = t.chance(64);
    if mods.iter().any(|m| !m.via.is_empty()) {
        labels.push("via-reexport-binding");
    }
    Case { mods, entries, async_loader, labels }
}

/// A random graph over 2..=8 modules with one of several shape biases.
pub fn random_graph(t: &mut Tape) -> (Vec<Vec<usize>>, &'static str) {
    let n = [4usize, 5, 3, 6, 7, 8, 2][t.weighted(&[5, 5, 2, 4, 3, 3, 1])];
    let mut adj: Vec<Vec<usize>> = vec![vec![]; n];
    let mut add = |adj: &mut Vec<Vec<usize>>, a: usize, b: usize| {
        if !adj[a].contains(&b) {
            adj[a].push(b);
        }
    };
    let shape = t.weighted(&[4, 3, 3, 3, 2, 2]);
    let name = match shape {
        0 => {
            // uniform density
            let p = [50u32, 90, 160][t.below(3)];
            for a in 0..n {
                for b in 0..n {
                    if a != b && t.chance(p) {
                        add(&mut adj, a, b);
                    }
                }
            }
            "shape-uniform"
        }
        1 => {
            // dense cycle: a ring through all nodes plus chords
            for a in 0..n {
                add(&mut adj, a, (a + 1) % n);
            }
            for a in 0..n {
                for b in 0..n {
                    if a != b && t.chance(70) {
                        add(&mut adj, a, b);
                    }
                }
            }
            "shape-dense-cycle"
        }
        2 => {
            // a diamond hanging under a cycle
            let c = 2 + t.below((n.saturating_sub(4)).max(1)).min(n.saturating_sub(2).max(1) - 1);
            let c = c.min(n);
            for a in 0..c {
                add(&mut adj, a, (a + 1) % c);
            }
            if n >= c + 2 {
                let from = t.below(c);
                let (l, r) = (c, c + 1);
                add(&mut adj, from, l);
                add(&mut adj, from, r);
                let bottom = if n > c + 2 { c + 2 } else { r };
                add(&mut adj, l, bottom);
                if bottom != r {
                    add(&mut adj, r, bottom);
                }
                for k in c + 3..n {
                    let p = t.below(k);
                    add(&mut adj, p, k);
                }
            }
            "shape-diamond-under-cycle"
        }
        3 => {
            // a cycle that is entered from its middle: a chain 0 -> 1 -> ... with a back edge to a
            // node that is not the first one of the chain, and a second back edge further up
            for a in 0..n - 1 {
                add(&mut adj, a, a + 1);
            }
            let back_to = 1.min(n - 1) + t.below((n - 1).max(1)).min(n.saturating_sub(2));
            add(&mut adj, n - 1, back_to.min(n - 1));
            if n >= 4 {
                add(&mut adj, n - 2, t.below(n - 2));
            }
            for a in 0..n {
                if t.chance(40) {
                    add(&mut adj, a, t.below(n));
                }
            }
            "shape-cycle-entered-midway"
        }
        4 => {
            // a leaf shared by several parents (diamonds), no cycle by construction
            for b in 1..n {
                let parents = 1 + t.below(2);
                for _ in 0..parents {
                    let a = t.below(b);
                    add(&mut adj, a, b);
                }
            }
            for a in 0..n - 1 {
                if t.chance(90) {
                    add(&mut adj, a, n - 1);
                }
            }
            "shape-shared-leaf-dag"
        }
        _ => {
            // two cycles sharing a node, with tails
            let h = n / 2;
            for a in 0..=h {
                add(&mut adj, a, if a == h { 0 } else { a + 1 });
            }
            for a in h..n {
                add(&mut adj, a, if a == n - 1 { h } else { a + 1 });
            }
            for a in 0..n {
                if t.chance(30) {
                    add(&mut adj, a, t.below(n));
                }
            }
            "shape-two-cycles"
        }
    };
    // self-imports
    for a in 0..n {
        if t.chance(20) {
            add(&mut adj, a, a);
        }
    }
    (adj, name)
}

pub fn random_case(tape: &[u8]) -> Case {
    let mut t = Tape::new(tape);
    let (adj, shape) = random_graph(&mut t);
    let mut c = attributes(&adj, &mut t);
    c.labels.push(shape);
    c
}
