//! Order-sensitive programs: everything whose observable order could leak addresses, hash
//! seeds or allocation history if the engine were careless.

use crate::tape::Tape;

pub fn generate(tape: &[u8]) -> (String, usize) {
    let mut t = Tape::new(tape);
    let mut s = String::new();
    let mut observations = 0;
    s.push_str("var o = {}, m = new Map(), st = new Set(), syms = [];\n");
    let n = 8 + t.below(40);
    for i in 0..n {
        match t.below(12) {
            0 | 1 => s.push_str(&format!("o[{}] = {i};\n", t.below(70))),
            2 | 3 => s.push_str(&format!("o['k{}'] = {i};\n", t.below(30))),
            4 => s.push_str(&format!("syms.push(Symbol('s{i}')); o[syms[syms.length - 1]] = {i};\n")),
            5 => s.push_str(&format!("delete o[{}];\n", t.below(70))),
            6 => s.push_str(&format!("delete o['k{}'];\n", t.below(30))),
            7 => s.push_str(&format!("m.set({}, {i}); st.add('e{}');\n", ["1", "'a'", "NaN", "-0", "o", "'k1'", "2", "null"][t.below(8)], t.below(12))),
            8 => s.push_str(&format!("m.delete({}); st.delete('e{}');\n", ["1", "'a'", "NaN", "0", "o", "2"][t.below(6)], t.below(12))),
            9 => s.push_str(&format!("o[{}] = {i};\n", ["'4294967294'", "'4294967295'", "'-1'", "'01'", "'1.5'", "1e21", "2**31"][t.below(7)])),
            10 => s.push_str(&format!("Object.defineProperty(o, 'd{}', {{ value: {i}, enumerable: {}, configurable: true }});\n", t.below(6), t.bool())),
            _ => {
                observations += 1;
                match t.below(6) {
                    0 => s.push_str("print(Reflect.ownKeys(o).map(k => typeof k === 'symbol' ? 'S:' + k.description : k).join(','));\n"),
                    1 => s.push_str("var ks = []; for (var k in o) ks.push(k); print(ks.join(','));\n"),
                    2 => s.push_str("print(JSON.stringify(o));\n"),
                    3 => s.push_str("print([...m.keys()].map(String).join(','), [...st].join(','));\n"),
                    4 => s.push_str("print(Object.keys(o).length, Object.getOwnPropertySymbols(o).length, m.size, st.size);\n"),
                    _ => s.push_str("print(Object.entries(o).map(e => e.join(':')).join(','));\n"),
                }
            }
        }
    }
    s.push_str("print(Reflect.ownKeys(o).map(k => typeof k === 'symbol' ? 'S:' + k.description : k).join(','));\n");
    s.push_str("var ks2 = []; for (var k2 in o) ks2.push(k2); print(ks2.join(','));\n");
    s.push_str("print([...m].map(e => String(e[0]) + '=' + e[1]).join(','), [...st].join(','));\n");
    observations += 3;
    // sort stability, template identity, names
    let mut items = vec![];
    for i in 0..(6 + t.below(20)) {
        items.push(format!("{{k:{},i:{i}}}", t.below(4)));
    }
    s.push_str(&format!("print([{}].sort((a, b) => a.k - b.k).map(x => x.k + ':' + x.i).join(' '));\n", items.join(",")));
    s.push_str("function tag(s) { return s; } function mk() { return tag`a${1}b`; }\nprint(mk() === mk(), tag`a${1}b` === tag`a${1}b`, Object.isFrozen(mk()), mk().raw.join('|'));\n");
    s.push_str("class K { static m() {} get g() { return 1; } ['c' + 1]() {} } print(K.name, K.length, K.m.name, Object.getOwnPropertyDescriptor(K.prototype, 'g').get.name, K.prototype.c1.name);\n");
    s.push_str("print(String(Symbol('d')), Symbol.for('r') === Symbol.for('r'), Symbol.keyFor(Symbol.for('r')), String(new Error('m')), String(new TypeError('t')));\n");
    s.push_str("var wm = new WeakMap(), wk = {}; wm.set(wk, 1); print(wm.get(wk), wm.has({}), Object.getOwnPropertyNames(function f(a, b) {}).join(','));\n");
    s.push_str("print(Object.getOwnPropertyNames(Object.getPrototypeOf([])).slice(0, 12).join(','), Reflect.ownKeys(Math).length > 10, Reflect.ownKeys(globalThis).filter(k => typeof k === 'string').slice(0, 25).join(','));\n");
    observations += 6;
    (s, observations)
}

/// A program that damages every configurable built-in it can reach from the global object.
pub const SABOTAGE: &str = r#"(function () {
  var seen = new Set(), work = [globalThis], n = 0;
  var getOwn = Reflect.ownKeys, getDesc = Object.getOwnPropertyDescriptor, defProp = Object.defineProperty, setProto = Object.setPrototypeOf, freeze = Object.freeze, del = Reflect.deleteProperty, isObj = function (v) { return (typeof v === 'object' && v !== null) || typeof v === 'function'; };
  var objs = [];
  while (work.length && n < 4000) {
    var cur = work.pop();
    if (!isObj(cur) || seen.has(cur)) continue;
    seen.add(cur); n++; objs.push(cur);
    var keys;
    try { keys = getOwn(cur); } catch (e) { continue; }
    for (var i = 0; i < keys.length; i++) {
      var d;
      try { d = getDesc(cur, keys[i]); } catch (e) { continue; }
      if (!d) continue;
      if (isObj(d.value)) work.push(d.value);
      if (isObj(d.get)) work.push(d.get);
      if (isObj(d.set)) work.push(d.set);
    }
    try { var p = Object.getPrototypeOf(cur); if (p) work.push(p); } catch (e) {}
  }
  var k = 0;
  for (var j = objs.length - 1; j >= 0; j--) {
    var ob = objs[j];
    var ks;
    try { ks = getOwn(ob); } catch (e) { continue; }
    for (var q = 0; q < ks.length; q++) {
      k++;
      try {
        if (k % 3 === 0) del(ob, ks[q]);
        else if (k % 3 === 1) defProp(ob, ks[q], { value: 'sabotaged' + k, writable: true, configurable: true });
        else ob[ks[q]] = function () { return 'sabotaged'; };
      } catch (e) {}
    }
    try { ob.extra = 'x' + j; ob[0] = 'zero'; } catch (e) {}
    try { if (j % 2) setProto(ob, null); } catch (e) {}
    try { if (j % 5 === 0) freeze(ob); } catch (e) {}
  }
})();
"#;
