//! API fuzz ("wild" profile): random built-in method calls with random receivers/arguments.
//! Methods are chosen *by index at run time* from the receiver's prototype chain, so every
//! builtin method boa has is reachable without a hand-written list.

use crate::tape::Tape;

pub const WILD_PRELUDE: &str = r#"var __log = [];
function __names(o) { var r = []; for (var p = o, d = 0; p != null && d < 6; p = Object.getPrototypeOf(p), d++) { var ks = Reflect.ownKeys(p); for (var i = 0; i < ks.length; i++) r.push(ks[i]); } return r; }
function __t(x) { try { if (x === null) return 'null'; var t = typeof x; if (t === 'object') return Array.isArray(x) ? 'array' + x.length : 'object'; if (t === 'number' || t === 'boolean' || t === 'undefined') return String(x); if (t === 'string') return 's' + x.length; return t; } catch (e) { return 'err'; } }
function __call(o, n, args) {
  var list, k, f;
  try { list = __names(Object(o)); } catch (e) { return; }
  if (!list.length) return;
  k = list[n % list.length];
  if (k === 'random' || k === 'now' || k === 'getTimezoneOffset' || (typeof k === 'string' && k.indexOf('Locale') >= 0) || k === 'constructor' || k === 'wait' || k === 'waitAsync' || k === 'toString' && typeof o === 'function' || k === 'toSource') return;
  try { f = o[k]; } catch (e) { __log.push('get throws ' + (e && e.name)); return; }
  if (typeof f !== 'function') { __log.push(__t(f)); return f; }
  var saved = __self; __self = o;
  try { var r = Reflect.apply(f, o, args); __self = saved; __log.push(String(k.description || k) + ':' + __t(r)); return r; } catch (e) { __self = saved; __log.push(String(k.description || k) + ' throws ' + (e && e.name)); }
}
// re-entrancy: callbacks and generator bodies that operate on the object whose builtin method is running
var __self, __rk = 0, __rdepth = 0;
function __op(o, k) {
  if (__rdepth > 1 || o === undefined || o === null) return;
  __rdepth++;
  try {
    switch (k % 16) {
      case 0: __call(o, k >> 4, []); break;
      case 1: o.length = 0; break;
      case 2: if (typeof o.clear === 'function') o.clear(); break;
      case 3: if (typeof o.next === 'function') o.next(1); break;
      case 4: if (typeof o['return'] === 'function') o['return'](2); break;
      case 5: if (typeof o['throw'] === 'function') o['throw'](3); break;
      case 6: if (typeof o.push === 'function') o.push(1, 2); break;
      case 7: delete o[0]; delete o.a; break;
      case 8: if (typeof o.resize === 'function') o.resize(0); else if (o.buffer && typeof o.buffer.resize === 'function') o.buffer.resize(1); break;
      case 9: if (typeof o.transfer === 'function') o.transfer(); else if (o.buffer && typeof o.buffer.transfer === 'function') o.buffer.transfer(); break;
      case 10: Object.freeze(o); break;
      case 11: Object.setPrototypeOf(o, null); break;
      case 12: o.lastIndex = 1; o[0] = o; o.a = o; break;
      case 13: if (typeof o.set === 'function') o.set(k, o); else if (typeof o.add === 'function') o.add(k); break;
      case 14: if (typeof o['delete'] === 'function') o['delete'](1); else if (typeof o.pop === 'function') o.pop(); break;
      default: __call(o, k >> 4, [o]); break;
    }
  } catch (e) { __log.push('re throws ' + (e && e.name)); }
  __rdepth--;
}
function __re() { __op(__self, __rk); __rk = __rk * 7 + 3 & 1023; }
function __sg(k) {
  var g = (function* () { try { var x = yield 1; __op(g, k); yield 2; } catch (e) { __op(g, k); yield 3; } finally { __op(g, k + 1); } })();
  g.next(); return g;
}
function __asg(k) {
  var g = (async function* () { try { var x = yield 1; __op(g, k); yield 2; } catch (e) { __op(g, k); yield 3; } finally { __op(g, k + 1); } })();
  g.next(); return g;
}
"#;

const RECV: &[&str] = &[
    "[1, 2, 3]", "[]", "[1.5, , 'x', {}]", "'abc'", "''", "'\\ud83d\\ude00\\u00e9 x'", "42", "-0", "NaN", "1.5", "10n", "true", "Symbol('s')", "Symbol.iterator",
    "({ a: 1, b: 'x' })", "Object.create(null)", "function f(a, b) { return a }", "(() => 1)", "(function* () { yield 1; yield 2; })()", "(async function () {})",
    "new Map([[1, 2], ['k', {}]])", "new Set([1, 'a', NaN])", "new WeakMap()", "new WeakSet()", "new WeakRef({})", "/a(b)?/gi", "/(?<n>x)|y/u",
    "new Uint8Array(8)", "new Float64Array([1.5, -0, NaN])", "new BigInt64Array(2)", "new Int16Array(new ArrayBuffer(16, { maxByteLength: 64 }))",
    "new ArrayBuffer(8)", "new ArrayBuffer(8, { maxByteLength: 32 })", "new SharedArrayBuffer(8)", "new DataView(new ArrayBuffer(16), 2)",
    "Promise.resolve(1)", "new Promise(() => {})", "new Proxy({}, {})", "new Proxy([1, 2], {})", "new Proxy(function () {}, {})",
    "new Error('e')", "new RangeError('r')", "new Date(0)", "new Date(NaN)", "new Boolean(false)", "new String('boxed')", "new Number(7)",
    "Math", "JSON", "Reflect", "Object", "Array", "String", "Number", "BigInt", "Symbol", "Function", "Promise", "Atomics", "globalThis", "Array.prototype", "Object.prototype",
    "[].values()", "new Map().entries()", "'ab'[Symbol.iterator]()", "/x/g[Symbol.matchAll]('xx')", "arguments", "new (class A { #p = 1; static s = 2; m() { return this.#p } })()",
    "new FinalizationRegistry(() => {})", "Intl", "new Array(300)", "Object.freeze([1, 2])", "Object.seal({ z: 1 })", "R0", "R1", "R2", "R3",
    "__sg(3)", "__sg(4)", "__sg(5)", "__sg(0)", "__asg(3)", "__asg(4)", "__sg(__rk)", "__asg(__rk)",
];
const ARGS: &[&str] = &[
    "0", "1", "2", "3", "-1", "0.5", "NaN", "Infinity", "-Infinity", "-0", "300", "undefined", "null", "true", "'a'", "''", "'length'", "'0'", "'abc'", "10n",
    "[]", "[1, 2]", "({})", "({ length: 3, 0: 'a' })", "(x => x)", "((a, b) => a < b ? -1 : a > b ? 1 : 0)", "function () { return this }", "Symbol.iterator", "/b/g",
    "({ valueOf() { return 2 } })", "({ toString() { return 'k' } })", "({ get x() { return 1 } })", "new Uint8Array(4)", "new ArrayBuffer(4)", "Object", "Set",
    "R0", "R1", "R2", "R3", "({ then(r) { r(1) } })", "({ [Symbol.toPrimitive]() { throw new TypeError('tp') } })", "'\\ud800'", "1000", "-300", "2.5",
    "(function () { __re(); return 1 })", "(function (a, b) { __re(); return a < b ? -1 : 1 })", "({ valueOf() { __re(); return 1 } })", "({ toString() { __re(); return '0' } })",
    "({ get length() { __re(); return 2 }, 0: 1, 1: 2 })", "({ [Symbol.iterator]() { __re(); return [1, 2][Symbol.iterator]() } })", "({ then(r) { __re(); r(1) } })",
    "new Proxy({}, { get(t, k) { __re(); return t[k] }, has() { __re(); return false } })", "({ get x() { __re(); return 1 }, get 0() { __re(); return 0 } })",
];

pub struct Wild {
    pub src: String,
    pub calls: usize,
}

pub fn generate(tape: &[u8]) -> Wild {
    let mut t = Tape::new(tape);
    let mut s = String::from(WILD_PRELUDE);
    s.push_str("var R0 = 0, R1 = 'r', R2 = [], R3 = {};\n(function () {\n");
    let n = 3 + t.below(14);
    for _ in 0..n {
        let recv = *t.pick(RECV);
        let idx = t.below(200);
        let nargs = t.below(4);
        let mut args = vec![];
        for _ in 0..nargs {
            args.push(*t.pick(ARGS));
        }
        let dst = t.below(4);
        if t.chance(100) {
            s.push_str(&format!("__rk = {};\n", t.below(256)));
        }
        s.push_str(&format!("try {{ R{dst} = __call({recv}, {idx}, [{}]); }} catch (e) {{ __log.push('outer ' + (e && e.name)); }}\n", args.join(", ")));
    }
    s.push_str("})();\nprint(__log.join('|'));\n");
    Wild { src: s, calls: n }
}
