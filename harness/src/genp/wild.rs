//! API fuzz ("wild" profile): random built-in method calls with random receivers/arguments.
//! Methods are chosen *by index at run time* from the receiver's prototype chain, so every
//! builtin method boa has is reachable without a hand-written list.

use crate::tape::Tape;

pub const WILD_PRELUDE: &str = r#"var __log = [];
function __names(o) { var r = []; for (var p = o, d = 0; p != null && d < 6; p = Object.getPrototypeOf(p), d++) { var ks = Reflect.ownKeys(p); for (var i = 0; i < ks.length; i++) r.push(ks[i]); } return r; }
function __t(x) { try { if (x === null) return 'null'; var t = typeof x; if (t === 'object') return Array.isArray(x) ? 'array' + x.length : 'object'; if (t === 'number' || t === 'boolean' || t === 'undefined') return String(x); if (t === 'string') return 's' + x.length; return t; } catch (e) { return 'err'; } }
function __call(o, n, args) {
  var list, k, f;
  try { list = __names(Object(o)); } catch (e) { return; }
  if (!list.length) return;
  k = list[n % list.length];
  if (k === 'random' || k === 'now' || k === 'getTimezoneOffset' || (typeof k === 'string' && k.indexOf('Locale') >= 0) || k === 'constructor' || k === 'wait' || k === 'waitAsync' || k === 'toString' && typeof o === 'function' || k === 'toSource') return;
  try { f = o[k]; } catch (e) { __log.push('get throws ' + (e && e.name)); return; }
  if (typeof f !== 'function') { __log.push(__t(f)); return f; }
  try { var r = Reflect.apply(f, o, args); __log.push(String(k.description || k) + ':' + __t(r)); return r; } catch (e) { __log.push(String(k.description || k) + ' throws ' + (e && e.name)); }
}
"#;

const RECV: &[&str] = &[
    "[1, 2, 3]", "[]", "[1.5, , 'x', {}]", "'abc'", "''", "'\\ud83d\\ude00\\u00e9 x'", "42", "-0", "NaN", "1.5", "10n", "true", "Symbol('s')", "Symbol.iterator",
    "({ a: 1, b: 'x' })", "Object.create(null)", "function f(a, b) { return a }", "(() => 1)", "(function* () { yield 1; yield 2; })()", "(async function () {})",
    "new Map([[1, 2], ['k', {}]])", "new Set([1, 'a', NaN])", "new WeakMap()", "new WeakSet()", "new WeakRef({})", "/a(b)?/gi", "/(?<n>x)|y/u",
    "new Uint8Array(8)", "new Float64Array([1.5, -0, NaN])", "new BigInt64Array(2)", "new Int16Array(new ArrayBuffer(16, { maxByteLength: 64 }))",
    "new ArrayBuffer(8)", "new ArrayBuffer(8, { maxByteLength: 32 })", "new SharedArrayBuffer(8)", "new DataView(new ArrayBuffer(16), 2)",
    "Promise.resolve(1)", "new Promise(() => {})", "new Proxy({}, {})", "new Proxy([1, 2], {})", "new Proxy(function () {}, {})",
    "new Error('e')", "new RangeError('r')", "new Date(0)", "new Date(NaN)", "new Boolean(false)", "new String('boxed')", "new Number(7)",
    "Math", "JSON", "Reflect", "Object", "Array", "String", "Number", "BigInt", "Symbol", "Function", "Promise", "Atomics", "globalThis", "Array.prototype", "Object.prototype",
    "[].values()", "new Map().entries()", "'ab'[Symbol.iterator]()", "/x/g[Symbol.matchAll]('xx')", "arguments", "new (class A { #p = 1; static s = 2; m() { return this.#p } })()",
    "new FinalizationRegistry(() => {})", "Intl", "new Array(300)", "Object.freeze([1, 2])", "Object.seal({ z: 1 })", "R0", "R1", "R2", "R3",
];
const ARGS: &[&str] = &[
    "0", "1", "2", "3", "-1", "0.5", "NaN", "Infinity", "-Infinity", "-0", "300", "undefined", "null", "true", "'a'", "''", "'length'", "'0'", "'abc'", "10n",
    "[]", "[1, 2]", "({})", "({ length: 3, 0: 'a' })", "(x => x)", "((a, b) => a < b ? -1 : a > b ? 1 : 0)", "function () { return this }", "Symbol.iterator", "/b/g",
    "({ valueOf() { return 2 } })", "({ toString() { return 'k' } })", "({ get x() { return 1 } })", "new Uint8Array(4)", "new ArrayBuffer(4)", "Object", "Set",
    "R0", "R1", "R2", "R3", "({ then(r) { r(1) } })", "({ [Symbol.toPrimitive]() { throw new TypeError('tp') } })", "'\\ud800'", "1000", "-300", "2.5",
];

pub struct Wild {
    pub src: String,
    pub calls: usize,
}

pub fn generate(tape: &[u8]) -> Wild {
    let mut t = Tape::new(tape);
    let mut s = String::from(WILD_PRELUDE);
    s.push_str("var R0 = 0, R1 = 'r', R2 = [], R3 = {};\n(function () {\n");
    let n = 3 + t.below(14);
    for _ in 0..n {
        let recv = *t.pick(RECV);
        let idx = t.below(200);
        let nargs = t.below(4);
        let mut args = vec![];
        for _ in 0..nargs {
            args.push(*t.pick(ARGS));
        }
        let dst = t.below(4);
        s.push_str(&format!("try {{ R{dst} = __call({recv}, {idx}, [{}]); }} catch (e) {{ __log.push('outer ' + (e && e.name)); }}\n", args.join(", ")));
    }
    s.push_str("})();\nprint(__log.join('|'));\n");
    Wild { src: s, calls: n }
}
