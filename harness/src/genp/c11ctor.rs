//! C11 support: every way of constructing a `JsString` with given code units. The constructor
//! set is a deterministic function of the units (so that a rendered input names constructors).

use super::c11model::{Cp, m_code_points, m_is_ws, m_to_string};
use boa_string::{CommonJsStringBuilder, JsStr, JsStrVariant, JsString, Latin1JsStringBuilder, StaticJsStrings, StaticString, Utf16JsStringBuilder};
use std::any::Any;
use std::borrow::Cow;
use std::str::FromStr;

pub struct Built {
    pub name: String,
    pub s: JsString,
    /// representation tag, e.g. `Latin1Sequence/L1`, `Slice/U16`, `Static/L1`
    pub repr: String,
}

/// Constructed strings plus the storage that own-made static strings point into.
/// Field order matters: `strings` is dropped before `keep`.
pub struct Arena {
    pub strings: Vec<Built>,
    /// invariants of constructors that failed (name, description)
    pub ctor_failures: Vec<(String, String)>,
    keep: Vec<Box<dyn Any>>,
}

pub fn repr_of(s: &JsString) -> String {
    let d = format!("{:?}", s.debug_info());
    let kind = d.split("kind: ").nth(1).and_then(|r| r.split(',').next()).unwrap_or("?").to_string();
    let v = match s.variant() {
        JsStrVariant::Latin1(_) => "L1",
        JsStrVariant::Utf16(_) => "U16",
    };
    format!("{kind}/{v}")
}

pub fn all_latin1(u: &[u16]) -> Option<Vec<u8>> {
    u.iter().map(|x| u8::try_from(*x).ok()).collect()
}

/// the natural `JsStr` view of plain data: Latin-1 when possible
fn with_part<R>(u: &[u16], f: impl FnOnce(JsStr<'_>) -> R) -> R {
    match all_latin1(u) {
        Some(b) => f(JsStr::latin1(&b)),
        None => f(JsStr::utf16(u)),
    }
}

pub fn split_points(n: usize) -> Vec<usize> {
    let mut v: Vec<usize> = if n <= 8 { (0..=n).collect() } else { vec![0, 1, n / 2, n - 1, n] };
    v.dedup();
    v
}

impl Arena {
    fn add(&mut self, name: impl Into<String>, s: JsString) {
        let repr = repr_of(&s);
        self.strings.push(Built { name: name.into(), s, repr });
    }
    fn add_opt(&mut self, name: impl Into<String>, s: Option<JsString>) {
        if let Some(s) = s {
            self.add(name, s);
        }
    }

    fn own_static_u16(&mut self, u: &[u16]) -> JsString {
        let data: Box<[u16]> = u.into();
        // SAFETY: `data` is kept alive in `self.keep`, which is dropped after every string.
        let js: JsStr<'static> = unsafe { JsStr::utf16(&*(&*data as *const [u16])) };
        let st = Box::new(StaticString::new(js));
        // SAFETY: as above.
        let sref: &'static StaticString = unsafe { &*(&*st as *const StaticString) };
        self.keep.push(Box::new(data));
        self.keep.push(st);
        JsString::from_static(sref)
    }
    fn own_static_l1(&mut self, b: &[u8]) -> JsString {
        let data: Box<[u8]> = b.into();
        // SAFETY: `data` is kept alive in `self.keep`, which is dropped after every string.
        let js: JsStr<'static> = unsafe { JsStr::latin1(&*(&*data as *const [u8])) };
        let st = Box::new(StaticString::new(js));
        // SAFETY: as above.
        let sref: &'static StaticString = unsafe { &*(&*st as *const StaticString) };
        self.keep.push(Box::new(data));
        self.keep.push(st);
        JsString::from_static(sref)
    }
}

/// Build `u` through every applicable constructor (`full`) or through a small representative set.
pub fn build_all(u: &[u16], full: bool) -> Arena {
    let mut a = Arena { strings: vec![], ctor_failures: vec![], keep: vec![] };
    let n = u.len();
    let l1 = all_latin1(u);
    let valid = m_to_string(u);

    a.add("from_u16", JsString::from(u));
    a.add("from_jsstr_utf16", JsString::from(JsStr::utf16(u)));
    if let Some(b) = &l1 {
        a.add("from_jsstr_latin1", JsString::from(JsStr::latin1(b)));
    }
    if let Some(s) = &valid {
        a.add("from_str", JsString::from(s.as_str()));
        if full {
            a.add("from_string", JsString::from(s.clone()));
            a.add("from_str_parse", JsString::from_str(s).expect("infallible"));
            a.add("from_cow_borrowed", JsString::from(Cow::Borrowed(s.as_str())));
            a.add("from_cow_owned", JsString::from(Cow::<str>::Owned(s.clone())));
        }
    }
    if full {
        match n {
            0 => a.add("from_u16_array", JsString::from(&[0u16; 0])),
            1 => a.add("from_u16_array", JsString::from(&[u[0]])),
            2 => a.add("from_u16_array", JsString::from(&[u[0], u[1]])),
            3 => a.add("from_u16_array", JsString::from(&[u[0], u[1], u[2]])),
            _ => {}
        }
    }

    // ---- builders
    if let Some(b) = &l1 {
        let mut bl = Latin1JsStringBuilder::new();
        for x in b {
            bl.push(*x);
        }
        // `build()` must refuse exactly the non-ASCII contents
        let ascii = b.is_ascii();
        let strict = bl.clone().build();
        if strict.is_some() != ascii {
            a.ctor_failures.push(("b_latin1_push".into(), format!("Latin1JsStringBuilder::build() is_some={} but is_ascii={ascii}", strict.is_some())));
        }
        a.add_opt("b_latin1_build_ascii", strict);
        // SAFETY: every byte is a Latin-1 code point by construction.
        a.add("b_latin1_push", unsafe { bl.build_as_latin1() });
        if full {
            let k = n / 2;
            let mut bl = Latin1JsStringBuilder::with_capacity(1);
            bl.extend_from_slice(&b[..k]);
            bl.reserve(3);
            bl.extend_from_slice(&b[k..]);
            // SAFETY: as above.
            a.add("b_latin1_chunk", unsafe { bl.build_as_latin1() });
            let bl: Latin1JsStringBuilder = b.iter().copied().collect();
            // SAFETY: as above.
            a.add("b_latin1_iter", unsafe { bl.build_as_latin1() });
            let bl = Latin1JsStringBuilder::from(&b[..k]) + &b[k..];
            // SAFETY: as above.
            a.add("b_latin1_from_add", unsafe { bl.build_as_latin1() });
            let mut bl = Latin1JsStringBuilder::new();
            bl.reserve_exact(n + 5);
            bl += &b[..];
            let mut other = Latin1JsStringBuilder::from(&b"zzzzzzzzzzzz"[..]);
            other.clone_from(&bl);
            // SAFETY: as above.
            a.add("b_latin1_clone_from", unsafe { other.build_as_latin1() });
        }
    }
    {
        let mut bu = Utf16JsStringBuilder::new();
        for x in u {
            bu.push(*x);
        }
        a.add("b_utf16_push", bu.build());
        if full {
            let k = n / 2;
            let mut bu = Utf16JsStringBuilder::with_capacity(1);
            bu.extend_from_slice(&u[..k]);
            bu.reserve(3);
            bu.extend_from_slice(&u[k..]);
            a.add("b_utf16_chunk", bu.build());
            let bu: Utf16JsStringBuilder = u.iter().copied().collect();
            a.add("b_utf16_iter", bu.build());
            let bu = Utf16JsStringBuilder::from(&u[..k]) + &u[k..];
            a.add("b_utf16_from_add", bu.build());
            let mut bu = Utf16JsStringBuilder::new();
            bu.reserve_exact(n + 5);
            bu += u;
            let mut other = Utf16JsStringBuilder::from(&[7u16; 9][..]);
            other.clone_from(&bu);
            a.add("b_utf16_clone_from", other.build());
            let c = bu.clone();
            a.add("b_utf16_clone", c.build());
        }
    }
    if full {
        // CommonJsStringBuilder: one segment per code point (u8 / char / one-unit string)
        let mk = |u: &[u16]| {
            let mut cb = CommonJsStringBuilder::with_capacity(2);
            for (i, cp) in m_code_points(u).into_iter().enumerate() {
                match cp {
                    Cp::Scalar(x) if x < 0x80 && i % 2 == 0 => cb.push(x as u8),
                    Cp::Scalar(x) => cb.push(char::from_u32(x).expect("scalar")),
                    Cp::Lone(x) => cb.push(&[x][..]),
                }
            }
            cb
        };
        a.add("b_common", mk(u).build());
        a.add("b_common_utf16", mk(u).build_from_utf16());
        let from_l1 = mk(u).build_from_latin1();
        if u.iter().all(|x| *x < 0x80) && from_l1.is_none() {
            a.ctor_failures.push(("b_common_latin1".into(), "build_from_latin1() is None for ASCII segments".into()));
        }
        a.add_opt("b_common_latin1", from_l1);
        // segments given as JsStr / JsString / &str halves
        let k = n / 2;
        let left = JsString::from(&u[..k]);
        let mut cb = CommonJsStringBuilder::new();
        cb.push(left);
        with_part(&u[k..], |p| {
            let mut cb2 = cb.clone();
            cb2.push(p);
            a.add("b_common_str_segments", cb2.build());
        });
    }

    // ---- concatenations of every split
    let splits = if full { split_points(n) } else { vec![n / 2] };
    for &k in &splits {
        let (x, y) = (&u[..k], &u[k..]);
        let s = with_part(x, |px| with_part(y, |py| JsString::concat(px, py)));
        a.add(format!("concat@{k}"), s);
        if full {
            a.add(format!("concat_utf16@{k}"), JsString::concat(JsStr::utf16(x), JsStr::utf16(y)));
            a.add(format!("concat_mixed@{k}"), with_part(x, |px| JsString::concat(px, JsStr::utf16(y))));
            let parts = [JsString::from(x), JsString::from(y)];
            a.add(format!("from_jsstrings@{k}"), JsString::from(&parts[..]));
            a.add(format!("from_jsstring_array@{k}"), JsString::from(&parts));
            // three-way split: the right part is split again in the middle
            let m = y.len() / 2;
            let s = with_part(x, |px| with_part(&y[..m], |p1| JsString::concat_array(&[px, p1, JsStr::utf16(&y[m..])])));
            a.add(format!("concat_array3@{k}"), s);
        }
    }
    if full {
        a.add("concat_array_empty_parts", with_part(u, |p| JsString::concat_array(&[JsStr::EMPTY, p, JsStr::utf16(&[])])));
    }

    // ---- slices out of prefix·u·suffix
    {
        let mut pu: Vec<u16> = vec![0x100, 0x79];
        pu.extend_from_slice(u);
        pu.push(0x3C0);
        let parent = JsString::from(&pu[..]);
        a.add("slice_utf16_parent", parent.slice(2, 2 + n));
        if full {
            a.add_opt("get_range_utf16_parent", parent.get(2..2 + n));
            if n > 0 {
                a.add_opt("get_incl_utf16_parent", parent.get(2..=n + 1));
            }
            let inner = parent.slice(1, 2 + n);
            a.add("slice_of_slice_utf16", inner.slice(1, 1 + n));
            a.add_opt("get_to_of_from", parent.get(2..).and_then(|s| s.get(..n)));
            a.add("parent_utf16_clone_slice", parent.clone().slice(2, 2 + n));
        }
        // a UTF-16 parent with an ASCII-only prefix (from(&[u16]) never narrows)
        let mut px: Vec<u16> = vec![0x78, 0x79];
        px.extend_from_slice(u);
        let parent2 = JsString::from(&px[..]);
        if full {
            a.add("slice_clamped_end", parent2.slice(2, usize::MAX));
            a.add_opt("get_from", parent2.get(2..));
        }
    }
    if let Some(b) = &l1 {
        let mut pb: Vec<u8> = vec![0x78, 0xE9];
        pb.extend_from_slice(b);
        pb.push(0x7A);
        let parent = JsString::from(JsStr::latin1(&pb));
        a.add("slice_latin1_parent", parent.slice(2, 2 + n));
        if full {
            a.add_opt("get_range_latin1_parent", parent.get(2..2 + n));
            let inner = parent.slice(1, 3 + n);
            a.add("slice_of_slice_latin1", inner.slice(1, 1 + n));
            a.add_opt("get_to_incl_latin1", if n > 0 { parent.get(2..).and_then(|s| s.get(..=n - 1)) } else { None });
        }
    }
    if full {
        let base = JsString::from(u);
        a.add("slice_self", base.slice(0, n));
        a.add_opt("get_full", base.get(..));
        a.add("clone_from_u16", base.clone());
        // through into_raw / from_raw
        let raw = base.clone().into_raw();
        // SAFETY: `raw` was just returned by `into_raw`.
        a.add("raw_roundtrip", unsafe { JsString::from_raw(raw) });
        a.add("map_valid_identity", base.map_valid_segments(|s| s));
        let sl = a.strings.iter().find(|b| b.name == "slice_utf16_parent").map(|b| b.s.clone());
        if let Some(sl) = sl {
            let raw = sl.clone().into_raw();
            // SAFETY: as above.
            a.add("raw_roundtrip_slice", unsafe { JsString::from_raw(raw) });
            a.add("clone_slice", sl);
        }
    }

    // ---- trims out of padded parents (only when u itself has no leading/trailing whitespace)
    if full && u.first().is_none_or(|x| !m_is_ws(*x)) && u.last().is_none_or(|x| !m_is_ws(*x)) {
        let mut p: Vec<u16> = vec![0x3000, 0x20, 0xFEFF];
        p.extend_from_slice(u);
        p.extend_from_slice(&[0x0A, 0x2028]);
        let parent = JsString::from(&p[..]);
        a.add("trim_utf16_parent", parent.trim());
        a.add("trim_start_end_utf16_parent", parent.trim_start().trim_end());
        if let Some(b) = &l1 {
            let mut p: Vec<u8> = vec![0x20, 0xA0, 0x09];
            p.extend_from_slice(b);
            p.extend_from_slice(&[0x0D, 0x0C, 0x20]);
            let parent = JsString::from(JsStr::latin1(&p));
            a.add("trim_latin1_parent", parent.trim());
            a.add("trim_end_start_latin1_parent", parent.trim_end().trim_start());
        }
    }

    // ---- static strings
    {
        let look_u = StaticJsStrings::get_string(&JsStr::utf16(u));
        if let Some(b) = &l1 {
            let look_l = StaticJsStrings::get_string(&JsStr::latin1(b));
            if look_l.is_some() != look_u.is_some() {
                a.ctor_failures.push(("static_lookup".into(), format!("StaticJsStrings::get_string: latin1 view is_some={} utf16 view is_some={}", look_l.is_some(), look_u.is_some())));
            }
            let js_l = StaticJsStrings::get_js_str(&JsStr::latin1(b)).is_some();
            let js_u = StaticJsStrings::get_js_str(&JsStr::utf16(u)).is_some();
            if js_l != js_u || js_u != look_u.is_some() {
                a.ctor_failures.push(("static_lookup".into(), format!("StaticJsStrings::get_js_str: latin1 view {js_l} utf16 view {js_u} get_string {}", look_u.is_some())));
            }
            if full {
                a.add_opt("static_lookup_latin1", look_l);
            }
        }
        a.add_opt("static_lookup", look_u);
        let s = a.own_static_u16(u);
        a.add("static_own_utf16", s);
        if let Some(b) = &l1 {
            let s = a.own_static_l1(b);
            if full {
                a.add("clone_static_own_latin1", s.clone());
            }
            a.add("static_own_latin1", s);
        }
        if full {
            if n == 0 {
                a.add("default", JsString::default());
                a.add("const_EMPTY_STRING", StaticJsStrings::EMPTY_STRING);
            }
            for (w, c) in [("length", StaticJsStrings::LENGTH), ("Array", StaticJsStrings::ARRAY), ("Symbol.iterator", StaticJsStrings::SYMBOL_ITERATOR)] {
                if w.encode_utf16().eq(u.iter().copied()) {
                    a.add(format!("const_{w}"), c);
                }
            }
        }
    }
    a
}
