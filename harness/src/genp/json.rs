//! Tape-driven generators for C18: JSON values, their texts (with legal white space and escape
//! choices), grammar-directed near misses and unit-level mutants, deep-nesting texts, and
//! `JSON.stringify` / reviver scripts.

use crate::tape::Tape;

/// A JSON value as the generator sees it. Numbers are kept as their text; `Raw` is a verbatim
/// snippet (used to plant a near miss at a value position).
#[derive(Clone, Debug)]
pub enum JV {
    Null,
    Bool(bool),
    Num(String),
    Str(Vec<u16>),
    Arr(Vec<JV>),
    Obj(Vec<(Vec<u16>, JV)>),
    Raw(Vec<u16>),
}

pub fn u16s(s: &str) -> Vec<u16> {
    s.encode_utf16().collect()
}

/// A single-quoted JavaScript string literal denoting exactly these code units (pure ASCII).
pub fn js_lit(units: &[u16]) -> String {
    let mut s = String::with_capacity(units.len() + 2);
    s.push('\'');
    for &u in units {
        match u {
            0x27 => s.push_str("\\'"),
            0x5c => s.push_str("\\\\"),
            0x20..=0x7e => s.push(u as u8 as char),
            _ => s.push_str(&format!("\\u{u:04x}")),
        }
    }
    s.push('\'');
    s
}

/// Inverse of `js_lit`: `s[at]` is the opening quote; returns the units and the index after the
/// closing quote.
pub fn parse_js_lit(s: &str, at: usize) -> Option<(Vec<u16>, usize)> {
    let b = s.as_bytes();
    if b.get(at) != Some(&b'\'') {
        return None;
    }
    let mut i = at + 1;
    let mut out = vec![];
    while i < b.len() {
        match b[i] {
            b'\'' => return Some((out, i + 1)),
            b'\\' => match b.get(i + 1)? {
                b'u' => {
                    let h = s.get(i + 2..i + 6)?;
                    out.push(u16::from_str_radix(h, 16).ok()?);
                    i += 6;
                }
                c => {
                    out.push(u16::from(*c));
                    i += 2;
                }
            },
            c => {
                out.push(u16::from(c));
                i += 1;
            }
        }
    }
    None
}

/// Inverse of the harness `print` escaping (`\uXXXX` for everything but printable ASCII).
pub fn unesc_print(s: &str) -> Vec<u16> {
    let b = s.as_bytes();
    let mut out = Vec::with_capacity(b.len());
    let mut i = 0;
    while i < b.len() {
        if b[i] == b'\\' && b.get(i + 1) == Some(&b'u') && i + 6 <= b.len() {
            if let Ok(u) = u16::from_str_radix(&s[i + 2..i + 6], 16) {
                out.push(u);
                i += 6;
                continue;
            }
        }
        out.push(u16::from(b[i]));
        i += 1;
    }
    out
}

pub const EDGE_NUMBERS: &[&str] = &[
    "-0", "-0.0", "0e0", "-0e-0", "1e400", "-1e400", "1E400", "1e-400", "-1e-400", "5e-324", "4.9e-324",
    "4.9406564584124654e-324", "2.4703282292062327e-324", "2.4703282292062328e-324", "2.47e-324", "3e-324",
    "1.7976931348623157e308", "1.7976931348623158e308", "1.7976931348623159e308", "1.797693134862315807e308",
    "1.797693134862315808e308", "9007199254740993", "9007199254740992", "9007199254740991", "-9007199254740993",
    "9007199254740993.0000000000000000001", "9007199254740992.9999999999", "0.1", "0.30000000000000004", "1e21", "1e-7",
    "123456789012345680000", "2.2250738585072011e-308", "2.2250738585072014e-308", "2.2250738585072012e-308", "1e23",
    "8.41e21", "2e-3", "0.000001", "1e99999", "1e-99999", "1e99999999999999999999", "1e-99999999999999999999",
    "0e99999999999999999999", "-0e99999999999999999999", "0.0e+0", "1E+2", "1e+00002", "1.0", "10.00", "100e-2",
    "4294967296", "4294967295", "2147483648", "-2147483648", "-2147483649", "1e-323", "1e308", "1e309", "0.5e-323",
    "0.000000000000000000000000000000000000000000000000000000001e+57", "1e0000000000000000000000000000000", "17976931348623157e292",
    "179769313486231580793728971405303415079934132710037826936173778980444968292764750946649017977587207096330286416692887910946555547851940402630657488671505820681908902000708383676273854845817711531764475730270069855571366959622842914819860834936475292719074168444365510704342711559699508093042880177904174497791.9999999999999999999999999999999999999999999999999999999999999999999999",
    "179769313486231580793728971405303415079934132710037826936173778980444968292764750946649017977587207096330286416692887910946555547851940402630657488671505820681908902000708383676273854845817711531764475730270069855571366959622842914819860834936475292719074168444365510704342711559699508093042880177904174497792",
];

/// object keys that are interesting for the JS property model
pub const KEY_POOL: &[&str] = &[
    "a", "b", "", "__proto__", "constructor", "0", "1", "c", "10", "2", "01", "-0", "-1", "1.5", "4294967294", "4294967295",
    "4294967296", "length", "toString", "valueOf", "hasOwnProperty", "toJSON", "1e3", " ", "prototype", "__proto__ ", "9007199254740993",
    "00", "+1", "\u{e9}", "\u{2028}", "\u{1f600}",
];

/// Constructs the generator avoids because of open known findings (/verif/known.d/C18.json).
/// `true` = avoided (and counted with an `excluded-...` label).
#[derive(Clone, Copy, Debug)]
pub struct Excl {
    /// C18-raw-lone-surrogate: a text containing a raw unpaired surrogate is rejected
    pub raw_lone_surrogate: bool,
    /// C18-escaped-lone-surrogate: `"\ud800"` is rejected
    pub escaped_lone_surrogate: bool,
    /// C18-number-overflow: `1e400` is rejected
    pub number_overflow: bool,
    /// C18-array-length-assignment (core engine, not JSON): `this.length = 1` at an assignment
    /// site that ran before leaves the elements in place; the reviver then uses Reflect.set
    pub array_length_assignment: bool,
}
impl Excl {
    pub fn known() -> Self {
        Self { raw_lone_surrogate: true, escaped_lone_surrogate: true, number_overflow: true, array_length_assignment: true }
    }
    pub fn none() -> Self {
        Self { raw_lone_surrogate: false, escaped_lone_surrogate: false, number_overflow: false, array_length_assignment: false }
    }
}

fn is_lead(u: u16) -> bool {
    (0xd800..0xdc00).contains(&u)
}
fn is_trail(u: u16) -> bool {
    (0xdc00..0xe000).contains(&u)
}
fn hexval(u: u16) -> Option<u16> {
    char::from_u32(u32::from(u)).and_then(|c| c.to_digit(16)).map(|d| d as u16)
}
/// the code unit denoted by a `\uXXXX` escape starting at `i`
fn escape_at(t: &[u16], i: usize) -> Option<u16> {
    if t.get(i) != Some(&0x5c) || t.get(i + 1) != Some(&0x75) || i + 6 > t.len() {
        return None;
    }
    let mut v = 0;
    for k in 2..6 {
        v = v * 16 + hexval(t[i + k])?;
    }
    Some(v)
}

/// Does this number token (any spelling Rust's float parser accepts) overflow to an infinity, or
/// come within a few ulp of Number.MAX_VALUE? (C18-number-overflow: boa's pre-validation
/// converts numbers with an imprecise algorithm and rejects what it takes for out of range,
/// e.g. 1.797693134862315807e308, which is finite.)
pub fn overflows(num: &str) -> bool {
    num.parse::<f64>().is_ok_and(|x| x.abs() >= 1.797_693_134_862_31e308)
}

/// Number-like runs of a text (maximal runs of digits, sign, point, exponent letters).
pub fn number_runs(t: &[u16]) -> Vec<(usize, usize)> {
    let isn = |u: u16| matches!(u, 0x30..=0x39 | 0x2b | 0x2d | 0x2e | 0x65 | 0x45);
    let mut out = vec![];
    let mut i = 0;
    while i < t.len() {
        if isn(t[i]) {
            let a = i;
            while i < t.len() && isn(t[i]) {
                i += 1;
            }
            out.push((a, i));
        } else {
            i += 1;
        }
    }
    out
}

pub fn has_overflowing_number(t: &[u16]) -> bool {
    number_runs(t).iter().any(|&(a, b)| b - a >= 4 && overflows(&String::from_utf16_lossy(&t[a..b])))
}

/// A raw surrogate without its raw partner next to it.
pub fn has_raw_lone_surrogate(t: &[u16]) -> bool {
    (0..t.len()).any(|i| (is_lead(t[i]) && !t.get(i + 1).is_some_and(|&n| is_trail(n))) || (is_trail(t[i]) && !(i > 0 && is_lead(t[i - 1]))))
}

/// All `\uXXXX` escapes of a text as (position, unit), scanning left to right so that an escaped
/// backslash does not start an escape.
pub fn escapes(t: &[u16]) -> Vec<(usize, u16)> {
    let mut out = vec![];
    let mut i = 0;
    while i < t.len() {
        if t[i] == 0x5c {
            if let Some(u) = escape_at(t, i) {
                out.push((i, u));
                i += 6;
            } else {
                i += 2;
            }
        } else {
            i += 1;
        }
    }
    out
}

/// Positions of surrogate escapes that have no escaped partner right next to them.
pub fn escaped_lone_surrogates(t: &[u16]) -> Vec<usize> {
    let e = escapes(t);
    let mut out = vec![];
    let mut k = 0;
    while k < e.len() {
        let (p, u) = e[k];
        if is_lead(u) && e.get(k + 1).is_some_and(|&(q, v)| q == p + 6 && is_trail(v)) {
            k += 2;
            continue;
        }
        if is_lead(u) || is_trail(u) {
            out.push(p);
        }
        k += 1;
    }
    out
}

pub fn has_escaped_lone_surrogate(t: &[u16]) -> bool {
    !escaped_lone_surrogates(t).is_empty()
}

pub struct G<'a> {
    pub excl: Excl,
    pub t: Tape<'a>,
    pub labels: Vec<&'static str>,
    pub budget: i64,
    /// the current text contains an escape, a surrogate or an edge number (the non-trivial rule)
    pub interesting: bool,
}

/// The text of a value plus positions of its structural units (outside strings).
#[derive(Default, Clone)]
pub struct TextOut {
    pub units: Vec<u16>,
    pub marks: Vec<usize>,
}

impl<'a> G<'a> {
    pub fn new(tape: &'a [u8]) -> Self {
        Self { excl: Excl::known(), t: Tape::new(tape), labels: vec![], budget: 0, interesting: false }
    }
    fn label(&mut self, l: &'static str) {
        if !self.labels.contains(&l) {
            self.labels.push(l);
        }
    }

    // ---------------------------------------------------------------- values

    fn digits(&mut self, n: usize, first_nonzero: bool) -> String {
        let mut s = String::new();
        for i in 0..n {
            let d = if i == 0 && first_nonzero { 1 + self.t.below(9) } else { self.t.below(10) };
            s.push((b'0' + d as u8) as char);
        }
        s
    }

    pub fn number(&mut self) -> String {
        let s = self.number_raw();
        if self.excl.number_overflow && overflows(&s) {
            self.label("excluded-number-overflow");
            return format!("{}1.7976931348623e308", if s.starts_with('-') { "-" } else { "" });
        }
        s
    }

    fn number_raw(&mut self) -> String {
        match self.t.weighted(&[6, 4, 1, 3, 3, 5, 3, 1]) {
            0 => self.digits(1, false),
            1 => {
                let n = 1 + self.t.below(6);
                let neg = self.t.chance(64);
                format!("{}{}", if neg { "-" } else { "" }, self.digits(n, true))
            }
            2 => {
                self.interesting = true;
                self.label("num-minus-zero");
                "-0".into()
            }
            3 => {
                let neg = self.t.chance(64);
                let int = if self.t.bool() { "0".to_string() } else { let n = 1 + self.t.below(4); self.digits(n, true) };
                let nf = 1 + self.t.below(8);
                format!("{}{}.{}", if neg { "-" } else { "" }, int, self.digits(nf, false))
            }
            4 => {
                self.label("num-exponent");
                let neg = self.t.chance(64);
                let int = if self.t.chance(64) { "0".to_string() } else { let n = 1 + self.t.below(3); self.digits(n, true) };
                let frac = if self.t.bool() { let n = 1 + self.t.below(5); format!(".{}", self.digits(n, false)) } else { String::new() };
                let e = *self.t.pick(&["e", "E", "e+", "E+", "e-", "E-"]);
                let ne = 1 + self.t.below(3);
                format!("{}{}{}{}{}", if neg { "-" } else { "" }, int, frac, e, self.digits(ne, false))
            }
            5 => {
                self.interesting = true;
                self.label("num-edge");
                (*self.t.pick(EDGE_NUMBERS)).to_string()
            }
            6 => {
                self.interesting = true;
                self.label("num-long-digits");
                let n = match self.t.below(4) {
                    0 => 17 + self.t.below(4),
                    1 => 20 + self.t.below(30),
                    2 => 50 + self.t.below(150),
                    _ => 200 + self.t.below(201),
                };
                let neg = self.t.chance(48);
                let mut d = self.digits(n, true);
                match self.t.below(4) {
                    0 => {}
                    1 => {
                        let p = 1 + self.t.below(n - 1);
                        d.insert(p, '.');
                    }
                    2 => d = format!("0.{d}"),
                    _ => {
                        let z = self.t.below(330);
                        d = format!("0.{}{}", "0".repeat(z), d);
                    }
                }
                let e = if self.t.chance(64) { format!("e{}{}", if self.t.bool() { "-" } else { "" }, self.t.below(400)) } else { String::new() };
                format!("{}{}{}", if neg { "-" } else { "" }, d, e)
            }
            _ => {
                self.interesting = true;
                self.label("num-big-exponent");
                let ne = 3 + self.t.below(20);
                let sign = *self.t.pick(&["", "-", "+"]);
                let m = *self.t.pick(&["1", "0", "-1", "9.9", "0.0"]);
                format!("{}e{}{}", m, sign, self.digits(ne, true))
            }
        }
    }

    fn unit(&mut self) -> Vec<u16> {
        match self.t.weighted(&[10, 3, 2, 2, 2, 2, 1, 2, 2, 1, 1, 2, 2, 2, 1, 1]) {
            0 => vec![b'a' as u16 + self.t.below(26) as u16],
            1 => vec![b'0' as u16 + self.t.below(10) as u16],
            2 => vec![0x20],
            3 => vec![0x22],
            4 => vec![0x5c],
            5 => vec![0x2f],
            6 => vec![0],
            7 => vec![self.t.below(0x20) as u16],
            8 => vec![*self.t.pick(&[0x7f, 0x80, 0x85, 0xa0, 0xad, 0xe9, 0xff])],
            9 => vec![0x100 + self.t.below(0xd700) as u16],
            10 => vec![*self.t.pick(&[0x2028, 0x2029, 0xfeff, 0xfffe, 0xffff, 0x200b, 0x3000, 0x1680])],
            11 => vec![0xd800 + self.t.below(0x400) as u16],
            12 => vec![0xdc00 + self.t.below(0x400) as u16],
            13 => vec![0xd800 + self.t.below(0x400) as u16, 0xdc00 + self.t.below(0x400) as u16],
            14 => vec![0xdc00 + self.t.below(0x400) as u16, 0xd800 + self.t.below(0x400) as u16],
            _ => vec![*self.t.pick(&[0x27, 0x60, 0x24, 0x7b, 0x5b, 0x2c, 0x3a])],
        }
    }

    pub fn string(&mut self) -> Vec<u16> {
        let n = match self.t.weighted(&[3, 8, 4, 1]) {
            0 => 0,
            1 => 1 + self.t.below(4),
            2 => 4 + self.t.below(12),
            _ => {
                self.label("str-long");
                200 + self.t.below(3800)
            }
        };
        let mut s = vec![];
        if n >= 200 {
            // long strings: a repeated chunk with a few special units
            let chunk: Vec<u16> = (0..1 + self.t.below(6)).flat_map(|_| self.unit()).collect();
            while s.len() < n {
                s.extend_from_slice(&chunk);
            }
        } else {
            while s.len() < n {
                let u = self.unit();
                s.extend(u);
            }
        }
        s
    }

    fn key(&mut self, earlier: &[Vec<u16>]) -> Vec<u16> {
        match self.t.weighted(&[6, 3, 3, 1]) {
            3 => u16s("__proto__"),
            0 => u16s(*self.t.pick(KEY_POOL)),
            1 if !earlier.is_empty() => {
                self.label("key-duplicate");
                earlier[self.t.below(earlier.len())].clone()
            }
            1 => u16s("a"),
            _ => self.string(),
        }
    }

    /// A JSON value nested at most `depth` levels.
    pub fn value(&mut self, depth: usize) -> JV {
        self.budget -= 1;
        let leaf = depth == 0 || self.budget <= 0;
        let k = if leaf { self.t.weighted(&[3, 1, 1, 5, 5]) } else { self.t.weighted(&[2, 1, 1, 4, 4, 5, 6]) };
        match k {
            0 => JV::Null,
            1 => JV::Bool(true),
            2 => JV::Bool(false),
            3 => JV::Num(self.number()),
            4 => JV::Str(self.string()),
            5 => {
                let n = self.t.weighted(&[2, 4, 3, 2, 1, 1]);
                JV::Arr((0..n).map(|_| self.value(depth - 1)).collect())
            }
            _ => {
                let n = self.t.weighted(&[2, 3, 4, 3, 2, 1]);
                let mut keys: Vec<Vec<u16>> = vec![];
                let mut members = vec![];
                for _ in 0..n {
                    let k = self.key(&keys);
                    if keys.contains(&k) {
                        self.label("key-duplicate");
                    }
                    if k == u16s("__proto__") {
                        self.label("key-__proto__");
                        if keys.contains(&k) {
                            self.label("key-__proto__-duplicate");
                        }
                    }
                    if k.is_empty() {
                        self.label("key-empty");
                    }
                    if !k.is_empty() && k.iter().all(|u| (0x30..0x3a).contains(u)) {
                        self.label("key-numeric");
                    }
                    keys.push(k.clone());
                    members.push((k, self.value(depth - 1)));
                }
                JV::Obj(members)
            }
        }
    }

    /// A value whose nesting is exactly `d` along one spine (siblings are small).
    pub fn spine(&mut self, d: usize) -> JV {
        if d == 0 {
            return self.value(0);
        }
        let inner = self.spine(d - 1);
        if self.t.bool() {
            let mut v = vec![];
            if self.t.chance(64) {
                v.push(self.value(0));
            }
            v.push(inner);
            if self.t.chance(64) {
                v.push(self.value(1));
            }
            JV::Arr(v)
        } else {
            let mut m = vec![];
            if self.t.chance(64) {
                m.push((self.key(&[]), self.value(0)));
            }
            m.push((self.key(&[]), inner));
            if self.t.chance(64) {
                m.push((self.key(&[]), self.value(1)));
            }
            JV::Obj(m)
        }
    }

    /// A value for the parse streams: mostly shallow, sometimes a spine up to depth 12.
    pub fn top_value(&mut self, small: bool) -> JV {
        self.budget = if small { 6 } else { 8 + self.t.below(30) as i64 };
        match self.t.weighted(&[5, 4, 2, 2]) {
            0 => self.value(0),
            1 => self.value(2),
            2 => self.value(4),
            _ => {
                let d = if small { 1 + self.t.below(3) } else { 3 + self.t.below(10) };
                if d >= 9 {
                    self.label("depth-9-12");
                }
                self.spine(d)
            }
        }
    }

    // ---------------------------------------------------------------- serialisation

    fn ws(&mut self, out: &mut TextOut, p: u32) {
        if p > 0 && self.t.chance(p) {
            self.label("whitespace");
            for _ in 0..1 + self.t.below(3) {
                out.units.push(*self.t.pick(&[0x20, 0x0a, 0x09, 0x0d]));
            }
        }
    }

    fn hex4(&mut self, u: u16, out: &mut Vec<u16>) {
        let upper = self.t.below(3);
        let h = format!("{u:04x}");
        out.extend_from_slice(&[0x5c, 0x75]);
        for c in h.chars() {
            let c = match upper {
                0 => c,
                1 => c.to_ascii_uppercase(),
                _ => {
                    if self.t.bool() { c.to_ascii_uppercase() } else { c }
                }
            };
            out.push(c as u16);
        }
    }

    /// Write a string token; `pe` = probability/256 of escaping a unit that need not be escaped.
    pub fn ser_string(&mut self, s: &[u16], out: &mut Vec<u16>, pe: u32) {
        out.push(0x22);
        let any_excl = self.excl.raw_lone_surrogate || self.excl.escaped_lone_surrogate;
        let mut pair_esc: Option<bool> = None;
        for (i, &u) in s.iter().enumerate() {
            let mut u = u;
            let lead = is_lead(u);
            let trail = is_trail(u);
            let paired = (lead && s.get(i + 1).is_some_and(|&n| is_trail(n))) || (trail && i > 0 && is_lead(s[i - 1]));
            let must = u < 0x20 || u == 0x22 || u == 0x5c;
            let mut esc = must || self.t.chance(pe);
            if (lead || trail) && !paired {
                // exclusions for the lone-surrogate findings
                match (self.excl.raw_lone_surrogate, self.excl.escaped_lone_surrogate) {
                    (true, true) => {
                        self.label("excluded-lone-surrogate");
                        u = 0xfffd;
                    }
                    (true, false) => esc = true,
                    (false, true) => esc = false,
                    _ => {}
                }
            }
            if paired && any_excl {
                // a mixed pair (one half escaped, the other raw) is a lone surrogate on both levels
                if lead {
                    pair_esc = Some(esc);
                } else if let Some(e) = pair_esc.take() {
                    esc = e;
                }
            }
            if is_lead(u) || is_trail(u) {
                self.interesting = true;
                self.label(match (paired, esc) {
                    (true, true) => "surrogate-paired-escaped",
                    (true, false) => "surrogate-paired-raw",
                    (false, true) => "surrogate-lone-escaped",
                    (false, false) => "surrogate-lone-raw",
                });
            }
            if u == 0x2028 || u == 0x2029 {
                self.label(if esc { "u2028-escaped" } else { "u2028-raw" });
            }
            if !esc {
                if u > 0x7e {
                    self.interesting = true;
                }
                out.push(u);
                continue;
            }
            self.interesting = true;
            let short = match u {
                0x22 => Some(b'"'),
                0x5c => Some(b'\\'),
                0x2f => Some(b'/'),
                0x08 => Some(b'b'),
                0x0c => Some(b'f'),
                0x0a => Some(b'n'),
                0x0d => Some(b'r'),
                0x09 => Some(b't'),
                _ => None,
            };
            if u < 0x20 {
                self.label("control-escaped");
            }
            match short {
                Some(c) if !self.t.chance(64) => {
                    self.label("escape-short");
                    out.extend_from_slice(&[0x5c, u16::from(c)]);
                }
                _ => {
                    self.label("escape-u");
                    self.hex4(u, out);
                }
            }
        }
        out.push(0x22);
    }

    /// Serialise with white space probability `pw` and optional-escape probability `pe`.
    pub fn ser(&mut self, v: &JV, out: &mut TextOut, pw: u32, pe: u32) {
        match v {
            JV::Null => out.units.extend(u16s("null")),
            JV::Bool(b) => out.units.extend(u16s(if *b { "true" } else { "false" })),
            JV::Num(n) => out.units.extend(u16s(n)),
            JV::Raw(r) => out.units.extend_from_slice(r),
            JV::Str(s) => {
                out.marks.push(out.units.len());
                self.ser_string(s, &mut out.units, pe);
                out.marks.push(out.units.len() - 1);
            }
            JV::Arr(a) => {
                out.marks.push(out.units.len());
                out.units.push(0x5b);
                self.ws(out, pw);
                for (i, x) in a.iter().enumerate() {
                    if i > 0 {
                        out.marks.push(out.units.len());
                        out.units.push(0x2c);
                        self.ws(out, pw);
                    }
                    self.ser(x, out, pw, pe);
                    self.ws(out, pw);
                }
                out.marks.push(out.units.len());
                out.units.push(0x5d);
            }
            JV::Obj(m) => {
                out.marks.push(out.units.len());
                out.units.push(0x7b);
                self.ws(out, pw);
                for (i, (k, x)) in m.iter().enumerate() {
                    if i > 0 {
                        out.marks.push(out.units.len());
                        out.units.push(0x2c);
                        self.ws(out, pw);
                    }
                    out.marks.push(out.units.len());
                    self.ser_string(k, &mut out.units, pe);
                    self.ws(out, pw);
                    out.marks.push(out.units.len());
                    out.units.push(0x3a);
                    self.ws(out, pw);
                    self.ser(x, out, pw, pe);
                    self.ws(out, pw);
                }
                out.marks.push(out.units.len());
                out.units.push(0x7d);
            }
        }
    }

    /// A valid JSON text (top-level white space allowed).
    pub fn valid_text(&mut self, small: bool) -> TextOut {
        let v = self.top_value(small);
        let pw = *self.t.pick(&[0, 0, 24, 64]);
        let pe = *self.t.pick(&[0, 16, 48, 200]);
        let mut out = TextOut::default();
        self.ws(&mut out, pw);
        self.ser(&v, &mut out, pw, pe);
        self.ws(&mut out, pw);
        let mut units = std::mem::take(&mut out.units);
        self.sanitize_surrogates(&mut units);
        out.units = units;
        out
    }

    // ---------------------------------------------------------------- exclusions

    /// In-place (length preserving): raw unpaired surrogates become U+FFFD, the leading hex digit
    /// of an unpaired surrogate escape becomes `0`.
    pub fn sanitize_surrogates(&mut self, t: &mut [u16]) {
        if self.excl.raw_lone_surrogate {
            for i in 0..t.len() {
                let lone = (is_lead(t[i]) && !t.get(i + 1).is_some_and(|&n| is_trail(n))) || (is_trail(t[i]) && !(i > 0 && is_lead(t[i - 1])));
                if lone {
                    t[i] = 0xfffd;
                    self.label("excluded-raw-lone-surrogate");
                }
            }
        }
        if self.excl.escaped_lone_surrogate {
            for p in escaped_lone_surrogates(t) {
                t[p + 2] = 0x30;
                self.label("excluded-escaped-lone-surrogate");
            }
        }
    }

    /// Number-like runs that overflow are replaced by the largest finite number.
    pub fn sanitize_overflow(&mut self, t: Vec<u16>) -> Vec<u16> {
        if !self.excl.number_overflow || !has_overflowing_number(&t) {
            return t;
        }
        let mut out = vec![];
        let mut at = 0;
        for (a, b) in number_runs(&t) {
            if b - a >= 4 && overflows(&String::from_utf16_lossy(&t[a..b])) {
                out.extend_from_slice(&t[at..a]);
                if t[a] == 0x2d {
                    out.push(0x2d);
                }
                out.extend(u16s("1.7976931348623e308"));
                at = b;
                self.label("excluded-number-overflow");
            }
        }
        out.extend_from_slice(&t[at..]);
        out
    }

    /// Lone surrogates in the strings and keys of a value become U+FFFD (round-trip blocks:
    /// stringify escapes them and the text could not be parsed back).
    pub fn sanitize_value(&mut self, v: &mut JV) {
        if !self.excl.escaped_lone_surrogate {
            return;
        }
        let mut fix = |s: &mut Vec<u16>, me: &mut Self| {
            for i in 0..s.len() {
                let lone = (is_lead(s[i]) && !s.get(i + 1).is_some_and(|&n| is_trail(n))) || (is_trail(s[i]) && !(i > 0 && is_lead(s[i - 1])));
                if lone {
                    s[i] = 0xfffd;
                    me.label("excluded-lone-surrogate-in-roundtrip-value");
                }
            }
        };
        match v {
            JV::Str(s) => fix(s, self),
            JV::Arr(a) => a.iter_mut().for_each(|x| self.sanitize_value(x)),
            JV::Obj(m) => {
                for (k, x) in m.iter_mut() {
                    fix(k, self);
                    self.sanitize_value(x);
                }
            }
            _ => {}
        }
    }

    // ---------------------------------------------------------------- near misses

    /// Returns (text, number of unit edits from a valid text or 9 when far, class label).
    pub fn near_miss(&mut self) -> (Vec<u16>, u8, &'static str) {
        let (mut t, edits, class) = self.near_miss_raw();
        self.sanitize_surrogates(&mut t);
        let t = self.sanitize_overflow(t);
        (t, edits, class)
    }

    fn near_miss_raw(&mut self) -> (Vec<u16>, u8, &'static str) {
        match self.t.weighted(&[5, 3, 4, 2]) {
            0 => {
                // a bad (or deliberately legal) token planted at a value position
                let (snip, edits) = *self.t.pick(SNIPPETS);
                let ctx = *self.t.pick(CONTEXTS);
                let mut text = vec![];
                for part in ctx.split('@').enumerate() {
                    if part.0 > 0 {
                        text.extend(u16s(snip));
                    }
                    text.extend(u16s(part.1));
                }
                (text, edits, "nm-token")
            }
            1 => {
                // structural edit at a token boundary of a valid text
                let t = self.valid_text(true);
                let mut u = t.units;
                if t.marks.is_empty() {
                    u.push(*self.t.pick(&[0x2c, 0x5d, 0x7d, 0x3a]));
                    return (u, 1, "nm-structural");
                }
                let at = t.marks[self.t.below(t.marks.len())];
                match self.t.below(4) {
                    0 => {
                        u.remove(at);
                    }
                    1 => {
                        let c = u[at];
                        u.insert(at, c);
                    }
                    2 => u[at] = *self.t.pick(&[0x2c, 0x3a, 0x5b, 0x5d, 0x7b, 0x7d, 0x22, 0x27, 0x3b, 0x28, 0x29]),
                    _ => u.insert(at, *self.t.pick(&[0x2c, 0x3a, 0x5b, 0x5d, 0x7b, 0x7d, 0x22, 0x28, 0x29])),
                }
                (u, 1, "nm-structural")
            }
            2 => {
                // unit-level mutant: 1 or 2 edits anywhere
                let mut u = self.valid_text(true).units;
                let n = 1 + self.t.below(2);
                for _ in 0..n {
                    let pos = if u.is_empty() { 0 } else { self.t.below(u.len() + 1) };
                    match self.t.below(5) {
                        0 if pos < u.len() => {
                            u.remove(pos);
                        }
                        1 if pos < u.len() => u[pos] = *self.t.pick(ALPHABET),
                        2 if pos + 1 < u.len() => u.swap(pos, pos + 1),
                        3 if pos < u.len() => {
                            let c = u[pos];
                            u.insert(pos, c);
                        }
                        _ => u.insert(pos.min(u.len()), *self.t.pick(ALPHABET)),
                    }
                }
                (u, n as u8, "nm-mutant")
            }
            _ => {
                // prefix / suffix
                let mut u = self.valid_text(true).units;
                let (s, edits) = *self.t.pick(AFFIXES);
                if self.t.chance(80) {
                    let mut v = u16s(s);
                    v.extend(u);
                    u = v;
                } else {
                    u.extend(u16s(s));
                }
                (u, edits, "nm-affix")
            }
        }
    }
}

pub const ALPHABET: &[u16] = &[
    0x5b, 0x5d, 0x7b, 0x7d, 0x2c, 0x3a, 0x22, 0x27, 0x5c, 0x2f, 0x2a, 0x30, 0x31, 0x39, 0x2b, 0x2d, 0x2e, 0x65, 0x45, 0x09, 0x0a,
    0x0b, 0x0c, 0x0d, 0x20, 0xa0, 0x85, 0x2028, 0x2029, 0xfeff, 0x1680, 0x3000, 0x00, 0x1f, 0x7f, 0x74, 0x66, 0x6e, 0x75, 0x78,
    0x76, 0x6c, 0x28, 0x29, 0x3b, 0x3d, 0x60, 0x23, 0x40, 0xd800, 0xdc00, 0xffff, 0x5f, 0x24,
];

pub const CONTEXTS: &[&str] = &[
    "@", "[@]", "[1,@]", "[@,2]", "{\"a\":@}", "{\"a\":1,\"b\":@}", "[[@]]", "{\"a\":[@]}", " @ ", "[\n@\n]", "{\"__proto__\":@}",
    "[{\"a\":@},null]",
];

/// (snippet, unit edits to the nearest valid text; 9 = far). Some snippets are valid on purpose.
pub const SNIPPETS: &[(&str, u8)] = &[
    // numbers
    ("01", 1), ("-01", 1), ("00", 1), ("+1", 1), (".5", 1), ("1.", 1), ("-.5", 1), ("1.e3", 1), ("1e", 1), ("1e+", 1), ("-", 1),
    ("--1", 1), ("0x10", 1), ("1_000", 1), ("0b1", 1), ("0o7", 1), ("1n", 1), ("Infinity", 9), ("-Infinity", 9), ("NaN", 9),
    ("-NaN", 9), ("1.2.3", 1), ("1e1.5", 1), ("\u{661}", 1), ("\u{ff11}", 1), ("- 1", 1), ("1 e3", 1), ("1e 3", 1), ("0.e1", 1),
    ("-0x0", 1), ("1E", 1), ("08", 1), ("09.5", 1), ("1.5e+", 1), ("0e", 1), ("1/2", 2), ("1+1", 2), ("1,2", 2), ("0 0", 1),
    ("-0", 0), ("1E5", 0), ("1e400", 0), ("-1e-400", 0), ("0.0", 0), ("1e+0", 0), ("+0", 1), ("0.", 1), ("0e+", 1), ("1e-", 1),
    ("0777", 1), ("1f", 1), ("1d", 1), ("0.5.", 1), ("1e5e5", 2), ("-\u{2212}1", 1), ("\u{2212}1", 1), ("1\u{0}", 1),
    // literals
    ("undefined", 9), ("True", 1), ("TRUE", 3), ("nul", 1), ("nulll", 1), ("tru", 1), ("truee", 1), ("fals", 1), ("void 0", 9),
    ("null null", 5), ("n ull", 1), ("nu\\u006cl", 6), ("this", 9), ("Null", 1), ("NULL", 4), ("t", 3), ("null", 0), ("true", 0),
    ("false", 0), ("nil", 2), ("none", 2), ("nan", 2), ("nullish", 3), ("null0", 1), ("0null", 1), ("-null", 1), ("-true", 1),
    // strings
    ("'a'", 2), ("\"a", 1), ("a\"", 1), ("\"a\\\"", 1), ("\"\\v\"", 1), ("\"\\x41\"", 1), ("\"\\u12\"", 2), ("\"\\u{41}\"", 2),
    ("\"\\0\"", 1), ("\"\\'\"", 1), ("\"\\a\"", 1), ("\"\\U0041\"", 1), ("\"\\u123g\"", 1), ("\"\\\n\"", 1), ("\"a\nb\"", 1),
    ("\"a\tb\"", 1), ("\"a\u{0}b\"", 1), ("\"\u{1f}\"", 1), ("\"\\u 0041\"", 1), ("\"\\ud83d\\u\"", 1), ("\"\\\"", 1), ("`a`", 2),
    ("\"a\" \"b\"", 3), ("\"a\"+\"b\"", 3), ("\"\\u00\\u0041\"", 2), ("\"\\u004\"", 1), ("\"\\uD800\\\"", 1), ("\"\\1\"", 1),
    ("\"\\08\"", 1), ("\"\\u+041\"", 1), ("\"\\u-041\"", 1), ("\"\\u 041\"", 1), ("\"\\u0x41\"", 2), ("\"\\u004_\"", 1),
    ("\"\u{7f}\"", 0), ("\"\u{2028}\"", 0), ("\"\u{2029}\"", 0), ("\"\\/\"", 0), ("\"\\uD800\"", 0), ("\"\\uDBFF\\uDFFF\"", 0),
    ("\"\\udc00\\ud800\"", 0), ("\"\u{feff}\"", 0), ("\"\\u000A\"", 0), ("\"\\b\\f\\n\\r\\t\\\"\\\\\"", 0), ("\"\r\"", 1),
    ("\"\\\r\n\"", 2), ("\"\\\u{2028}\"", 1), ("\"\\e\"", 1), ("\"\\N\"", 1), ("\"\\B\"", 1), ("\"\\ \"", 1), ("\"\\u\"", 4),
    ("\"${1}\"", 0), ("\"</script>\"", 0), ("\"\\u2028\\u2029\"", 0), ("\"\u{8}\"", 1), ("\"\u{c}\"", 1), ("\"\u{1b}\"", 1),
    // structure
    ("[1,]", 1), ("[,1]", 1), ("[1,,2]", 1), ("[,]", 1), ("{\"a\":1,}", 1), ("{,}", 1), ("{\"a\" 1}", 1), ("{\"a\":}", 1),
    ("{\"a\"}", 2), ("{\"a\":1 \"b\":2}", 1), ("[1 2]", 1), ("[1:2]", 1), ("{\"a\",1}", 1), ("{a:1}", 2), ("{1:1}", 2),
    ("{'a':1}", 2), ("{[\"a\"]:1}", 2), ("{a}", 9), ("[...[]]", 5), ("{get a(){}}", 9), ("{\"a\"(){}}", 4), ("(1)", 2),
    ("[1](0)", 3), ("/**/1", 4), ("1/**/", 4), ("1//x", 3), ("//x\n1", 4), ("<!--\n1", 5), ("1\n-->", 4), ("`1`", 2), ("/1/", 2),
    ("new Object", 9), ("-\"a\"", 1), ("-[1]", 1), ("!0", 1), ("~1", 1), ("[1;2]", 1), ("{\"a\":1};", 1), ("1;", 1), ("{}{}", 2),
    ("[] []", 2), ("{\"a\":1,\"a\"}", 2), ("[}", 1), ("{]", 1), ("[1}", 1), ("{\"a\":1]", 1), ("[", 1), ("]", 1), ("{", 1), ("}", 1),
    ("[[", 2), ("[1]]", 1), ("{\"a\":{}", 1), ("", 1), (" ", 1), ("\"a\":1", 2), (":", 1), (",", 1), ("{\"a\":1,\"__proto__\"}", 2),
    ("{\"__proto__\":1,\"__proto__\":2}", 0), ("{\"__proto__\":null,\"__proto__\":{\"x\":1},\"a\":2}", 0), ("{__proto__:1}", 2),
    ("[1,\n]", 1), ("{\"a\":1}\u{0}", 1), ("async", 9), ("[function(){}]", 9), ("{\"a\":function(){}}", 9), ("[1,2", 1),
    ("{\"a\":[}", 1), ("\\u0031", 6), ("1);(2", 4), ("1)", 1), ("(1", 1), ("1);", 2), ("1)//", 3), ("1//", 2), ("[1])", 1),
    ("\"a\");(\"b\"", 4), ("{});({}", 4), ("[ ]", 0), ("{ }", 0), ("[[],{}]", 0), ("{\"\":{\"\":[]}}", 0), ("[1\u{0}]", 1),
    ("{\"a\":1,,\"b\":2}", 1), ("{\"a\"::1}", 1), ("{:1}", 1), ("{\"a\":1:2}", 2), ("[\"a\":1]", 2), ("{\"a\":1}}", 1),
    ("{{}}", 2), ("[{]}", 2), ("{\"a\":1;\"b\":2}", 1), ("{\"a\"=1}", 1), ("[1,2,]", 1), ("[1,2,,]", 2), ("{\"a\":undefined}", 9),
    ("{\"a\":1,\"b\"}", 2), ("{\"constructor\":1,\"toString\":2,\"__proto__\":3}", 0), ("0,", 1), ("yield", 9), ("let", 9),
    ("arguments", 9), ("{0:1}", 2), ("{\"a\":1,...{}}", 5), ("[1,...[2]]", 5), ("{\"a\":1,\"b\":2,}", 1), ("[[]", 1), ("[]]", 1),
    // JS white space / line terminators that are not JSON white space
    ("[1,\u{a0}2]", 1), ("[\u{feff}1]", 1), ("\u{b}1", 1), ("1\u{c}", 1), ("[1\u{2028}]", 1), ("[1\u{2029},2]", 1), ("\u{3000}1", 1),
    ("{\u{a0}}", 1), ("[\u{85}]", 1), ("[\u{1680}]", 1), ("[\u{2003}1]", 1), ("[1\u{200b}]", 1), ("\u{feff}", 2), ("[\u{0}]", 1),
    ("[ \t\n\r1 \t\n\r]", 0),
];

pub const AFFIXES: &[(&str, u8)] = &[
    ("\u{feff}", 1), (";", 1), (")", 1), (");(1", 4), (" //x", 4), ("/**/", 4), ("\u{0}", 1), (",", 1), ("x", 1), ("]", 1), ("}", 1),
    ("\u{2028}", 1), ("\u{b}", 1), ("\u{c}", 1), ("\u{a0}", 1), ("(", 1), (" 1", 2), ("\n\n", 0), (" \t", 0), ("\r\n", 0), ("\"", 1),
    ("\\", 1), ("\u{1a}", 1), ("#", 1), ("<!--", 4), ("-->", 3), ("[", 1), ("{", 1), ("null", 4), ("0", 1), ("-", 1), ("\u{ffff}", 1),
];

// ------------------------------------------------------------------------------------------
// scripts

/// The scripts put the case first and the helper functions (hoisted declarations) after it, so
/// that evidence samples and replay files show the interesting part at the top.
pub const MARK: &str = "// ---- helpers (function declarations are hoisted)\n";
pub const CORE: &str = r#"var __f, __u;
function h8(x) { var s = x.toString(16); while (s.length < 8) s = '0' + s; return s; }
function flags(d) { return (d.writable && d.enumerable && d.configurable) ? '' : '!' + (d.writable ? 'w' : '-') + (d.enumerable ? 'e' : '-') + (d.configurable ? 'c' : '-'); }
function dump(v, depth) {
  depth = depth | 0;
  if (v === null) return 'null';
  if (v === true) return 'true';
  if (v === false) return 'false';
  if (v === undefined) return 'u';
  var t = typeof v;
  if (t === 'number') { if (v !== v) return 'nNaN'; if (!__f) { __f = new Float64Array(1); __u = new Uint32Array(__f.buffer); } __f[0] = v; return 'n' + h8(__u[1]) + h8(__u[0]); }
  if (t === 'string') return 's' + v.length + ':' + v;
  if (t !== 'object') return '!' + t;
  if (depth > 40) return '...';
  var keys = Reflect.ownKeys(v), out, i, d, n = 0, k;
  if (Array.isArray(v)) {
    out = '[';
    for (i = 0; i < v.length; i++) {
      d = Object.getOwnPropertyDescriptor(v, String(i));
      if (i) out += ',';
      if (!d) out += 'hole'; else if (!('value' in d)) out += '!accessor'; else out += flags(d) + dump(d.value, depth + 1);
    }
    out += ']';
    for (i = 0; i < keys.length; i++) {
      k = keys[i];
      if (k === 'length') continue;
      if (typeof k === 'string' && String(k >>> 0) === k && (k >>> 0) < v.length) continue;
      n++;
    }
    if (n) out += '+extra' + n;
    if (Object.getPrototypeOf(v) !== Array.prototype) out += '!proto';
    return out;
  }
  out = '{';
  for (i = 0; i < keys.length; i++) {
    k = keys[i];
    if (i) out += ',';
    if (typeof k !== 'string') { out += '!symbol'; continue; }
    d = Object.getOwnPropertyDescriptor(v, k);
    out += 's' + k.length + ':' + k + '=';
    if (!('value' in d)) out += '!accessor'; else out += flags(d) + dump(d.value, depth + 1);
  }
  out += '}';
  if (Object.getPrototypeOf(v) !== Object.prototype) out += '!proto';
  return out;
}
function ename(e) {
  if (e instanceof SyntaxError) return 'SyntaxError';
  if (e instanceof RangeError) return 'RangeError';
  if (e instanceof TypeError) return 'TypeError';
  if (e instanceof ReferenceError) return 'ReferenceError';
  if (e instanceof Error) return 'Error';
  return 'thrown:' + typeof e + ((typeof e === 'number' || typeof e === 'string') ? ':' + e : '');
}
"#;
pub const P_FN: &str = r#"function P(t) { var v; try { v = JSON.parse(t); } catch (e) { print('err', ename(e)); return; } print('ok', dump(v)); }
"#;
pub const D_FN: &str = r#"function D(open, n, leaf, close, m) {
  var t = open.repeat(n) + leaf + close.repeat(m), v, d = 0, k;
  try { v = JSON.parse(t); } catch (e) { print('err', ename(e)); return; }
  for (;;) {
    if (Array.isArray(v)) { if (v.length !== 1) break; v = v[0]; d++; continue; }
    if (typeof v !== 'object' || v === null) break;
    k = Object.keys(v);
    if (k.length !== 1 || k[0] !== 'a') break;
    v = v.a; d++;
  }
  print('ok', d, dump(v));
}
"#;
pub const S_FNS: &str = r#"function gapws(ind) {
  var i, c;
  if (typeof ind === 'object' && ind !== null && ind instanceof String) return 'nows';
  if (typeof ind !== 'string') return 'ws';
  for (i = 0; i < ind.length && i < 10; i++) { c = ind.charCodeAt(i); if (c !== 32 && c !== 9 && c !== 10 && c !== 13) return 'nows'; }
  return 'ws';
}
function S(v, rep, ind) {
  var s;
  try { s = JSON.stringify(v, rep, ind); } catch (e) { print('J', 'throw', ename(e)); return undefined; }
  if (typeof s === 'string') print('J', 'string', gapws(ind), s); else print('J', typeof s);
  return s;
}
function RT(src, v, ind) {
  print('RT');
  var s = S(v, undefined, ind), w;
  if (typeof s !== 'string') return;
  try { w = JSON.parse(s); } catch (e) { print('R', 'err', ename(e)); return; }
  print('R', 'ok', dump(w));
}
function rv0(k, v) { print('rv', k, dump(v), Array.isArray(this) ? 'A' : typeof this); return v; }
function rv1(k, v) { print('rv', k, dump(v)); if (k === 'b' || k === '1' || (typeof v === 'number' && v < 0)) return undefined; return v; }
function rv2(k, v) { print('rv', k, dump(v)); if (typeof v === 'number') return v * 2; if (typeof v === 'string') return v + '!'; if (k === 'a') return [1, {x: 2}]; return v; }
function rv3(k, v) { print('rv', k, dump(v), dump(this)); if (k === 'a' || k === '0') { delete this.b; delete this[1]; this.c = {n: 1}; } return v; }
function rv4(k, v) { print('rv', k, dump(v)); if (k === 'a' || k === '0') { this.b = {x: [1, 2], y: {z: null}}; this[1] = [{q: 0}]; } return v; }
function rv5(k, v) { print('rv', k, dump(v)); if (k === 'a' || k === '0') { Object.defineProperty(this, 'b', {value: 7, configurable: false, writable: false, enumerable: true}); Object.defineProperty(this, '1', {value: 8, configurable: false, writable: true, enumerable: true}); } if (k === 'b' || k === '1') return undefined; return v; }
function rv6(k, v) { print('rv', k, dump(v)); if (Array.isArray(this) && k === '0') this.length = 1; if (Array.isArray(v)) v.push('pushed'); return v; }
function rv6r(k, v) { print('rv', k, dump(v)); if (Array.isArray(this) && k === '0') Reflect.set(this, 'length', 1); if (Array.isArray(v)) v.push('pushed'); return v; }
function rv7(k, v) { print('rv', k, dump(v)); if (k === 'c' || k === '2') throw 42; return v; }
function rv8(k, v) { print('rv', k, dump(v)); if (k === 'a' || k === '0') Object.freeze(this); return typeof v === 'number' ? v + 1 : v; }
function rv9(k, v) { print('rv', k, dump(v)); if (k === '') return undefined; if (typeof v === 'object' && v !== null) return Array.isArray(v) ? {was: 'array', n: v.length} : Object.keys(v); return v; }
function RV(t, f) {
  var v;
  try { v = JSON.parse(t, f); } catch (e) { print('V', 'err', ename(e)); return; }
  print('V', 'ok', dump(v));
}
"#;

pub fn with_helpers(body: &str, stream: &str) -> String {
    let extra = match stream {
        "parse-valid" | "parse-nearmiss" => P_FN,
        "deep" => D_FN,
        _ => S_FNS,
    };
    format!("{body}{MARK}{CORE}{extra}")
}


pub fn parse_script(texts: &[Vec<u16>]) -> String {
    let mut s = String::new();
    for t in texts {
        s.push_str(&format!("P({});\n", js_lit(t)));
    }
    with_helpers(&s, "parse-valid")
}

/// JavaScript expression that evaluates to the JSON-representable value `v` (own `__proto__`
/// keys through computed names; numbers are written with their JSON text).
pub fn js_value_expr(v: &JV) -> String {
    match v {
        JV::Null => "null".into(),
        JV::Bool(b) => b.to_string(),
        JV::Num(n) => n.clone(),
        JV::Raw(_) => "null".into(),
        JV::Str(s) => js_lit(s),
        JV::Arr(a) => format!("[{}]", a.iter().map(js_value_expr).collect::<Vec<_>>().join(", ")),
        JV::Obj(m) => {
            let parts: Vec<String> = m.iter().map(|(k, x)| format!("[{}]: {}", js_lit(k), js_value_expr(x))).collect();
            format!("{{{}}}", parts.join(", "))
        }
    }
}

/// Features of a generated stringify/reviver script (for the non-trivial rule and labels).
#[derive(Default)]
pub struct StrFeat {
    pub nontrivial: bool,
}

pub const INDENTS: &[&str] = &[
    "undefined", "0", "1", "2", "3", "4", "5", "6", "7", "8", "9", "10", "11", "12", "-1", "3.7", "NaN", "Infinity", "'  '", "'\\t'",
    "''", "'--'", "'abcdefghijkl'", "'          \\n'", "' \\n\\r\\t'", "new Number(4)", "new String(' ')", "null", "true", "{}", "[2]", "'2'",
    "2n", "Object.assign(new Number(2), {valueOf: function() { print('indent valueOf'); return 3; }})", "'\\ud800'", "'\\u2028'",
    "new String('-')", "1e21", "-Infinity", "-0.9", "'\\u00a0'", "10.5",
];

const S_NUMS: &[&str] = &[
    "NaN", "Infinity", "-Infinity", "-0", "1e21", "1e-7", "5e-324", "1.7976931348623157e308", "0.1 + 0.2", "123456789012345680000",
    "2 ** 53", "1e300 * 1e10", "-1e-7", "4.35", "0.000001", "1.5e-10", "100", "1e100", "25e-1", "0xff", "1e-6", "1.0000000000000002",
    "999999999999999900000", "1e20", "-1e21", "0.1", "1/3", "2 ** 31", "-(2 ** 31)", "4294967295", "1.5", "-1.5e-9",
];

const S_STRS: &[&str] = &[
    "''", "'a'", "'\\ud800'", "'\\udc00'", "'\\ud83d\\ude00'", "'\\ude00\\ud83d'", "'a\\ud800b'", "'\\ud800\\ud800\\udc00'", "'\\u2028\\u2029'",
    "'\"\\\\/'", "'\\b\\f\\n\\r\\t'", "'\\u0000\\u0001\\u001f\\u007f\\u0080'", "'\\u000b'", "'\\ufeff\\uffff'", "'</script>'", "'\\u00e9\\u0100'",
    "'\\udbff\\udfff'", "'\\udbff'", "'x'.repeat(300) + '\\udfff'", "'\\u001b[0m'", "'__proto__'", "'\\u007f'", "'\\u0010\\u001a'",
];

const S_EXOTIC: &[&str] = &[
    "/re/g", "new Map([[1, 2]])", "new Set([1])", "new Uint8Array([1, 2])", "(function() { return arguments; })(1, 'a')",
    "Object.create(null)", "Object.create({inh: 1})", "new (class K { constructor() { this.p = 1; } })()", "Object('str')", "new Array(3)",
    "Object.assign([1, 2], {x: 1})", "(function() { var a = [1, 2, 3]; a.length = 5; return a; })()", "Object.create(null, {x: {value: 1, enumerable: true}, y: {value: 2, enumerable: false}})", "[,1,,]", "[undefined, function() {}, Symbol('s')]",
    "Object.defineProperty({v: 1}, 'hidden', {value: 2, enumerable: false})", "Object.defineProperty([1, 2], 'length', {value: 2, writable: false})",
    "{[Symbol('k')]: 1, s: 2}", "new Float64Array([0.5, -0, NaN])", "new Proxy([1, 2], {})", "new Proxy({p: 1, q: [2]}, {})",
    "(function() { var r = Proxy.revocable({}, {}); r.revoke(); return r.proxy; })()", "Object.freeze({fr: [1]})", "new ArrayBuffer(4)",
    "Object.create([1, 2])", "Object.setPrototypeOf([1, 2], null)", "Object.create(Array.prototype)", "new Boolean(true)",
];

const DATES: &[&str] = &[
    "new Date(0)", "new Date(NaN)", "new Date(8.64e15)", "new Date(-8.64e15)", "new Date(1e12 + 0.5)", "new Date(-1)", "new Date(253402300800000)",
    "new Date(-62198755200000)", "new Date(951782400000)", "new Date(1e12)",
];

pub struct SG<'a, 'b> {
    pub g: &'b mut G<'a>,
    pub pre: Vec<String>,
    pub post: Vec<String>,
    pub id: usize,
    pub nontrivial: bool,
}

impl SG<'_, '_> {
    fn lab(&mut self, l: &'static str) {
        self.g.label(l);
    }
    fn fresh(&mut self) -> usize {
        self.id += 1;
        self.id
    }

    fn leaf(&mut self) -> String {
        match self.g.t.weighted(&[4, 3, 2, 2, 4, 2, 1, 1, 2, 2, 3, 3]) {
            0 => (*self.g.t.pick(&["1", "0", "-5", "2.5", "42"])).to_string(),
            1 => (*self.g.t.pick(&["'a'", "'b c'", "''"])).to_string(),
            2 => (*self.g.t.pick(&["null", "true", "false"])).to_string(),
            3 => {
                self.nontrivial = true;
                self.lab("sv-undefined");
                "undefined".into()
            }
            4 => {
                let s = *self.g.t.pick(S_NUMS);
                if ["NaN", "Infinity", "-Infinity", "-0", "1e300 * 1e10"].contains(&s) {
                    self.nontrivial = true;
                    self.lab("sv-nonfinite-or-minus-zero");
                } else {
                    self.lab("sv-number-format");
                }
                format!("({s})")
            }
            5 => {
                self.nontrivial = true;
                self.lab("sv-function");
                (*self.g.t.pick(&["function() { 'use strict'; }", "(() => 1)", "class Q {}", "Math.max"])).to_string()
            }
            6 => {
                self.nontrivial = true;
                self.lab("sv-symbol");
                "Symbol('s')".into()
            }
            7 => {
                self.nontrivial = true;
                self.lab("sv-bigint");
                (*self.g.t.pick(&["10n", "Object(2n)", "0n"])).to_string()
            }
            8 => {
                self.nontrivial = true;
                self.lab("sv-boxed");
                (*self.g.t.pick(&[
                    "new Number(1.5)", "new String('x\\n')", "new Boolean(false)", "Object(Symbol('q'))", "new Number(NaN)", "new Number(-0)",
                    "new String('\\ud800')", "Object.assign(new Number(1), {valueOf: function() { print('boxed valueOf'); return 2; }})",
                    "Object.assign(new String('s'), {toString: function() { print('boxed toString'); return 't'; }})",
                    "Object.assign(new Boolean(true), {valueOf: function() { print('bool valueOf'); return false; }})",
                    "Object.assign(new String('ab'), {extra: 1})",
                ]))
                .to_string()
            }
            9 => {
                self.nontrivial = true;
                self.lab("sv-date");
                (*self.g.t.pick(DATES)).to_string()
            }
            10 => {
                self.lab("sv-string-units");
                (*self.g.t.pick(S_STRS)).to_string()
            }
            _ => {
                self.nontrivial = true;
                self.lab("sv-exotic");
                format!("({})", self.g.t.pick(S_EXOTIC))
            }
        }
    }

    fn key(&mut self) -> String {
        let k = *self.g.t.pick(&["a", "b", "c", "1", "0", "", "toJSON", "__proto__", "\\ud800", "k\\n", "10", "z"]);
        format!("['{k}']")
    }

    /// an expression for a value to stringify
    pub fn sv(&mut self, d: usize) -> String {
        self.g.budget -= 1;
        if d == 0 || self.g.budget <= 0 {
            return self.leaf();
        }
        match self.g.t.weighted(&[5, 4, 4, 2, 3, 1, 2, 2, 2]) {
            0 => self.leaf(),
            1 => {
                let n = self.g.t.below(5);
                let mut parts = vec![];
                for _ in 0..n {
                    if self.g.t.chance(24) {
                        self.nontrivial = true;
                        self.lab("sv-hole");
                        parts.push(String::new());
                    } else {
                        parts.push(self.sv(d - 1));
                    }
                }
                let trailing_hole = parts.last().is_some_and(String::is_empty);
                format!("[{}{}]", parts.join(", "), if trailing_hole { "," } else { "" })
            }
            2 => {
                let n = self.g.t.below(5);
                let parts: Vec<String> = (0..n).map(|_| format!("{}: {}", self.key(), self.sv(d - 1))).collect();
                format!("{{{}}}", parts.join(", "))
            }
            3 => {
                // accessor property that prints
                self.nontrivial = true;
                self.lab("sv-getter");
                let id = self.fresh();
                let inner = self.sv(d - 1);
                let other = self.sv(d - 1);
                let body = match self.g.t.below(6) {
                    0 => "throw 42;".to_string(),
                    1 => "throw new RangeError('x');".to_string(),
                    _ => format!("return {inner};"),
                };
                format!("{{p: {other}, get g{id}() {{ print('get g{id}'); {body} }}, q: 1}}")
            }
            4 => {
                self.nontrivial = true;
                self.lab("sv-toJSON");
                let id = self.fresh();
                let ret = match self.g.t.below(6) {
                    0 => "this".to_string(),
                    1 => "undefined".to_string(),
                    2 => "{toJSON: function() { print('inner toJSON must not run'); return 0; }, w: 1}".to_string(),
                    _ => self.sv(d - 1),
                };
                match self.g.t.below(5) {
                    0 => format!("{{a: 1, toJSON: function(k) {{ print('toJSON#{id}', typeof k, k, arguments.length); return {ret}; }}}}"),
                    1 => format!("{{a: 1, toJSON: {}}}", self.g.t.pick(&["5", "null", "{}", "'s'"])),
                    2 => format!("{{a: 1, get toJSON() {{ print('get toJSON#{id}'); return function(k) {{ print('toJSON#{id}', k); return {ret}; }}; }}}}"),
                    3 => format!("Object.create({{toJSON: function(k) {{ print('proto toJSON#{id}', k); return {ret}; }}}})"),
                    _ => format!("Object.assign([1, 2], {{toJSON: function(k) {{ print('array toJSON#{id}', k); return {ret}; }}}})"),
                }
            }
            5 => {
                // Date-like
                self.nontrivial = true;
                self.lab("sv-datelike");
                "{toJSON: function() { return '2020-02-29T12:00:00.000Z'; }, getTime: function() { return 0; }}".into()
            }
            6 => {
                self.nontrivial = true;
                self.lab("sv-proxy");
                let id = self.fresh();
                let target = if self.g.t.bool() { self.sv(d - 1) } else { (*self.g.t.pick(&["{a: 1, b: [2]}", "[1, {c: 2}]", "{}", "[]"])).to_string() };
                // the target must be an object
                let target = format!("Object({target} ?? 0)");
                match self.g.t.below(4) {
                    0 => format!("new Proxy({target}, {{}})"),
                    1 => format!(
                        "new Proxy({target}, {{ownKeys: function(t) {{ print('ownKeys#{id}'); return Reflect.ownKeys(t); }}, get: function(t, k, r) {{ print('get#{id}', typeof k === 'symbol' ? 'symbol' : k); return Reflect.get(t, k, r); }}, getOwnPropertyDescriptor: function(t, k) {{ print('gopd#{id}', String(k)); return Reflect.getOwnPropertyDescriptor(t, k); }}}})"
                    ),
                    2 => format!("new Proxy({target}, {{get: function(t, k, r) {{ print('get#{id}', typeof k === 'symbol' ? 'symbol' : k); if (k === 'toJSON') return undefined; return Reflect.get(t, k, r); }}}})"),
                    _ => format!("new Proxy({target}, {{ownKeys: function(t) {{ print('ownKeys#{id}'); throw new RangeError('trap'); }}}})"),
                }
            }
            7 => {
                // cycle or shared node
                self.nontrivial = true;
                let id = self.fresh();
                match self.g.t.below(5) {
                    0 => {
                        self.lab("sv-cycle");
                        self.pre.push(format!("var c{id} = {{a: 1}}; c{id}.self = c{id};"));
                    }
                    1 => {
                        self.lab("sv-cycle");
                        self.pre.push(format!("var c{id} = [1]; c{id}.push([c{id}]);"));
                    }
                    2 => {
                        self.lab("sv-cycle");
                        self.pre.push(format!("var c{id} = {{a: {{toJSON: function() {{ return c{id}; }}}}}};"));
                    }
                    3 => {
                        // the same node reached several times is not a cycle, whatever it serialises to
                        self.lab("sv-shared-node");
                        let shape = *self.g.t.pick(&[
                            "{n: [1]}", "{}", "[]", "new Map([[1, 2]])", "new Set([1])", "Object.create({inherited: 1})", "Object.defineProperty({}, 'hidden', {value: 1})",
                            "{[Symbol('s')]: 1}", "{u: undefined, f: function () {}}", "[[]]", "{e: {}}", "{toJSON: function () { return {}; }}", "new Boolean(false)",
                        ]);
                        if shape != "{n: [1]}" {
                            self.lab("sv-shared-empty-node");
                        }
                        self.pre.push(format!("var s{id} = {shape}; var c{id} = [s{id}, s{id}, {{again: s{id}, twice: [s{id}]}}];"));
                    }
                    _ => {
                        self.lab("sv-cycle");
                        self.pre.push(format!("var c{id} = {{a: [{{b: null}}]}}; c{id}.a[0].b = c{id}.a;"));
                    }
                }
                format!("c{id}")
            }
            _ => {
                // toJSON on a built-in prototype, removed after the block
                self.nontrivial = true;
                self.lab("sv-proto-toJSON");
                let (proto, val) = *self.g.t.pick(&[
                    ("Number", "new Number(3)"),
                    ("BigInt", "7n"),
                    ("String", "new String('s')"),
                    ("Boolean", "new Boolean(true)"),
                    ("Object", "{o: [1]}"),
                    ("Array", "[[1], 2]"),
                    ("BigInt", "[1n, Object(2n)]"),
                    ("Symbol", "Object(Symbol('y'))"),
                    ("Date", "new Date(0)"),
                    ("Number", "5"),
                    ("String", "'prim'"),
                ]);
                self.pre.push(format!("{proto}.prototype.toJSON = function(k) {{ print('{proto}.toJSON', k, typeof this); return '{proto}!'; }};"));
                self.post.push(format!("delete {proto}.prototype.toJSON;"));
                val.to_string()
            }
        }
    }

    pub fn replacer(&mut self) -> String {
        match self.g.t.weighted(&[5, 1, 6, 4, 1]) {
            0 => "undefined".into(),
            1 => "null".into(),
            2 => {
                self.nontrivial = true;
                self.lab("replacer-function");
                let id = self.fresh();
                let body = *self.g.t.pick(&[
                    "return v;",
                    "return typeof v === 'number' ? String(v) + '!' : v;",
                    "if (k === 'b' || k === '1') return undefined; return v;",
                    "if (k === 'a') return {z: 1, b: [v === undefined ? null : 0]}; return v;",
                    "if (k === '') return [v]; return v;",
                    "if (k === '') return 'top'; return v;",
                    "if (typeof v === 'object' && v !== null && !Array.isArray(v)) { delete v.b; v.added = 1; } return v;",
                    "if (k === 'a' || k === '0') { delete this.b; this.c = 7; } return v;",
                    "return typeof v === 'bigint' ? Number(v) : v;",
                    "if (k !== '') throw 99; return v;",
                    "return typeof v === 'string' ? new String(v + '?') : v;",
                    "return typeof v === 'function' ? 'fn' : typeof v === 'symbol' ? 'sym' : v === undefined ? null : v;",
                    "if (Array.isArray(v)) return v.length; return v;",
                    "return k === '' ? v : undefined;",
                ]);
                format!("function(k, v) {{ print('rep#{id}', k, typeof v, Array.isArray(this) ? 'A' : typeof this, arguments.length); {body} }}")
            }
            3 => {
                self.nontrivial = true;
                self.lab("replacer-array");
                let n = self.g.t.below(7);
                let mut parts = vec![];
                for _ in 0..n {
                    parts.push(
                        (*self.g.t.pick(&[
                            "'a'", "'b'", "'c'", "'a'", "'0'", "0", "1", "1.5", "-0", "1e21", "new String('a')", "new Number(1)", "{}", "null",
                            "undefined", "true", "Symbol('a')", "'__proto__'", "''", "'toJSON'", "{toString: function() { print('plain toString must not run'); return 'a'; }}",
                            "Object.assign(new String('b'), {toString: function() { print('key toString'); return 'c'; }})", "", "NaN", "Infinity", "'p'", "'q'", "'z'",
                            "'added'", "10", "'10'", "new Number(10)", "[ 'a' ]", "1n",
                        ]))
                        .to_string(),
                    );
                }
                let arr = format!("[{}]", parts.join(", "));
                if self.g.t.chance(32) {
                    self.lab("replacer-array-proxy");
                    format!("new Proxy({arr}, {{}})")
                } else {
                    arr
                }
            }
            _ => {
                self.lab("replacer-other");
                (*self.g.t.pick(&["{}", "1", "'a'", "true", "{0: 'a', length: 1}", "/x/"])).to_string()
            }
        }
    }

    pub fn indent(&mut self) -> String {
        if self.g.t.chance(112) {
            "undefined".into()
        } else {
            self.nontrivial = true;
            let s = *self.g.t.pick(INDENTS);
            self.lab(if s.starts_with('\'') || s.contains("String") { "indent-string" } else if s.as_bytes()[0].is_ascii_digit() || s.contains("Number") || s.starts_with('-') { "indent-number" } else { "indent-other" });
            s.to_string()
        }
    }
}

/// A stringify / reviver script of a few blocks. Returns (script, non-trivial).
pub fn stringify_script(g: &mut G<'_>) -> (String, bool) {
    let mut src = String::new();
    let blocks = 3 + g.t.below(4);
    let mut nontrivial = false;
    let mut id = 0;
    for _ in 0..blocks {
        let kind = g.t.weighted(&[4, 8, 4, 1]);
        match kind {
            0 => {
                // round trip of a JSON-representable value
                g.label("block-roundtrip");
                let small = g.t.bool();
                let mut v = g.top_value(small);
                g.sanitize_value(&mut v);
                let mut out = TextOut::default();
                g.ser(&v, &mut out, 0, 16);
                let mut sg = SG { g, pre: vec![], post: vec![], id, nontrivial: false };
                let ind = sg.indent();
                nontrivial |= sg.nontrivial;
                src.push_str(&format!("RT({}, {}, {});\n", js_lit(&out.units), js_value_expr(&v), ind));
            }
            1 => {
                g.label("block-stringify");
                g.budget = 3 + g.t.below(12) as i64;
                let mut sg = SG { g, pre: vec![], post: vec![], id, nontrivial: false };
                let d = 1 + sg.g.t.below(4);
                let v = sg.sv(d);
                let rep = sg.replacer();
                let ind = sg.indent();
                for p in &sg.pre {
                    src.push_str(p);
                    src.push('\n');
                }
                src.push_str(&format!("S({v}, {rep}, {ind});\n"));
                for p in &sg.post {
                    src.push_str(p);
                    src.push('\n');
                }
                id = sg.id;
                nontrivial |= sg.nontrivial;
            }
            3 => {
                // JSON.parse of a non-string argument (ToString first), non-callable revivers are ignored
                g.label("block-parse-argument");
                nontrivial = true;
                let arg = *g.t.pick(&[
                    "123", "null", "undefined", "true", "[1]", "{toString: function() { print('arg toString'); return '[1, 2]'; }}", "new String('{\"a\":1}')", "1n",
                    "Symbol('s')", "''", "-0", "' 1 '", "[[]]", "1e21", "[null]", "['[1', '2]']", "{}", "NaN", "0.5", "{toString: function() { throw 7; }}",
                    "{toString: null, valueOf: function() { print('arg valueOf'); return '\"v\"'; }}", "'\\n1'", "new Number(-0)", "[true]",
                ]);
                let rev = *g.t.pick(&["undefined", "null", "{}", "'x'", "rv0", "0", "[rv0]", "undefined"]);
                src.push_str(&format!("RV({arg}, {rev});\n"));
            }
            _ => {
                g.label("block-reviver");
                nontrivial = true;
                // texts with keys the revivers react to
                let t = if g.t.bool() {
                    let base = *g.t.pick(&[
                        "{\"a\":1,\"b\":2,\"c\":3}", "[1,2,3]", "{\"a\":{\"a\":1,\"b\":[1,2]},\"b\":{\"c\":-1},\"c\":[]}", "[[1,-2],{\"0\":1,\"1\":2,\"b\":3},\"s\"]",
                        "{\"b\":1,\"a\":2,\"1\":3,\"0\":4}", "[{\"a\":[{\"a\":1,\"b\":2}],\"b\":null}]", "1", "\"s\"", "null", "[]", "{}", "{\"\":{\"\":1}}",
                        "{\"a\":1,\"a\":{\"b\":2},\"b\":[3]}", "{\"__proto__\":{\"a\":1,\"b\":2},\"a\":-0}", "[1e400,-0,\"\\ud800\"]", "{\"c\":[0,1,2],\"2\":{\"c\":1}}",
                    ]);
                    u16s(base)
                } else {
                    let v = g.top_value(true);
                    let mut out = TextOut::default();
                    g.ser(&v, &mut out, 0, 16);
                    out.units
                };
                let mut t = t;
                g.sanitize_surrogates(&mut t);
                let t = g.sanitize_overflow(t);
                let r = g.t.below(10);
                g.label(["rv0-trace", "rv1-delete", "rv2-replace", "rv3-mutate-holder", "rv4-replace-sibling", "rv5-nonconfigurable", "rv6-length", "rv7-throw", "rv8-freeze", "rv9-restructure"][r]);
                let name = if r == 6 && g.excl.array_length_assignment {
                    g.label("excluded-array-length-assignment");
                    "rv6r".to_string()
                } else {
                    format!("rv{r}")
                };
                src.push_str(&format!("RV({}, {name});\n", js_lit(&t)));
            }
        }
    }
    (with_helpers(&src, "stringify"), nontrivial)
}
