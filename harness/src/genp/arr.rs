//! Profile `arr`: tape-driven generator of array histories (property C14).
//!
//! A case is a JS script: a fixed prelude (canonical dump helpers), `function B()` building the
//! second array, `function hist(a, b)` holding 5-60 step lines (each step = one line, wrapped in
//! its own try/catch, followed by a canonical dump), and one line per *variant*: a route that
//! builds the same logical starting array through a different element-storage history, or a mode
//! (Proxy around the array, plain array-like, array-like inheriting from Array.prototype).

use crate::tape::Tape;
use std::collections::BTreeSet;

/// Fixed prelude. In V8 the lines are buffered in a string and printed at points where the
/// prototypes are clean (the node oracle's `print` is written in JS and uses `[].push`, which a
/// polluted Array.prototype[0] would disturb); in boa the native `print` is called per line.
/// `print` is the harness native; `__kind` exists only in the boa run (it records
/// the internal element storage of an object in a side channel that is never part of the trace).
pub const PRELUDE: &str = r#"var AP = Array.prototype, OP = Object.prototype, HOP = Object.prototype.hasOwnProperty, LOG = '', IDS = new WeakMap(), NID = 0, LEN = 'length', O1 = { id: 1 }, O2 = { id: 2 };
var K = typeof __kind === 'function' ? __kind : function () {}, DIRECT = typeof __kind === 'function', OUT = '';
function EMIT(s) { if (DIRECT) print(s); else OUT += s + '\n'; }
function FLUSH() { if (OUT !== '') { print(OUT); OUT = ''; } }
function L(s) { LOG += ' ' + s; }
function ID(x) { if (x === null || typeof x !== 'object') return 0; var i = IDS.get(x); if (!i) { i = ++NID; IDS.set(x, i); } return i; }
function V(v, d) {
  if (v === undefined) return 'u';
  if (v === null) return 'null';
  var t = typeof v;
  if (t === 'number') { if (v !== v) return 'NaN'; if (v === 0) return 1 / v < 0 ? '-0' : '0'; return String(v); }
  if (t === 'string') return '"' + v + '"';
  if (t === 'boolean') return String(v);
  if (t === 'function') return 'fn';
  if (t === 'symbol') return 'sym';
  if (t === 'bigint') return String(v) + 'n';
  d = d | 0;
  if (d > 3) return '..';
  try { if (HOP.call(v, 'id') && !Array.isArray(v)) return '#' + v.id; } catch (e) { return '!' + e.name; }
  return d === 0 ? S(v) : C(v, d);
}
function C(x, d) {
  var s, i, n, desc;
  try {
    n = x.length;
    if (typeof n !== 'number' || !(n >= 0)) n = 0;
    s = Array.isArray(x) ? '[' : '{';
    for (i = 0; i < n && i < 24; i++) {
      if (i) s += ',';
      desc = Reflect.getOwnPropertyDescriptor(x, i);
      s += desc === undefined ? '_' : 'value' in desc ? V(desc.value, d + 1) : 'acc';
    }
    if (n > 24) s += ',+' + (n - 24);
    if (!Array.isArray(x)) s += '|' + Reflect.ownKeys(x).length;
    return s + (Array.isArray(x) ? ']' : '}');
  } catch (e) { return '!' + e.name; }
}
function S(x) {
  var s = '', keys, i, k, desc, len, n, f;
  try {
    s = Array.isArray(x) ? 'A' : 'O';
    len = x.length;
    s += '<' + V(len, 9) + '>{';
    keys = Reflect.ownKeys(x);
    for (i = 0; i < keys.length; i++) {
      if (i >= 40) { s += '+' + (keys.length - 40) + ' '; break; }
      k = keys[i];
      if (typeof k === 'symbol') { s += 'sym '; continue; }
      desc = Reflect.getOwnPropertyDescriptor(x, k);
      s += k + ':';
      if ('value' in desc) { s += V(desc.value, 1); f = (desc.writable ? 'w' : '-') + (desc.enumerable ? 'e' : '-') + (desc.configurable ? 'c' : '-'); if (k === 'length' ? f !== 'w--' : f !== 'wec') s += '/' + f; }
      else s += 'acc[' + (desc.get ? 'g' : '') + (desc.set ? 's' : '') + ']/' + (desc.enumerable ? 'e' : '-') + (desc.configurable ? 'c' : '-');
      s += ' ';
    }
    s += '}';
    n = typeof len === 'number' && len < 16 ? len : 16;
    for (i = 0; i < n; i++) if (!HOP.call(x, i) && i in x) s += ' ^' + i;
    if (!Object.isExtensible(x)) s += ' !ext';
  } catch (e) { s += ' !' + (e && e.name); }
  return s;
}
function P(tag, v) { EMIT('> ' + tag + ' = ' + V(v, 0)); }
function E(tag, e) { var n; try { n = (typeof e === 'object' && e !== null && typeof e.name === 'string') ? e.name : V(e, 1); } catch (x) { n = '?'; } EMIT('> ' + tag + ' ! ' + n); }
function D(a, b) {
  if (LOG !== '') { EMIT('  log:' + LOG); LOG = ''; }
  EMIT('  a: ' + S(a)); EMIT('  b: ' + S(b));
  K(ID(a), a); K(ID(b), b);
}
function SAME(r, t) { return r === t ? 'this' : r; }
function LN(x) { var n = +x.length; return n !== n ? 0 : n; }
function NOEL(x) { var k = Reflect.ownKeys(x); return k.length === 0 || !(typeof k[0] === 'string' && String(k[0] >>> 0) === k[0]); }
function ELFROZEN(x) { var k = Reflect.ownKeys(x), i, d; for (i = 0; i < k.length; i++) { if (k[i] === 'length') continue; d = Reflect.getOwnPropertyDescriptor(x, k[i]); if (d.configurable || ('value' in d && d.writable)) return false; } return true; }
function SAFE(x) { var n = LN(x), i, d, v; if (n > 64) return false; for (i = 0; i < n; i++) { d = Reflect.getOwnPropertyDescriptor(x, i); if (d === undefined) { if (i in x) return false; continue; } if (!('value' in d)) return false; v = d.value; if ((typeof v === 'object' && v !== null && v !== O1 && v !== O2) || typeof v === 'function') return false; } return true; }
function WL(x) { var d = Reflect.getOwnPropertyDescriptor(x, 'length'); return d === undefined || d.writable !== false; }
function RK(x) { var t = typeof x; if (t === 'number') return x !== x ? 1 : 0; if (t === 'string') return 2; if (t === 'boolean') return 3; if (x === null) return 4; if (t === 'object') return Array.isArray(x) ? 6 : 5; return 7; }
function CMP(x, y) {
  var rx = RK(x), ry = RK(y);
  if (rx !== ry) return rx - ry;
  if (rx === 0 || rx === 2) return x < y ? -1 : x > y ? 1 : 0;
  if (rx === 3) return (x ? 1 : 0) - (y ? 1 : 0);
  if (rx === 5) return (x.id | 0) - (y.id | 0);
  if (rx === 6) return (x.length | 0) - (y.length | 0);
  return 0;
}
function CMPD(x, y) { return CMP(y, x); }
function CLEAN() { for (var i = 0; i < 12; i++) { delete AP[i]; delete OP[i]; } LOG = ''; }
function VAR(name) { CLEAN(); FLUSH(); EMIT('== ' + name); K(name); }
"#;

/// Named generator exclusions (constructs that hit a recorded known finding). `true` = avoid.
#[derive(Clone, Copy, Debug)]
pub struct Excl {
    /// C14-a: `arr.length = v` compiled as SetPropertyByName is served by the inline cache on its
    /// second execution and bypasses ArraySetLength. Avoided by rendering `arr[LEN] = v`
    /// (SetPropertyByValue, no inline cache).
    pub length_set_by_name: bool,
    /// C14-b: spread (`[...x]`, `f(...x)`, `new F(...x)`) appends with Array.prototype.push
    /// semantics ([[Set]]) instead of CreateDataProperty, so an accessor / read-only element on
    /// Array.prototype or Object.prototype is observed (element lost, TypeError, or the
    /// "arguments array ... must be dense" engine panic). Avoided: no spread syntax once the
    /// history has installed such a prototype element.
    pub spread_under_proto_accessor: bool,
    /// C14-d: for-in over a Proxy walks the proxy object's internal prototype slot instead of
    /// calling [[GetPrototypeOf]]: enumerable properties inherited from the target's prototype
    /// (here: elements put on Array.prototype) are not visited. Avoided: no `proxy` variant for
    /// a history that has both a for-in step and an enumerable Array.prototype element.
    pub forin_over_proxy_inherited: bool,
    /// C14-e: the shape rollback (`rollback_before`) used when a named property is deleted or
    /// converted between data and accessor re-inserts earlier properties with their ORIGINAL
    /// attributes: an attribute change made to an earlier-inserted property (e.g. `length` made
    /// non-writable) after the later property was inserted is lost. Avoided: once the history
    /// has reconfigured a named property (defineProperty on length / a non-index key, freeze,
    /// seal), non-index keys are no longer deleted or redefined with defineProperty.
    pub named_prop_shape_rollback: bool,
}

impl Default for Excl {
    fn default() -> Self {
        // C14-a, C14-b/c and C14-d are repaired in /repo (known.d: status fixed): their exclusions are off
        Self { length_set_by_name: false, spread_under_proto_accessor: false, forin_over_proxy_inherited: false, named_prop_shape_rollback: true }
    }
}

pub struct Case {
    pub src: String,
    pub labels: Vec<&'static str>,
    pub nsteps: usize,
}

#[derive(Clone, Copy)]
struct Slot {
    /// estimated current length
    est: usize,
    /// upper bound of the length
    ub: usize,
    /// a freeze / non-writable length / non-configurable element may prevent shrinking
    locked: bool,
}

struct Step {
    tag: &'static str,
    pre: String,
    expr: String,
}

const INTS: &[&str] = &["0", "1", "2", "3", "5", "7", "-1", "42", "2147483647", "-2147483648"];
const DBLS: &[&str] = &["1.5", "-2.25", "0.1", "-0", "NaN", "1e21", "2147483648", "4294967295", "Infinity", "-Infinity"];
const OTHS: &[&str] = &["'a'", "'b'", "'10'", "'9'", "''", "O1", "O2", "undefined", "null", "true", "[1, 2]", "[[3], 4]"];
const NONIDX: &[&str] = &["'x'", "'-1'", "'01'", "'1.5'", "-1", "1.5", "'4294967295'", "4294967296", "'1e3'", "'length2'", "' 1'"];
const MAXLEN: usize = 48;

struct G<'a> {
    t: Tape<'a>,
    s: [Slot; 2],
    labels: BTreeSet<&'static str>,
    excl: Excl,
    /// an accessor or read-only index property has been put on a prototype in this history
    proto_special: bool,
    /// an enumerable element has been put on Array.prototype / a for-in step exists
    ap_enumerable: bool,
    has_forin: bool,
    /// a named (non-index) property may have had its attributes changed in this history
    named_attr_changed: bool,
    /// idx() must return an array index
    index_only: bool,
}

fn name(s: usize) -> &'static str {
    if s == 0 { "a" } else { "b" }
}

impl<'a> G<'a> {
    fn lab(&mut self, l: &'static str) {
        self.labels.insert(l);
    }

    fn val(&mut self) -> &'static str {
        match self.t.weighted(&[6, 5, 4]) {
            0 => *self.t.pick(INTS),
            1 => *self.t.pick(DBLS),
            _ => *self.t.pick(OTHS),
        }
    }

    fn vals(&mut self, max: usize) -> String {
        let n = self.t.below(max + 1);
        (0..n).map(|_| self.val().to_string()).collect::<Vec<_>>().join(", ")
    }

    /// value biased to the search-relevant ones
    fn needle(&mut self) -> &'static str {
        match self.t.weighted(&[3, 3, 2, 2, 6]) {
            0 => "NaN",
            1 => "-0",
            2 => "0",
            3 => "undefined",
            _ => self.val(),
        }
    }

    /// small relative integer argument (start/end/fromIndex/depth...)
    fn rel(&mut self, s: usize) -> String {
        let n = self.s[s].est as i64;
        match self.t.weighted(&[10, 4, 1, 1, 1, 1, 1, 1]) {
            0 => self.t.range(0, n + 1).to_string(),
            1 => self.t.range(-n - 1, -1).to_string(),
            2 => "-0".into(),
            3 => "NaN".into(),
            4 => "Infinity".into(),
            5 => "-Infinity".into(),
            6 => "1.5".into(),
            _ => "'1'".into(),
        }
    }

    /// an element key: (expression, numeric index if it is an array index)
    fn idx(&mut self, s: usize) -> (String, Option<usize>) {
        let n = self.s[s].est;
        let room = self.s[s].ub < MAXLEN;
        let i = match self.t.weighted(&[8, 3, 2, 2, 2]) {
            0 => self.t.below(n.max(1)),
            1 if room => n,
            2 if room => n + 1 + self.t.below(3),
            3 if room => {
                self.lab("index-far");
                n + 9 + self.t.below(12)
            }
            4 if !self.index_only => {
                self.lab("index-nonindex-key");
                return (self.t.pick(NONIDX).to_string(), None);
            }
            _ => self.t.below(n.max(1)),
        };
        let e = if self.t.chance(40) { format!("'{i}'") } else { i.to_string() };
        (e, Some(i))
    }

    /// key for delete / defineProperty: no non-index key once a named property was reconfigured (exclusion C14-e)
    fn idx_guarded(&mut self, s: usize) -> (String, Option<usize>) {
        if self.named_attr_changed && self.excl.named_prop_shape_rollback {
            self.lab("excluded-named-prop-shape-rollback");
            self.index_only = true;
        }
        let r = self.idx(s);
        self.index_only = false;
        r
    }

    /// `<obj>.length = <v>` (by name) unless excluded, then `<obj>[LEN] = <v>`
    fn set_len(&mut self, obj: &str, v: &str) -> String {
        if self.excl.length_set_by_name {
            self.lab("excluded-length-set-by-name-ic");
            format!("{obj}[LEN] = {v}")
        } else {
            format!("{obj}.length = {v}")
        }
    }

    /// may spread syntax be used now? (exclusion C14-b)
    fn spread_ok(&mut self) -> bool {
        if self.proto_special && self.excl.spread_under_proto_accessor {
            self.lab("excluded-spread-under-proto-accessor");
            false
        } else {
            true
        }
    }

    fn grew(&mut self, s: usize, newlen: usize) {
        let sl = &mut self.s[s];
        sl.est = sl.est.max(newlen);
        sl.ub = sl.ub.max(newlen);
    }

    fn target(&mut self) -> usize {
        usize::from(self.t.chance(45))
    }

    /// render a method call either directly or through Array.prototype.X.call
    fn call(&mut self, s: usize, m: &str, args: &str) -> String {
        let t = name(s);
        if self.t.chance(110) {
            format!("{t}.{m}({args})")
        } else if args.is_empty() {
            format!("AP.{m}.call({t})")
        } else {
            format!("AP.{m}.call({t}, {args})")
        }
    }

    /// a statement mutating `arr` (used inside callbacks and loops)
    fn mutation(&mut self, s: usize, arr: &str) -> String {
        let n = self.s[s].est;
        let j = self.t.below(n + 2);
        let v = self.val();
        self.lab("callback-mutates");
        self.s[s].ub += 1;
        match self.t.below(12) {
            0 => format!("AP.push.call({arr}, {v});"),
            1 => format!("AP.pop.call({arr});"),
            2 => {
                let k = self.t.below(n + 1).to_string();
                format!("{};", self.set_len(arr, &k))
            }
            3 => format!("delete {arr}[{j}];"),
            4 => format!("{arr}[{j}] = {v};"),
            5 => format!("AP.shift.call({arr});"),
            6 => format!("AP.unshift.call({arr}, {v});"),
            7 => format!("AP.splice.call({arr}, {j}, 1);"),
            8 => format!("Object.defineProperty({arr}, {j}, {{ get: function () {{ L('g{j}'); return {v}; }}, configurable: true, enumerable: true }});"),
            9 => format!("AP.reverse.call({arr});"),
            10 => format!("AP.fill.call({arr}, {v});"),
            _ => format!("{};", self.set_len(arr, "0")),
        }
    }

    /// callback text; `ret` is the return expression over (x, i)
    fn cb(&mut self, s: usize, ret: &str, reduce: bool) -> String {
        let (params, log) = if reduce { ("acc, x, i, arr", "L('r' + i + ':' + V(acc, 1) + ',' + V(x, 1));") } else { ("x, i, arr", "L('c' + i + ':' + V(x, 1));") };
        let m = if self.t.chance(90) {
            let k = self.t.below(self.s[s].est.max(1));
            let mu = self.mutation(s, "arr");
            format!(" if (i === {k}) {{ {mu} }}")
        } else {
            String::new()
        };
        format!("function ({params}) {{ {log}{m} return {ret}; }}")
    }

    fn pred(&mut self) -> String {
        match self.t.below(8) {
            0 => "false".into(),
            1 => "true".into(),
            2 => format!("x === {}", self.val()),
            3 => format!("i === {}", self.t.below(5)),
            4 => "x !== x".into(),
            5 => "x === undefined".into(),
            6 => "typeof x === 'number' && x > 1".into(),
            _ => "i % 2 === 0".into(),
        }
    }

    /// comparator argument for sort/toSorted on `t`. The default comparator calls ToString on
    /// the elements once per comparison (an implementation-defined number of times), so it is
    /// used only when that has no side effects (SAFE: primitives and the two marker objects).
    fn cmp(&mut self, t: &str) -> String {
        match self.t.weighted(&[4, 4, 3, 1, 1]) {
            0 | 3 => format!("SAFE({t}) ? undefined : CMP"),
            1 => "CMP".into(),
            2 => "CMPD".into(),
            _ => {
                self.lab("sort-bad-comparator");
                self.t.pick(&["null", "1", "'x'"]).to_string()
            }
        }
    }

    /// a fresh array literal (possibly with holes)
    fn literal(&mut self, maxn: usize) -> (String, usize) {
        let n = self.t.below(maxn + 1);
        let mut parts = vec![];
        let mut holes = false;
        for k in 0..n {
            if self.t.chance(40) {
                holes = true;
                // a trailing hole needs an extra comma, rendered below
                parts.push(String::new());
                let _ = k;
            } else {
                parts.push(self.val().to_string());
            }
        }
        if holes {
            self.lab("literal-holes");
        }
        let mut s = String::from("[");
        for (k, p) in parts.iter().enumerate() {
            if k > 0 {
                s.push_str(", ");
            }
            s.push_str(p);
        }
        if parts.last().is_some_and(String::is_empty) {
            s.push(',');
        }
        s.push(']');
        (s, n)
    }

    fn elem_desc(&mut self, j: &str) -> String {
        let v = self.val();
        match self.t.below(14) {
            0 => {
                self.lab("defprop-accessor");
                format!("{{ get: function () {{ L('g{j}'); return {v}; }}, set: function (v) {{ L('s{j}=' + V(v, 1)); }}, enumerable: true, configurable: true }}", j = j.replace('\'', ""))
            }
            1 => {
                self.lab("defprop-accessor");
                format!("{{ get: function () {{ L('g{j}'); return {v}; }}, configurable: true }}", j = j.replace('\'', ""))
            }
            2 => {
                self.lab("defprop-accessor");
                format!("{{ set: function (v) {{ L('s{j}=' + V(v, 1)); }}, enumerable: true, configurable: true }}", j = j.replace('\'', ""))
            }
            3 => {
                self.lab("defprop-nonwritable");
                format!("{{ value: {v}, writable: false, enumerable: true, configurable: true }}")
            }
            4 => {
                self.lab("defprop-nonconfigurable");
                format!("{{ value: {v}, writable: true, enumerable: true, configurable: false }}")
            }
            5 => {
                self.lab("defprop-nonenumerable");
                format!("{{ value: {v}, writable: true, enumerable: false, configurable: true }}")
            }
            6 => format!("{{ value: {v} }}"),
            7 => "{ enumerable: false }".into(),
            8 => "{ writable: false }".into(),
            9 => {
                self.lab("defprop-nonconfigurable");
                "{ configurable: false }".into()
            }
            10 => "{}".into(),
            11 => {
                self.lab("defprop-back-to-default");
                format!("{{ value: {v}, writable: true, enumerable: true, configurable: true }}")
            }
            12 => "{ enumerable: true, configurable: true, writable: true }".into(),
            _ => {
                self.lab("defprop-accessor");
                "{ get: undefined, set: undefined, enumerable: true, configurable: true }".into()
            }
        }
    }

    fn step(&mut self) -> Step {
        let s = self.target();
        let t = name(s);
        let est = self.s[s].est;
        let room = self.s[s].ub < MAXLEN;
        let st = |tag: &'static str, expr: String| Step { tag, pre: String::new(), expr };
        // weights: see the list in the arms below
        let w: [u32; 44] = [
            8, 4, 4, 4, 6, 6, 10, 5, 6, 2, // push pop shift unshift splice length store delete defprop deflen
            1, 3, 3, 3, 4, 2, 1, 4, 1, 2, // integrity fill copyWithin reverse sort proto huge rebuild swap literal
            2, 2, 3, 6, 3, 3, 4, 2, 2, 2, // incr at with search join slice concat flat flatMap toSorted
            2, 2, 6, 3, 3, 2, 2, 2, 3, 2, // toSpliced toReversed itermeth find reduce forof spread destr iters from
            4, 4, 1, 1, // keys read json integrity-q
        ];
        match self.t.weighted(&w) {
            0 => {
                let a = self.vals(3);
                let k = if a.is_empty() { 0 } else { a.matches(", ").count() + 1 };
                if room {
                    self.grew(s, est + k);
                }
                let a = if room { a } else { String::new() };
                let c = self.call(s, "push", &a);
                // V8 deviation: push() without items does not throw on a non-writable length
                if a.is_empty() { st("m.push", format!("(WL({t}) ? {c} : 'v8-skip')")) } else { st("m.push", c) }
            }
            1 => {
                self.s[s].est = est.saturating_sub(1);
                st("m.pop", self.call(s, "pop", ""))
            }
            2 => {
                self.s[s].est = est.saturating_sub(1);
                st("m.shift", self.call(s, "shift", ""))
            }
            3 => {
                let a = if room { self.vals(3) } else { String::new() };
                let k = if a.is_empty() { 0 } else { a.matches(", ").count() + 1 };
                self.grew(s, est + k);
                st("m.unshift", self.call(s, "unshift", &a))
            }
            4 => {
                let start = self.rel(s);
                let args = match self.t.below(4) {
                    0 => start,
                    1 => format!("{start}, {}", self.t.below(est + 2)),
                    _ => {
                        let items = if room { self.vals(3) } else { String::new() };
                        let k = if items.is_empty() { 0 } else { items.matches(", ").count() + 1 };
                        self.grew(s, est + k);
                        let del = self.t.below(est + 2);
                        if items.is_empty() { format!("{start}, {del}") } else { format!("{start}, {del}, {items}") }
                    }
                };
                st("m.splice", self.call(s, "splice", &args))
            }
            5 => {
                // length =
                let (tag, v): (&'static str, String) = match self.t.weighted(&[6, 2, 4, 3, 1]) {
                    0 => {
                        let k = self.t.below(est.max(1));
                        if !self.s[s].locked {
                            self.s[s].est = k;
                        }
                        ("s.length-shrink", k.to_string())
                    }
                    1 => ("s.length-same", est.to_string()),
                    2 if room => {
                        let k = est + 1 + self.t.below(5);
                        self.grew(s, k);
                        ("s.length-grow", k.to_string())
                    }
                    3 => {
                        self.lab("length-invalid");
                        ("s.length-invalid", self.t.pick(&["-1", "1.5", "'abc'", "NaN", "4294967296", "undefined", "{}", "-0.5", "Infinity", "1e21"]).to_string())
                    }
                    _ => {
                        let k = self.t.below(est + 2);
                        self.grew(s, k);
                        self.lab("length-coerced");
                        let e = match self.t.below(4) {
                            0 => format!("'{k}'"),
                            1 => format!("{{ valueOf: function () {{ L('vo'); return {k}; }} }}"),
                            2 => format!("[{k}]"),
                            _ => format!("{k}.0"),
                        };
                        ("s.length-coerced", e)
                    }
                };
                let mut e = self.set_len(t, &v);
                if matches!(v.as_str(), "4294967296" | "Infinity" | "1e21") {
                    // an array-like (not an array / proxy of one) would take it as a huge length
                    e = format!("(Array.isArray({t}) ? {e} : 'not-array')");
                }
                let tag = if self.excl.length_set_by_name {
                    tag
                } else {
                    match tag {
                        "s.length-shrink" => "n.length-shrink",
                        "s.length-same" => "n.length-same",
                        "s.length-grow" => "n.length-grow",
                        "s.length-invalid" => "n.length-invalid",
                        _ => "n.length-coerced",
                    }
                };
                st(tag, e)
            }
            6 => {
                let (i, n) = self.idx(s);
                let v = self.val();
                if let Some(n) = n {
                    self.grew(s, n + 1);
                }
                st("s.store", format!("{t}[{i}] = {v}"))
            }
            7 => {
                let (i, _) = self.idx_guarded(s);
                st("s.delete", format!("delete {t}[{i}]"))
            }
            8 => {
                let (i, n) = self.idx_guarded(s);
                if n.is_none() {
                    self.named_attr_changed = true;
                }
                let d = self.elem_desc(&i);
                if d.contains("configurable: false") {
                    self.s[s].locked = true;
                }
                if let Some(n) = n {
                    self.grew(s, n + 1);
                }
                // V8 deviation: redefining an element of a sealed object (array or not) drops the sealed state of its other elements
                let g = format!("Object.isSealed({t}) && !NOEL({t}) ? 'v8-skip' : ");
                if self.t.bool() { st("o.defprop", format!("({g}Object.defineProperty({t}, {i}, {d}) === {t})")) } else { st("o.defprop-reflect", format!("({g}Reflect.defineProperty({t}, {i}, {d}))")) }
            }
            9 => {
                self.lab("defprop-length");
                self.named_attr_changed = true;
                let k = self.t.below(est + 3);
                let d = match self.t.below(9) {
                    0 => format!("{{ value: {k} }}"),
                    1 => {
                        self.s[s].locked = true;
                        "{ writable: false }".to_string()
                    }
                    2 => {
                        self.s[s].locked = true;
                        format!("{{ value: {k}, writable: false }}")
                    }
                    3 => "{ get: function () { return 1; } }".to_string(),
                    4 => "{ enumerable: true }".to_string(),
                    5 => "{ configurable: true }".to_string(),
                    6 => "{ value: -1 }".to_string(),
                    7 => "{ writable: true }".to_string(),
                    _ => format!("{{ value: {k}, writable: true, enumerable: false, configurable: false }}"),
                };
                self.grew(s, k);
                if self.t.bool() { st("o.deflen", format!("Object.defineProperty({t}, 'length', {d}) === {t}")) } else { st("o.deflen-reflect", format!("Reflect.defineProperty({t}, 'length', {d})")) }
            }
            10 => {
                self.s[s].locked = true;
                match self.t.below(3) {
                    0 => {
                        self.lab("freeze");
                        self.named_attr_changed = true;
                        // V8 deviation: freezing a non-extensible array whose elements are all frozen already (or absent) leaves `length` writable
                        st("o.freeze", format!("(Array.isArray({t}) && !Object.isExtensible({t}) && WL({t}) && ELFROZEN({t}) ? 'v8-skip' : Object.freeze({t}) === {t})"))
                    }
                    1 => {
                        self.named_attr_changed = true;
                        self.lab("seal");
                        st("o.seal", format!("Object.seal({t}) === {t}"))
                    }
                    _ => {
                        self.lab("preventExtensions");
                        st("o.preventExtensions", format!("Object.preventExtensions({t}) === {t}"))
                    }
                }
            }
            11 => {
                let v = self.val();
                let args = match self.t.below(3) {
                    0 => v.to_string(),
                    1 => format!("{v}, {}", self.rel(s)),
                    _ => format!("{v}, {}, {}", self.rel(s), self.rel(s)),
                };
                let c = self.call(s, "fill", &args);
                st("m.fill", format!("SAME({c}, {t})"))
            }
            12 => {
                let args = match self.t.below(2) {
                    0 => format!("{}, {}", self.rel(s), self.rel(s)),
                    _ => format!("{}, {}, {}", self.rel(s), self.rel(s), self.rel(s)),
                };
                let c = self.call(s, "copyWithin", &args);
                st("m.copyWithin", format!("SAME({c}, {t})"))
            }
            13 => {
                let c = self.call(s, "reverse", "");
                st("m.reverse", format!("SAME({c}, {t})"))
            }
            14 => {
                let cmp = self.cmp(t);
                let c = self.call(s, "sort", &cmp);
                // V8 deviation: sort returns early (no Get/Set at all) when the length is < 2
                st("m.sort", format!("(LN({t}) >= 2 ? SAME({c}, {t}) : 'v8-skip')"))
            }
            15 => {
                // prototype-chain element
                self.lab("proto-element");
                let k = self.t.below(8);
                let v = self.val();
                let p = if self.t.chance(80) { "OP" } else { "AP" };
                let on_ap = p == "AP";
                match self.t.weighted(&[6, 2, 2, 2]) {
                    0 => {
                        self.ap_enumerable |= on_ap;
                        st("o.proto-set", format!("({p}[{k}] = {v}, {k} in {t})"))
                    }
                    1 => {
                        self.lab("proto-accessor");
                        self.proto_special = true;
                        st("o.proto-accessor", format!("(Object.defineProperty({p}, {k}, {{ get: function () {{ L('pg{k}'); return {v}; }}, set: function (v) {{ L('ps{k}=' + V(v, 1)); }}, configurable: true }}), {k} in {t})"))
                    }
                    2 => {
                        self.lab("proto-readonly");
                        self.proto_special = true;
                        self.ap_enumerable |= on_ap;
                        st("o.proto-readonly", format!("(Object.defineProperty({p}, {k}, {{ value: {v}, writable: false, enumerable: true, configurable: true }}), {k} in {t})"))
                    }
                    _ => st("o.proto-delete", format!("delete {p}[{k}]")),
                }
            }
            16 => self.huge(s),
            17 => {
                // rebuild: a fresh array (new storage) from the current contents
                self.lab("rebuild");
                let e = match self.t.below(9) {
                    0 => self.call(s, "slice", ""),
                    1 => self.call(s, "concat", ""),
                    2 => self.call(s, "map", "function (x) { return x; }"),
                    3 if self.spread_ok() => format!("[...{t}]"),
                    3 | 4 => format!("Array.from({t})"),
                    5 => self.call(s, "filter", "function () { return true; }"),
                    6 => {
                        let e = self.call(s, "toSorted", "CMP");
                        format!("(LN({t}) >= 1 && LN({t}) < 2 ? {t} : {e})")
                    }
                    7 => self.call(s, "toReversed", ""),
                    _ => self.call(s, "toSpliced", "0, 0"),
                };
                // `locked` stays: in the array-like modes the rebuild may throw and leave the old object
                Step { tag: "r.rebuild", pre: format!("{t} = {e};"), expr: "0".into() }
            }
            18 => {
                self.s.swap(0, 1);
                Step { tag: "r.swap", pre: "t = a; a = b; b = t;".into(), expr: "0".into() }
            }
            19 => {
                let (l, n) = self.literal(6);
                self.s[s] = Slot { est: n, ub: n, locked: false };
                Step { tag: "r.literal", pre: format!("{t} = {l};"), expr: "0".into() }
            }
            20 => {
                let (i, n) = self.idx(s);
                if let Some(n) = n {
                    self.grew(s, n + 1);
                }
                match self.t.below(4) {
                    0 => st("s.incr", format!("{t}[{i}]++")),
                    1 => st("s.incr", format!("--{t}[{i}]")),
                    2 => st("s.compound", format!("{t}[{i}] += {}", self.val())),
                    _ => st("s.compound", format!("{t}[{i}] ??= {}", self.val())),
                }
            }
            21 => {
                let r = self.rel(s);
                st("m.at", self.call(s, "at", &r))
            }
            22 => {
                let args = format!("{}, {}", self.rel(s), self.val());
                st("m.with", self.call(s, "with", &args))
            }
            23 => {
                let m = *self.t.pick(&["indexOf", "lastIndexOf", "includes"]);
                let v = self.needle();
                if v == "NaN" {
                    self.lab("search-NaN");
                }
                if v == "-0" {
                    self.lab("search-neg-zero");
                }
                let args = if self.t.chance(90) { format!("{v}, {}", self.rel(s)) } else { v.to_string() };
                let tag = match m {
                    "indexOf" => "m.indexOf",
                    "lastIndexOf" => "m.lastIndexOf",
                    _ => "m.includes",
                };
                st(tag, self.call(s, m, &args))
            }
            24 => match self.t.below(5) {
                0 => st("m.join", self.call(s, "join", "")),
                1 => st("m.join", self.call(s, "join", "'-'")),
                2 => st("m.join", self.call(s, "join", "undefined")),
                3 => st("m.toString", self.call(s, "toString", "")),
                _ => st("m.toString-coerce", format!("'' + {t}")),
            },
            25 => {
                let args = match self.t.below(3) {
                    0 => String::new(),
                    1 => self.rel(s),
                    _ => format!("{}, {}", self.rel(s), self.rel(s)),
                };
                st("m.slice", self.call(s, "slice", &args))
            }
            26 => {
                self.lab("concat");
                let o = name(1 - s);
                let args = match self.t.below(7) {
                    0 => o.to_string(),
                    1 => format!("{}, {o}", self.val()),
                    2 => {
                        self.lab("concat-spreadable");
                        format!("{{ length: 3, 0: {}, 2: {}, [Symbol.isConcatSpreadable]: true }}", self.val(), self.val())
                    }
                    3 => {
                        self.lab("concat-spreadable");
                        format!("(({o})[Symbol.isConcatSpreadable] = false, {o})")
                    }
                    4 => format!("{t}, {t}"),
                    5 => {
                        self.lab("concat-spreadable");
                        format!("new Proxy({o}, {{}})")
                    }
                    _ => format!("[{}], {}", self.vals(2), self.val()),
                };
                if self.s[0].ub + self.s[1].ub > MAXLEN { st("m.concat", self.call(s, "concat", "")) } else { st("m.concat", self.call(s, "concat", &args)) }
            }
            27 => {
                self.lab("flat");
                let d = *self.t.pick(&["", "0", "1", "2", "Infinity", "-1", "'1'"]);
                st("m.flat", self.call(s, "flat", d))
            }
            28 => {
                self.lab("flat");
                let r = *self.t.pick(&["[x, i]", "x", "[[x]]", "[]", "[, x]"]);
                let f = self.cb(s, r, false);
                st("m.flatMap", self.call(s, "flatMap", &f))
            }
            29 => {
                let c = self.cmp(t);
                let e = self.call(s, "toSorted", &c);
                // V8 deviation: toSorted on length 1 stores the element with [[Set]] (observes prototype setters)
                st("m.toSorted", format!("(LN({t}) >= 1 && LN({t}) < 2 ? 'v8-skip' : {e})"))
            }
            30 => {
                let args = match self.t.below(3) {
                    0 => self.rel(s),
                    1 => format!("{}, {}", self.rel(s), self.t.below(est + 2)),
                    _ => format!("{}, {}, {}", self.rel(s), self.t.below(est + 2), self.vals(2)),
                };
                let args = args.trim_end_matches(", ").to_string();
                st("m.toSpliced", self.call(s, "toSpliced", &args))
            }
            31 => st("m.toReversed", self.call(s, "toReversed", "")),
            32 => {
                let (m, tag, ret): (&str, &'static str, String) = match self.t.below(5) {
                    0 => ("forEach", "m.forEach", "undefined".into()),
                    1 => ("map", "m.map", self.t.pick(&["x", "V(x, 1)", "i", "undefined"]).to_string()),
                    2 => ("filter", "m.filter", self.pred()),
                    3 => ("some", "m.some", self.pred()),
                    _ => ("every", "m.every", self.pred()),
                };
                let f = self.cb(s, &ret, false);
                st(tag, self.call(s, m, &f))
            }
            33 => {
                let (m, tag): (&str, &'static str) = *self.t.pick(&[("find", "m.find"), ("findIndex", "m.findIndex"), ("findLast", "m.findLast"), ("findLastIndex", "m.findLastIndex")]);
                let p = self.pred();
                let f = self.cb(s, &p, false);
                st(tag, self.call(s, m, &f))
            }
            34 => {
                let (m, tag): (&str, &'static str) = *self.t.pick(&[("reduce", "m.reduce"), ("reduceRight", "m.reduceRight")]);
                let r = *self.t.pick(&["x", "acc", "V(acc, 1) + V(x, 1)", "i"]);
                let f = self.cb(s, r, true);
                let args = if self.t.bool() { format!("{f}, {}", self.val()) } else { f };
                st(tag, self.call(s, m, &args))
            }
            35 => {
                self.lab("for-of");
                let m = if self.t.chance(100) {
                    let k = 1 + self.t.below(3);
                    let mu = self.mutation(s, t);
                    format!(" if (c === {k}) {{ {mu} }}")
                } else {
                    String::new()
                };
                Step { tag: "i.forof", pre: format!("c = 0; z = ''; for (x of {t}) {{ z += V(x, 1) + ';'; c++;{m} if (c > 60) break; }}"), expr: "z".into() }
            }
            36 => {
                if !self.spread_ok() {
                    return st("i.from", format!("Array.from({t})"));
                }
                self.lab("spread");
                match self.t.below(3) {
                    0 => st("i.spread", format!("[...{t}]")),
                    1 => st("i.spread-call", format!("(function () {{ return arguments.length + ':' + V(arguments[1], 1); }})(...{t})")),
                    _ => st("i.spread", format!("[0, ...{t}, ...{}]", name(1 - s))),
                }
            }
            37 => {
                self.lab("destructuring");
                match self.t.below(3) {
                    0 => Step { tag: "i.destructure", pre: format!("[x, y, ...z] = {t};"), expr: "V(x, 1) + '|' + V(y, 1) + '|' + V(z, 1)".into() },
                    1 => Step { tag: "i.destructure", pre: format!("[x, , y = 'dflt'] = {t};"), expr: "V(x, 1) + '|' + V(y, 1)".into() },
                    _ => Step { tag: "i.destructure", pre: format!("[{t}[1], {t}[0]] = {t};"), expr: "0".into() },
                }
            }
            38 => {
                self.lab("iterators");
                let m = *self.t.pick(&["entries", "keys", "values"]);
                let c = self.call(s, m, "");
                match self.t.below(3) {
                    0 if self.spread_ok() => st("i.iter", format!("[...{c}]")),
                    0 => st("i.iter-from", format!("Array.from({c})")),
                    1 => st("i.iter-from", format!("Array.from({c})")),
                    _ => {
                        let mu = self.mutation(s, t);
                        Step { tag: "i.iter-manual", pre: format!("y = {c}; x = y.next(); {mu} z = y.next();"), expr: "V(x.value, 1) + '/' + x.done + '|' + V(z.value, 1) + '/' + z.done".into() }
                    }
                }
            }
            39 => match self.t.below(3) {
                0 => st("i.from", format!("Array.from({t})")),
                1 => st("i.from-map", format!("Array.from({t}, function (x, i) {{ return V(x, 1) + i; }})")),
                _ if self.spread_ok() => st("i.of", format!("Array.of(...{t})")),
                _ => st("i.from", format!("Array.from({t})")),
            },
            40 => {
                self.lab("key-enumeration");
                match self.t.below(7) {
                    0 => st("k.ownKeys", format!("Reflect.ownKeys({t}).map(String).join()")),
                    1 => st("k.keys", format!("Object.keys({t}).join()")),
                    2 => {
                        self.has_forin = true;
                        Step { tag: "k.forin", pre: format!("z = ''; for (x in {t}) z += x + ';';"), expr: "z".into() }
                    }
                    3 => st("k.names", format!("Object.getOwnPropertyNames({t}).join()")),
                    4 => st("k.values", format!("Object.values({t})")),
                    5 => st("k.entries", format!("Object.entries({t})")),
                    _ => st("k.assign", format!("Object.assign({{}}, {t})")),
                }
            }
            41 => {
                let (i, _) = self.idx(s);
                match self.t.below(5) {
                    0 => st("s.read", format!("{t}[{i}]")),
                    1 => st("s.in", format!("{i} in {t}")),
                    2 => st("s.hasOwn", format!("HOP.call({t}, {i})")),
                    3 => st("s.gopd", format!("Object.getOwnPropertyDescriptor({t}, {i})")),
                    _ => st("s.read-length", format!("{t}.length")),
                }
            }
            42 => {
                self.lab("json");
                st("k.json", format!("JSON.stringify({t})"))
            }
            // V8 deviation: isFrozen of an array ignores its writable `length`
            _ => st("o.integrity-query", format!("(Array.isArray({t}) && WL({t}) ? 'v8-skip' : Object.isFrozen({t})) + '/' + Object.isSealed({t}) + '/' + Object.isExtensible({t}) + '/' + Array.isArray({t})")),
        }
    }

    /// length 2^32-1 episode: only O(1) / key-based operations until the length is small again;
    /// everything on ONE line so that the line shrinker cannot separate the shrink-back.
    fn huge(&mut self, s: usize) -> Step {
        let t = name(s);
        if self.s[s].locked {
            return Step { tag: "s.read-length", pre: String::new(), expr: format!("{t}.length") };
        }
        self.lab("length-2^32-1");
        let mut pre = String::new();
        let w = |tag: &str, e: String| format!("try {{ P('{tag}', {e}); }} catch (e) {{ E('{tag}', e); }} D(a, b); ");
        if self.t.bool() {
            let e = self.set_len(t, "4294967295");
            pre.push_str(&w("h.length-max", e));
        } else {
            pre.push_str(&w("h.store-max", format!("{t}[4294967294] = {}", self.val())));
        }
        let n = 1 + self.t.below(4);
        for _ in 0..n {
            let v = self.val();
            let e = match self.t.below(12) {
                0 => ("h.push", format!("AP.push.call({t}, {v})")),
                1 => ("h.pop", format!("AP.pop.call({t})")),
                2 => ("h.store", format!("{t}[{}] = {v}", self.t.pick(&["4294967294", "4294967293", "'4294967294'", "4294967295", "4294967296"]))),
                3 => ("h.delete", format!("delete {t}[4294967294]")),
                4 => ("h.ownKeys", format!("Reflect.ownKeys({t}).map(String).join()")),
                5 => ("h.keys", format!("Object.keys({t}).join()")),
                6 => ("h.at", format!("AP.at.call({t}, -1)")),
                7 => ("h.slice", format!("AP.slice.call({t}, -2)")),
                8 => ("h.deflen", format!("Reflect.defineProperty({t}, 'length', {{ value: 4294967295 }})")),
                9 => ("h.defprop", format!("Reflect.defineProperty({t}, 4294967294, {{ value: {v}, enumerable: false, configurable: true }})")),
                10 => ("h.length-over", format!("(Array.isArray({t}) ? {} : 'not-array')", self.set_len(t, "4294967296"))),
                _ => ("h.read", format!("{t}[4294967294]")),
            };
            pre.push_str(&w(e.0, e.1));
        }
        let k = self.t.below(self.s[s].est + 1);
        self.s[s].est = k;
        let e = self.set_len(t, &k.to_string());
        Step { tag: "h.length-back", pre, expr: e }
    }
}

fn int_list(v: &[i64]) -> String {
    v.iter().map(|x| x.to_string()).collect::<Vec<_>>().join(", ")
}

/// All routes that build the logical array `init` (ints), as statement text ending with `a` bound.
pub const ARRAY_ROUTES: &[&str] = &["lit", "dbl", "hole", "defp", "ctor", "str", "attr", "rev", "pop", "push", "from"];
pub const MODES: &[&str] = &["proxy", "alike", "alikep"];

fn route(name: &str, init: &[i64], k: usize) -> Option<String> {
    let n = init.len();
    let lit = format!("[{}]", int_list(init));
    let stores = |order: &mut dyn Iterator<Item = usize>| order.map(|i| format!("a[{i}] = {};", init[i])).collect::<Vec<_>>().join(" ");
    Some(match name {
        "lit" => format!("var a = {lit};"),
        "dbl" if n >= 1 => format!("var a = {lit}; a[{k}] = 0.5; a[{k}] = {};", init[k]),
        "hole" if n >= 1 => {
            let mut parts: Vec<String> = init.iter().map(|x| x.to_string()).collect();
            parts[k] = String::new();
            let mut l = parts.join(", ");
            if k == n - 1 {
                l.push(',');
            }
            format!("var a = [{l}]; a[{k}] = {};", init[k])
        }
        "defp" => format!("var a = []; {}", (0..n).map(|i| format!("Object.defineProperty(a, {i}, {{ value: {}, writable: true, enumerable: true, configurable: true }});", init[i])).collect::<Vec<_>>().join(" ")),
        "ctor" => format!("var a = new Array({n}); {}", stores(&mut (0..n))),
        "str" if n >= 1 => {
            let mut parts: Vec<String> = init.iter().map(|x| x.to_string()).collect();
            parts[k] = "'s'".into();
            format!("var a = [{}]; a[{k}] = {};", parts.join(", "), init[k])
        }
        "attr" if n >= 1 => format!("var a = {lit}; Object.defineProperty(a, {k}, {{ enumerable: false }}); Object.defineProperty(a, {k}, {{ enumerable: true }});"),
        "rev" if n >= 2 => format!("var a = []; {}", stores(&mut (0..n).rev())),
        "pop" => {
            if k % 2 == 0 {
                format!("var a = [{}]; a.pop();", int_list(&[init, &[9]].concat()))
            } else {
                format!("var a = [{}]; a.length = {n};", int_list(&[init, &[9, 8]].concat()))
            }
        }
        "push" => {
            if k % 2 == 0 {
                format!("var a = []; {}", init.iter().map(|x| format!("a.push({x});")).collect::<Vec<_>>().join(" "))
            } else {
                format!("var a = Array.of({});", int_list(init))
            }
        }
        "from" => format!("var a = Array.from({{ length: {n}{} }});", init.iter().enumerate().map(|(i, x)| format!(", {i}: {x}")).collect::<String>()),
        "proxy" => format!("var a = new Proxy({lit}, {{}});"),
        "alike" => format!("var a = {{ {}length: {n} }};", init.iter().enumerate().map(|(i, x)| format!("{i}: {x}, ")).collect::<String>()),
        "alikep" => format!("var a = Object.setPrototypeOf({{ {}length: {n} }}, AP);", init.iter().enumerate().map(|(i, x)| format!("{i}: {x}, ")).collect::<String>()),
        _ => return None,
    })
}

pub fn generate(tape: &[u8], excl: Excl) -> Case {
    let mut g = G { t: Tape::new(tape), s: [Slot { est: 0, ub: 0, locked: false }; 2], labels: BTreeSet::new(), excl, proto_special: false, ap_enumerable: false, has_forin: false, named_attr_changed: false, index_only: false };
    // the logical starting array: small ints
    let n = g.t.below(8);
    let init: Vec<i64> = (0..n)
        .map(|_| match g.t.weighted(&[20, 1, 1]) {
            0 => g.t.range(-2, 9),
            1 => 2147483647,
            _ => -2147483648,
        })
        .collect();
    let strict = g.t.chance(64);
    let (blit, bn) = g.literal(5);
    g.s[0] = Slot { est: n, ub: n, locked: false };
    g.s[1] = Slot { est: bn, ub: bn, locked: false };
    let nsteps = 5 + g.t.below(56);
    let mut body = String::new();
    for _ in 0..nsteps {
        let st = g.step();
        let pre = if st.pre.is_empty() { String::new() } else { format!("{} ", st.pre) };
        if st.tag.starts_with("h.") {
            // the episode's leading sub-steps are already wrapped
            // + safety net on the same line: whatever happened, no object keeps a huge length
            body.push_str(&format!("  {}try {{ P('{tag}', {e}); }} catch (e) {{ E('{tag}', e); }} D(a, b); if (LN(a) > 64) {{ a = [LN(a)]; }} if (LN(b) > 64) {{ b = [LN(b)]; }}\n", st.pre, tag = st.tag, e = st.expr));
        } else {
            body.push_str(&format!("  try {{ {pre}P('{tag}', {e}); }} catch (e) {{ E('{tag}', e); }} D(a, b);\n", tag = st.tag, e = st.expr));
        }
    }
    // variants: lit + 4 other routes + 1 mode (+ a second mode sometimes)
    let mut routes: Vec<&str> = vec!["lit"];
    let mut pool: Vec<&str> = ARRAY_ROUTES[1..].to_vec();
    for _ in 0..4 {
        let i = g.t.below(pool.len());
        routes.push(pool.remove(i));
    }
    let m = g.t.below(3);
    let mut modes = vec![MODES[m]];
    if g.t.chance(64) {
        modes.push(MODES[(m + 1) % 3]);
    }
    if g.excl.forin_over_proxy_inherited && g.ap_enumerable && g.has_forin && modes.contains(&"proxy") {
        g.lab("excluded-forin-over-proxy-inherited");
        for x in &mut modes {
            if *x == "proxy" {
                *x = "alikep";
            }
        }
        modes.dedup();
    }
    routes.extend(modes);
    let k = if n > 0 { g.t.below(n) } else { 0 };
    let mut src = String::from(PRELUDE);
    src.push_str(&format!("function B() {{ return {blit}; }}\n"));
    src.push_str("function hist(a, b) {\n");
    if strict {
        src.push_str("  'use strict';\n");
        g.lab("strict");
    }
    src.push_str("  var c, t, x, y, z;\n  D(a, b);\n");
    src.push_str(&body);
    src.push_str("}\n");
    for r in routes {
        if let Some(build) = route(r, &init, k) {
            src.push_str(&format!("VAR('{r}'); (function () {{ {build} hist(a, B()); }})();\n"));
        }
    }
    src.push_str("CLEAN(); FLUSH();\n");
    Case { src, labels: g.labels.into_iter().collect(), nsteps }
}
