//! Inline-cache histories (C06): a few access-site functions executed repeatedly, interleaved
//! with shape / prototype / global mutations.

use crate::genp::prog::PRELUDE;
use crate::tape::Tape;

pub struct IcProgram {
    pub src: String,
    pub warm_then_mutated: bool,
    pub labels: Vec<&'static str>,
    pub excluded: usize,
}

const KEYS: &[&str] = &["a", "b", "c", "length", "x", "tmp", "gx"];

pub struct IcOpts {
    /// F10: do not add/delete/redefine properties on an object that is a prototype of a pool
    /// object once any site has run (value-only writes, prototype replacement stay in)
    pub excl_f10_proto_shape_change: bool,
    /// F23: a cached store to an array's `length` bypasses the array exotic [[DefineOwnProperty]]
    pub excl_f23_array_length_store: bool,
    /// F24: a getter/setter that changes the receiver's shape while the site is being cached
    pub excl_f24_shape_change_in_accessor: bool,
    /// F31: a cached prototype hit is not invalidated when an own property of that name is added to a
    /// receiver with a unique shape (global object, builtin namespaces, dictionary-mode objects)
    pub excl_f31_own_shadow_on_unique_shape: bool,
}

pub fn generate(tape: &[u8], o: &IcOpts) -> IcProgram {
    let mut t = Tape::new(tape);
    let mut s = String::from(PRELUDE);
    let mut labels: Vec<&'static str> = vec![];
    let mut excluded = 0;
    // prototypes and pool
    s.push_str("var gv = 1, gw = 'w';\n");
    s.push_str("var P0 = { a: 'P0a', b: 'P0b', x: 'P0x' };\nvar P1 = Object.create(P0); P1.b = 'P1b'; P1.c = 'P1c';\nvar P2 = Object.create(P1); P2.a = 'P2a';\n");
    s.push_str("class K { constructor(v) { this.b = v; } get a() { return 'Ka'; } set a(v) { print('K.set a', v); } m() { return super.x; } }\nK.prototype.x = 'Kx';\nclass D extends K { m() { return 'D' + super.m() + super.a; } sb(v) { super.b = v; return this.b; } }\n");
    let pool_defs = [
        "({ a: 1, b: 2 })", "({ b: 2, a: 1 })", "({ a: 1, b: 2, c: 3 })", "Object.create(P0)", "Object.create(P1)", "Object.create(P2)", "new K(5)", "new D(6)", "[1, 2, 3]", "(function f(p, q) {})",
        "({ get b() { print('own getter b'); return 'gb'; }, set b(v) { print('own setter b', v); } })", "Object.create(P1, { b: { value: 'ob', writable: false, configurable: true } })", "({ __proto__: P2, c: 'own c' })", "'str'", "5",
        "Object.create(null)", "new Proxy({ b: 'pb' }, {})", "Object.freeze({ a: 1, b: 2 })",
        // objects with a unique (unshared) shape: builtin namespaces, the global object, objects after a delete
        "Math", "JSON", "Reflect", "globalThis", "(function () { var u = { a: 1, b: 2, c: 3 }; delete u.c; return u; })()", "(function () { var u = { a: 1 }; for (var i = 0; i < 40; i++) u['p' + i] = i; u.b = 'ub'; return u; })()",
    ];
    let n_obj = 3 + t.below(6);
    s.push_str("var O = [];\n");
    let mut pool_builtin = vec![];
    let mut pool_unique = vec![];
    for _ in 0..n_obj {
        let d = *t.pick(&pool_defs);
        pool_builtin.push(matches!(d, "Math" | "JSON" | "Reflect" | "globalThis"));
        pool_unique.push(matches!(d, "Math" | "JSON" | "Reflect" | "globalThis") || d.contains("var u ="));
        s.push_str(&format!("O.push({d});\n"));
    }
    // access sites
    let n_sites = 2 + t.below(4);
    let mut sites: Vec<(String, usize)> = vec![]; // (name, kind)
    for i in 0..n_sites {
        let k = *t.pick(KEYS);
        let kind = t.below(9);
        let name = format!("S{i}");
        match kind {
            0 | 1 => s.push_str(&format!("function {name}(o) {{ return o.{k}; }}\n")),
            2 => {
                let k = if k == "length" && o.excl_f23_array_length_store { excluded += 1; "x" } else { k };
                let k = if o.excl_f31_own_shadow_on_unique_shape && pool_unique.iter().any(|u| *u) && !matches!(k, "tmp" | "gx") { excluded += 1; "tmp" } else { k };
                s.push_str(&format!("function {name}(o, v) {{ o.{k} = v; return o.{k}; }}\n"));
            }
            3 => s.push_str(&format!("function {name}(o) {{ return o.length; }}\n")),
            4 => s.push_str(&format!("function {name}() {{ return {}; }}\n", if t.bool() { "gv" } else { "typeof gx === 'undefined' ? 'no gx' : gx" })),
            5 => s.push_str(&format!("function {name}(o, v) {{ gv = v; return typeof gw + gv; }}\n")),
            6 => s.push_str(&format!("function {name}(o) {{ return typeof o.m === 'function' ? o.m() : 'no m'; }}\n")),
            7 => s.push_str(&format!("function {name}(o) {{ with (Object(o)) {{ return typeof {k} === 'undefined' ? 'undef' : {k}; }} }}\n")),
            _ => {
                let k = if k == "length" && o.excl_f23_array_length_store { excluded += 1; "x" } else { k };
                let k = if o.excl_f31_own_shadow_on_unique_shape && pool_unique.iter().any(|u| *u) && !matches!(k, "tmp" | "gx") { excluded += 1; "gx" } else { k };
                s.push_str(&format!("function {name}(o, v) {{ 'use strict'; o.{k} = v; return o.{k}; }}\n"));
            }
        }
        sites.push((name, kind));
    }
    s.push_str("function call(f, o, v) { try { return show(f(o, v)); } catch (e) { return 'threw ' + show(e); } }\n");
    let steps = 10 + t.below(50);
    let mut warmed = false;
    let mut calls_since_start = 0usize;
    let mut mutated_after_warm = false;
    let mut last_site_obj: Option<(usize, usize)> = None;
    for step in 0..steps {
        let act = t.below(20);
        if act < 9 {
            // call a site (repeat the previous pair often: warm caches)
            let (si, oi) = match last_site_obj {
                Some(p) if t.chance(150) => p,
                _ => (t.below(sites.len()), t.below(n_obj)),
            };
            last_site_obj = Some((si, oi));
            let v = ["1", "'v'", "undefined", "{ n: 1 }", "step"][t.below(5)].replace("step", &step.to_string());
            let reps = 1 + t.below(4);
            s.push_str(&format!("for (var r = 0; r < {reps}; r++) print('{step}', call({}, O[{oi}], {v}));\n", sites[si].0));
            calls_since_start += reps;
            if calls_since_start >= 3 {
                warmed = true;
            }
        } else {
            let oi = t.below(n_obj);
            let k = *t.pick(KEYS);
            let target_is_proto;
            let target = match t.below(7) {
                0 | 1 | 2 => {
                    target_is_proto = false;
                    format!("O[{oi}]")
                }
                3 => {
                    target_is_proto = true;
                    format!("Object.getPrototypeOf(Object(O[{oi}]))")
                }
                4 => {
                    target_is_proto = true;
                    ["P0", "P1", "P2", "K.prototype", "D.prototype", "Object.prototype", "Array.prototype", "String.prototype"][t.below(8)].to_string()
                }
                5 => {
                    target_is_proto = false;
                    "globalThis".to_string()
                }
                _ => {
                    target_is_proto = true;
                    format!("Object.getPrototypeOf(Object.getPrototypeOf(Object(O[{oi}])) || {{}})")
                }
            };
            let mut gk = if target == "globalThis" { *t.pick(&["gv", "gw", "gx"]) } else { k };
            if o.excl_f31_own_shadow_on_unique_shape {
                let on_unique = (target == format!("O[{oi}]") && pool_unique[oi]) || target == "globalThis";
                if on_unique && !matches!(gk, "tmp" | "gx" | "gv" | "gw") {
                    gk = *t.pick(&["tmp", "gx"]);
                    excluded += 1;
                } else if target_is_proto && matches!(gk, "tmp" | "gx") {
                    gk = "x";
                    excluded += 1;
                }
            }
            let mut m = match t.below(15) {
                0 => format!("T.{gk} = 'set{step}';"),
                1 => format!("delete T.{gk};"),
                2 => format!("Object.defineProperty(T, '{gk}', {{ get() {{ print('getter {gk}'); return 'acc{step}'; }}, set(v) {{ print('setter {gk}', show(v)); }}, configurable: true }});"),
                3 => format!("Object.defineProperty(T, '{gk}', {{ value: 'ro{step}', writable: false, configurable: true, enumerable: {} }});", t.bool()),
                4 => format!("Object.defineProperty(T, '{gk}', {{ value: 'dv{step}', writable: true, configurable: true, enumerable: true }});"),
                5 => format!("T.n{step} = {step};"),
                6 => "Object.freeze(T);".to_string(),
                7 => "Object.preventExtensions(T);".to_string(),
                8 => format!("Object.setPrototypeOf(T, {});", ["P0", "P1", "P2", "null", "K.prototype", "Array.prototype", "{ b: 'fresh proto b', a: 'fresh a' }"][t.below(7)]),
                9 => "Object.seal(T);".to_string(),
                12 | 13 => format!("T.{gk} = 'tmp{step}'; delete T.{gk}; T.other{step} = {step};"),
                14 => format!("delete T.{gk}; T.other{step} = {step};"),
                10 if !o.excl_f24_shape_change_in_accessor => format!("Object.defineProperty(T, '{gk}', {{ get() {{ delete T.{gk}; T.{gk} = 'self-replaced'; return 'once'; }}, configurable: true }});"),
                10 => {
                    excluded += 1;
                    format!("T.{gk} = 'set{step}';")
                }
                _ => format!("T.{gk} = T.{gk};"),
            };
            let shape_change = !m.starts_with("T.") || m.contains("T.n") || m.starts_with("delete") || true;
            if o.excl_f10_proto_shape_change && target_is_proto && calls_since_start >= 1 && shape_change && !(m.starts_with(&format!("T.{gk} = 'set")) && false) {
                // only prototype *replacement* on the receiver and value writes are kept; everything
                // that restructures a live prototype after warm-up is skipped
                excluded += 1;
                continue;
            }
            if o.excl_f31_own_shadow_on_unique_shape && ((target == format!("O[{oi}]") && pool_unique[oi]) || target == "globalThis") && m.contains("defineProperty") {
                // F32: redefining the attributes of a property of a unique-shaped receiver does not
                // invalidate a cached store site
                excluded += 1;
                m = format!("T.{gk} = 'u{step}';");
            }
            if target == "globalThis" && m.contains("defineProperty") && matches!(gk, "gv" | "gw") {
                // `var` bindings are non-configurable properties of the global object, so redefining them
                // throws a TypeError; the global of a node vm context (the reference) does not reproduce
                // that, so the redefinition goes to the assignment-created (configurable) global instead
                m = m.replace(&format!("'{gk}'"), "'gx'").replace(&format!("T.{gk}"), "T.gx");
            }
            if target == format!("O[{oi}]") && pool_builtin[oi] && (m.contains("freeze") || m.contains("seal") || m.contains("preventExtensions") || m.contains("setPrototypeOf")) {
                m = format!("T.{gk} = 'b{step}';");
            }
            if target == "globalThis" && (m.contains("freeze") || m.contains("seal") || m.contains("preventExtensions") || m.contains("setPrototypeOf")) {
                m = format!("T.{gk} = 'g{step}';");
            }
            if target.contains("Object.prototype") || target.contains("Array.prototype") || target.contains("String.prototype") {
                // keep the prelude's show() working: no freeze/accessors on shared intrinsics' common keys
                if m.contains("freeze") || m.contains("seal") || m.contains("preventExtensions") || m.contains("setPrototypeOf") || gk == "length" {
                    continue;
                }
            }
            s.push_str(&format!("try {{ (function (T) {{ if (T === null || T === undefined) return; {m} }})({target}); }} catch (e) {{ print('{step} mutation threw', show(e)); }}\n"));
            if warmed {
                mutated_after_warm = true;
            }
            if target_is_proto { if !labels.contains(&"mutate-prototype") { labels.push("mutate-prototype"); } } else if target == "globalThis" { if !labels.contains(&"mutate-global") { labels.push("mutate-global"); } } else if !labels.contains(&"mutate-receiver") { labels.push("mutate-receiver"); }
        }
    }
    // final sweep: every site on every object
    s.push_str("for (var i = 0; i < O.length; i++) {\n");
    for (name, _) in &sites {
        s.push_str(&format!("  print('final', i, call({name}, O[i], 'f'));\n"));
    }
    s.push_str("}\nprint(typeof gv, typeof gw, typeof gx);\n");
    IcProgram { src: s, warm_then_mutated: warmed && mutated_after_warm, labels, excluded }
}
