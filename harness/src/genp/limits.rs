//! Runtime-limit programs (C08): loop forms x re-entry routes x try/catch/finally wrappers.

use crate::tape::Tape;

/// (name, template with `CB` = expression calling the callback, is_async)
pub const ROUTES: &[(&str, &str, bool)] = &[
    ("call", "cb()", false),
    ("new", "new (function () { cb(); })()", false),
    ("getter", "({ get x() { return cb(); } }).x", false),
    ("setter", "({ set x(v) { cb(); } }).x = 1", false),
    ("proxy-get", "new Proxy({}, { get() { return cb(); } }).p", false),
    ("proxy-has", "'p' in new Proxy({}, { has() { cb(); return true; } })", false),
    ("proxy-ownkeys", "Object.keys(new Proxy({}, { ownKeys() { cb(); return []; } }))", false),
    ("proxy-apply", "new Proxy(function () {}, { apply() { return cb(); } })()", false),
    ("proxy-construct", "new (new Proxy(function () {}, { construct() { cb(); return {}; } }))()", false),
    ("proxy-set", "new Proxy({}, { set() { cb(); return true; } }).p = 1", false),
    ("proxy-defineproperty", "Object.defineProperty(new Proxy({}, { defineProperty() { cb(); return true; } }), 'p', { value: 1, configurable: true })", false),
    ("proxy-getprototypeof", "Object.getPrototypeOf(new Proxy({}, { getPrototypeOf() { cb(); return null; } }))", false),
    ("iterator", "[...{ [Symbol.iterator]() { return { next() { cb(); return { done: true }; } }; } }]", false),
    ("array-from-close", "Array.from({ [Symbol.iterator]() { return { i: 0, next() { return { done: this.i++ > 0, value: 1 }; }, return() { print('finally'); return {}; } }; } }, function () { cb(); })", false),
    ("destructure-default-close", "(function () { var [a = cb()] = { [Symbol.iterator]() { return { next() { return { done: false, value: undefined }; }, return() { print('finally'); return {}; } }; } }; })()", false),
    ("for-of-body-close", "(function () { for (var q of { [Symbol.iterator]() { return { next() { return { done: false, value: 1 }; }, return() { print('finally'); return {}; } }; } }) { cb(); break; } })()", false),
    ("map-from-iterable-close", "new Map({ [Symbol.iterator]() { return { i: 0, next() { return { done: this.i++ > 0, value: { get 0() { cb(); return 1; } } }; }, return() { print('finally'); return {}; } }; } })", false),
    ("iterator-return", "(function () { for (var q of { [Symbol.iterator]() { return { next() { return { done: false, value: 1 }; }, return() { cb(); return {}; } }; } }) break; })()", false),
    ("toPrimitive", "+{ [Symbol.toPrimitive]() { cb(); return 1; } }", false),
    ("valueOf", "({ valueOf() { cb(); return 1; } }) * 2", false),
    ("toString", "`${{ toString() { cb(); return 's'; } }}`", false),
    ("forEach", "[1].forEach(function () { cb(); })", false),
    ("map", "[1].map(function () { return cb(); })", false),
    ("filter", "[1].filter(function () { return cb(); })", false),
    ("reduce", "[1, 2].reduce(function () { return cb(); })", false),
    ("find", "[1].find(function () { return cb(); })", false),
    ("some", "[1].some(function () { return cb(); })", false),
    ("flatMap", "[1].flatMap(function () { return cb(); })", false),
    ("sort", "[2, 1].sort(function () { cb(); return 0; })", false),
    ("array-from", "Array.from({ length: 1 }, function () { return cb(); })", false),
    ("typedarray-map", "new Uint8Array(1).map(function () { cb(); return 1; })", false),
    ("map-foreach", "new Map([[1, 2]]).forEach(function () { cb(); })", false),
    ("set-foreach", "new Set([1]).forEach(function () { cb(); })", false),
    ("replace", "'a'.replace(/a/, function () { cb(); return 'b'; })", false),
    ("replace-string", "'a'.replace('a', function () { cb(); return 'b'; })", false),
    ("replaceAll", "'aa'.replaceAll('a', function () { cb(); return 'b'; })", false),
    ("toJSON", "JSON.stringify({ toJSON() { cb(); return 1; } })", false),
    ("json-replacer", "JSON.stringify({ a: 1 }, function (k, v) { cb(); return v; })", false),
    ("json-reviver", "JSON.parse('[1]', function (k, v) { cb(); return v; })", false),
    ("reflect-apply", "Reflect.apply(cb, undefined, [])", false),
    ("reflect-construct", "Reflect.construct(function () { cb(); }, [])", false),
    ("fn-call", "cb.call(null)", false),
    ("fn-apply", "cb.apply(null, [])", false),
    ("fn-bind", "cb.bind(null)()", false),
    ("promise-executor", "new Promise(function () { cb(); })", false),
    ("promise-then-sync-thenable", "Promise.resolve({ get then() { cb(); } })", false),
    ("tagged-template", "(function () { cb(); })`x`", false),
    ("direct-eval", "eval('cb()')", false),
    ("indirect-eval", "(0, eval)('cb()')", false),
    ("function-ctor", "Function('cb()')()", false),
    ("static-block", "(class { static { cb(); } })", false),
    ("field-init", "new (class { f = cb(); })()", false),
    ("static-field", "(class { static f = cb(); })", false),
    ("computed-key", "({ [cb()]: 1 })", false),
    ("default-param", "(function (a = cb()) {})()", false),
    ("generator", "[...(function* () { cb(); })()]", false),
    ("generator-next", "(function* () { cb(); yield 1; })().next()", false),
    ("hasInstance", "1 instanceof { [Symbol.hasInstance]() { cb(); return true; } }", false),
    ("species", "(function () { class A extends Array { static get [Symbol.species]() { cb(); return Array; } } return new A(1).map(function (x) { return x; }); })()", false),
    ("object-assign-getter", "Object.assign({}, { get g() { return cb(); } })", false),
    ("spread-getter", "({ ...{ get g() { return cb(); } } })", false),
    ("destructure-getter", "(function () { var { g } = { get g() { return cb(); } }; })()", false),
    ("with-unscopables", "(function () { with ({ get x() { return cb(); } }) { x; } })()", false),
    ("super-call", "new (class extends (function () { cb(); }) {})()", false),
    ("then-callback", "Promise.resolve().then(function () { cb(); })", true),
    ("async-continuation", "(async function () { await 0; cb(); })()", true),
    ("async-start", "(async function () { cb(); })()", false),
    ("thenable-job", "Promise.resolve({ then(r) { cb(); r(1); } })", true),
    ("async-generator", "(async function* () { cb(); })().next()", false),
    ("for-await-body", "(async function () { for await (var q of [1]) { cb(); } })()", true),
    ("finally-callback", "Promise.resolve().finally(function () { cb(); })", true),
    ("catch-callback", "Promise.reject(1).catch(function () { cb(); })", true),
];

/// routes on which a RuntimeLimitError hits a known finding (EnginePanic "cannot fail per spec"
/// in the async-function start, failed assertion in the async-generator start)
pub const EXCLUDED_RECURSION_ROUTES: &[&str] = &[];

pub const LOOPS: &[(&str, &str)] = &[
    ("while", "var i = 0; while (i < N) { i++; BODY }"),
    ("do-while", "var i = 0; do { i++; BODY } while (i < N);"),
    ("for", "for (var i = 0; i < N; i++) { BODY }"),
    ("for-let", "for (let i = 0; i < N; i++) { BODY }"),
    ("for-noupdate", "for (var i = 0; i < N;) { i++; BODY }"),
    ("for-in", "for (var k in BIGOBJ) { BODY }"),
    ("for-of", "for (var v of BIGARR) { BODY }"),
    ("for-of-generator", "for (var v of (function* () { for (var j = 0; j < N; j++) yield j; })()) { BODY }"),
    ("labelled-continue", "outer: for (var i = 0; i < N; i++) { for (var j = 0; j < 1; j++) { BODY continue outer; } }"),
    ("while-true-break", "var i = 0; while (true) { if (++i > N) break; BODY }"),
    ("nested-inner", "for (var o = 0; o < 1; o++) { for (var i = 0; i < N; i++) { BODY } }"),
    ("for-continue", "for (var i = 0; i < N; i++) { BODY if (i >= 0) continue; }"),
    ("do-while-continue", "var i = 0; do { i++; BODY if (i < N) continue; } while (i < N);"),
    ("for-in-array", "for (var k in BIGARR) { BODY }"),
    ("for-of-set", "for (var v of new Set(BIGARR)) { BODY }"),
    ("for-of-string", "for (var ch of BIGSTR) { BODY }"),
    ("for-of-destructure", "for (var [a, b] of BIGARR.map(function (x) { return [x, x]; })) { BODY }"),
];

pub const WRAPPERS: &[(&str, &str)] = &[
    ("none", "X"),
    ("try-catch", "try { X } catch (e) { print('caught'); }"),
    ("try-finally", "try { X } finally { print('finally'); }"),
    ("try-catch-finally", "try { X } catch (e) { print('caught'); } finally { print('finally'); }"),
    ("nested", "try { try { X } finally { print('finally'); } } catch (e) { print('caught'); }"),
    ("catch-rethrow", "try { X } catch (e) { print('caught'); throw e; }"),
    ("loop-try", "for (var w = 0; w < 1; w++) { try { X } catch (e) { print('caught'); continue; } finally { print('finally'); } }"),
];

pub struct LimitProgram {
    pub src: String,
    /// loop: number of body executions the program needs; recursion: depth it needs
    pub need: u64,
    pub kind: &'static str, // "loop" | "recursion"
    pub route: &'static str,
    pub form: &'static str,
    pub wrappers: (&'static str, &'static str),
    pub is_async: bool,
}

pub fn generate(tape: &[u8]) -> LimitProgram {
    let mut t = Tape::new(tape);
    let recursion = t.below(3) == 0;
    let (mut rname, mut rtpl, mut is_async) = ROUTES[t.below(ROUTES.len())];
    if recursion && (is_async || EXCLUDED_RECURSION_ROUTES.contains(&rname)) {
        // asynchronous routes do not nest frames (each level runs in its own job); two routes hit
        // known findings when the limit error reaches an "infallible" internal step
        (rname, rtpl, is_async) = ROUTES[0];
    }
    let (wa_name, wa) = WRAPPERS[t.below(WRAPPERS.len())];
    let (wb_name, wb) = WRAPPERS[t.below(WRAPPERS.len())];
    let mut s = String::new();
    s.push_str("var count = 0, depth = 0;\n");
    if recursion {
        let need = [3u64, 6, 12, 25, 40][t.below(5)];
        // each level re-enters through the route; terminates by itself at `need`
        let inner = wa.replace('X', &format!("{};", rtpl.replace("cb()", "rec()").replace("cb.", "rec.").replace("(cb,", "(rec,")));
        s.push_str(&format!("function rec() {{ depth++; if (depth >= {need}) return 0; {inner} print('rec end'); return 1; }}\n"));
        let outer = wb.replace('X', "rec();");
        s.push_str(&format!("{outer}\nprint('after-sync');\n"));
        LimitProgram { src: s, need, kind: "recursion", route: rname, form: "recursion", wrappers: (wa_name, wb_name), is_async }
    } else {
        let (lname, ltpl) = LOOPS[t.below(LOOPS.len())];
        let need = [0u64, 1, 2, 5, 12, 40, 150][t.below(7)];
        let body = ltpl.replace("BODY", "count++;").replace('N', &need.to_string());
        let body = body.replace("BIGOBJ", "bigobj").replace("BIGARR", "bigarr").replace("BIGSTR", &format!("'{}'", "x".repeat(need as usize)));
        s.push_str(&format!("var bigobj = {{}}, bigarr = []; for (var z = 0; z < {need}; z++) {{ bigobj['k' + z] = z; bigarr.push(z); }}\n"));
        // note: the set-up loop above runs in the script frame and counts against the limit
        // too; the check accounts for it (see c08.rs)
        let inner = wa.replace('X', &body);
        s.push_str(&format!("function cb() {{ {inner} print('cb end'); return 1; }}\n"));
        let outer = wb.replace('X', &format!("{rtpl};"));
        s.push_str(&format!("{outer}\nprint('after-sync');\n"));
        LimitProgram { src: s, need, kind: "loop", route: rname, form: lname, wrappers: (wa_name, wb_name), is_async }
    }
}

/// Recursion that nests activations WITHOUT calling a user-defined function at any level: a string
/// that evaluates itself (direct / indirect eval), and chains of generators built iteratively and
/// resumed once (each level re-enters the VM through the native `next` only). The recursion limit
/// has to stop these as well; the function-call check alone does not see them.
pub const FRAMELESS: &[&str] = &["direct-eval-self", "indirect-eval-self", "yield-star-chain", "for-of-chain", "spread-chain", "eval-in-generator-chain"];

pub fn generate_frameless(tape: &[u8]) -> LimitProgram {
    let mut t = Tape::new(tape);
    let form = FRAMELESS[t.below(FRAMELESS.len())];
    let (wa_name, wa) = WRAPPERS[t.below(WRAPPERS.len())];
    let (wb_name, wb) = WRAPPERS[t.below(WRAPPERS.len())];
    let need = [3u64, 6, 12, 25, 40, 90][t.below(6)];
    let mut s = String::from("var count = 0, depth = 0;\n");
    match form {
        "direct-eval-self" | "indirect-eval-self" => {
            let call = if form == "direct-eval-self" { "eval(s);" } else { "(0, eval)(s);" };
            let inner = wa.replace('X', call);
            s.push_str(&format!("var s = \"depth++; if (depth < {need}) {{ {inner} }} print('rec end');\";\n"));
            s.push_str(&wb.replace('X', call));
        }
        _ => {
            let body = match form {
                "yield-star-chain" => "yield* inner;",
                "for-of-chain" => "for (var x of inner) yield x;",
                "spread-chain" => "yield [...inner].length;",
                _ => "yield eval('inner.next().value');",
            };
            let inner = wa.replace('X', body);
            s.push_str(&format!("function* leaf() {{ yield 1; }}\nfunction* wrap(inner) {{ depth++; {inner} print('rec end'); }}\nvar it = leaf();\nfor (var i = 0; i < {}; i++) it = wrap(it);\n", need - 1));
            s.push_str(&wb.replace('X', "it.next();"));
        }
    }
    s.push_str("\nprint('after-sync');\n");
    LimitProgram { src: s, need, kind: "recursion", route: "frameless", form, wrappers: (wa_name, wb_name), is_async: false }
}
