//! Operation histories over `boa_gc`'s public API and the graph-reachability reference model
//! used by property C09. Nothing in this file touches the real collector.

use std::collections::{BTreeMap, HashMap};

/// Who holds a handle: the host (stack / thread-local, i.e. a root) or a node on the GC heap.
#[derive(Clone, Copy, Debug, PartialEq, Eq, Hash)]
pub enum H {
    Host,
    Node(u32),
}

#[derive(Clone, Copy, Debug, PartialEq, Eq, Hash)]
pub enum Op {
    /// allocate node `n`, the host gets one handle
    Alloc(u32),
    /// holder stores a new strong handle to t (Host: clone a root handle)
    Link(H, u32),
    /// holder drops its last-added strong handle to t (Host: drop a root handle)
    Unlink(H, u32),
    /// host clones the edge a -> t into a new root handle
    Load(u32, u32),
    /// holder stores a new `WeakGc` to t
    Weak(H, u32),
    /// clone the first weak handle to t of `.0` into `.1` (shared ephemeron box)
    ShareWeak(H, H, u32),
    DropWeak(H, u32),
    /// upgrade holder's first weak to t; keep the result as a root or drop it
    Upgrade(H, u32, bool),
    /// holder stores `Ephemeron::new(key, value handle)`
    Eph(H, u32, u32),
    DropEph(H, u32, u32),
    EphVal(H, u32, u32, bool),
    /// holder creates its `WeakMap`
    Map(H),
    DropMap(H),
    MapIns(H, u32, u32),
    MapRem(H, u32),
    MapGet(H, u32, bool),
    /// node n resurrects itself in its next finalizer
    Arm(u32),
    Disarm(u32),
    Collect,
}

fn hs(h: H) -> String {
    match h {
        H::Host => "h".into(),
        H::Node(n) => format!("n{n}"),
    }
}
fn kd(k: bool) -> &'static str {
    if k { "keep" } else { "drop" }
}

pub fn render_op(op: Op) -> String {
    match op {
        Op::Alloc(n) => format!("alloc n{n}"),
        Op::Link(H::Host, t) => format!("clone n{t}"),
        Op::Link(H::Node(a), t) => format!("link n{a} n{t}"),
        Op::Unlink(H::Host, t) => format!("drop n{t}"),
        Op::Unlink(H::Node(a), t) => format!("unlink n{a} n{t}"),
        Op::Load(a, t) => format!("load n{a} n{t}"),
        Op::Weak(h, t) => format!("weak {} n{t}", hs(h)),
        Op::ShareWeak(f, to, t) => format!("shareweak {} {} n{t}", hs(f), hs(to)),
        Op::DropWeak(h, t) => format!("dropweak {} n{t}", hs(h)),
        Op::Upgrade(h, t, k) => format!("upgrade {} n{t} {}", hs(h), kd(k)),
        Op::Eph(h, k, v) => format!("eph {} n{k} n{v}", hs(h)),
        Op::DropEph(h, k, v) => format!("dropeph {} n{k} n{v}", hs(h)),
        Op::EphVal(h, k, v, keep) => format!("ephval {} n{k} n{v} {}", hs(h), kd(keep)),
        Op::Map(h) => format!("map {}", hs(h)),
        Op::DropMap(h) => format!("dropmap {}", hs(h)),
        Op::MapIns(h, k, v) => format!("mapins {} n{k} n{v}", hs(h)),
        Op::MapRem(h, k) => format!("maprem {} n{k}", hs(h)),
        Op::MapGet(h, k, keep) => format!("mapget {} n{k} {}", hs(h), kd(keep)),
        Op::Arm(n) => format!("arm n{n}"),
        Op::Disarm(n) => format!("disarm n{n}"),
        Op::Collect => "collect".into(),
    }
}

pub fn render(ops: &[Op]) -> String {
    let mut s = String::new();
    for op in ops {
        s.push_str(&render_op(*op));
        s.push('\n');
    }
    s
}

pub const MAX_ID: u32 = 4096;

fn pn(s: &str) -> Option<u32> {
    let n: u32 = s.strip_prefix('n')?.parse().ok()?;
    (n < MAX_ID).then_some(n)
}
fn ph(s: &str) -> Option<H> {
    if s == "h" { Some(H::Host) } else { pn(s).map(H::Node) }
}
fn pk(s: &str) -> Option<bool> {
    match s {
        "keep" => Some(true),
        "drop" => Some(false),
        _ => None,
    }
}

pub fn parse_op(line: &str) -> Option<Op> {
    let p: Vec<&str> = line.split_whitespace().collect();
    let a = |i: usize| p.get(i).copied().unwrap_or("");
    Some(match (a(0), p.len()) {
        ("alloc", 2) => Op::Alloc(pn(a(1))?),
        ("clone", 2) => Op::Link(H::Host, pn(a(1))?),
        ("link", 3) => Op::Link(H::Node(pn(a(1))?), pn(a(2))?),
        ("drop", 2) => Op::Unlink(H::Host, pn(a(1))?),
        ("unlink", 3) => Op::Unlink(H::Node(pn(a(1))?), pn(a(2))?),
        ("load", 3) => Op::Load(pn(a(1))?, pn(a(2))?),
        ("weak", 3) => Op::Weak(ph(a(1))?, pn(a(2))?),
        ("shareweak", 4) => Op::ShareWeak(ph(a(1))?, ph(a(2))?, pn(a(3))?),
        ("dropweak", 3) => Op::DropWeak(ph(a(1))?, pn(a(2))?),
        ("upgrade", 4) => Op::Upgrade(ph(a(1))?, pn(a(2))?, pk(a(3))?),
        ("eph", 4) => Op::Eph(ph(a(1))?, pn(a(2))?, pn(a(3))?),
        ("dropeph", 4) => Op::DropEph(ph(a(1))?, pn(a(2))?, pn(a(3))?),
        ("ephval", 5) => Op::EphVal(ph(a(1))?, pn(a(2))?, pn(a(3))?, pk(a(4))?),
        ("map", 2) => Op::Map(ph(a(1))?),
        ("dropmap", 2) => Op::DropMap(ph(a(1))?),
        ("mapins", 4) => Op::MapIns(ph(a(1))?, pn(a(2))?, pn(a(3))?),
        ("maprem", 3) => Op::MapRem(ph(a(1))?, pn(a(2))?),
        ("mapget", 4) => Op::MapGet(ph(a(1))?, pn(a(2))?, pk(a(3))?),
        ("arm", 2) => Op::Arm(pn(a(1))?),
        ("disarm", 2) => Op::Disarm(pn(a(1))?),
        ("collect", 1) => Op::Collect,
        _ => return None,
    })
}

/// Parse a rendered history; `Err(line)` on the first malformed non-empty, non-comment line.
pub fn parse(text: &str) -> Result<Vec<Op>, String> {
    let mut ops = vec![];
    for l in text.lines() {
        let l = l.trim();
        if l.is_empty() || l.starts_with('#') {
            continue;
        }
        ops.push(parse_op(l).ok_or_else(|| l.to_string())?);
    }
    Ok(ops)
}

// ---------------------------------------------------------------------------------------
// the reference model

#[derive(Clone, Default, Debug)]
pub struct MHolder {
    pub edges: Vec<u32>,
    pub weaks: Vec<usize>,
    pub ephs: Vec<usize>,
    pub map: Option<usize>,
}
impl MHolder {
    pub fn has_handles(&self) -> bool {
        !self.edges.is_empty() || !self.weaks.is_empty() || !self.ephs.is_empty() || self.map.is_some()
    }
}

#[derive(Clone, Debug)]
pub struct MNode {
    pub alive: bool,
    pub h: MHolder,
    pub fin: u32,
    pub dropped: u32,
}

#[derive(Clone, Copy, PartialEq, Eq, Debug)]
pub enum MKey {
    Node(u32),
    Map(usize),
}

/// kind: 0 = WeakGc<Node>, 1 = Ephemeron<Node, Gc<Node>>, 2 = the WeakGc of a WeakMapBox
#[derive(Clone, Debug)]
pub struct MEph {
    pub key: MKey,
    pub val: Option<u32>,
    pub kind: u8,
    pub cleared: bool,
    pub alive: bool,
}

#[derive(Clone, Debug)]
pub struct MMap {
    pub alive: bool,
    pub entries: Vec<usize>,
    pub wbox: usize,
}

#[derive(Debug, PartialEq, Eq, Clone, Copy)]
pub enum Obs {
    Unit,
    Target(Option<u32>),
    Bool(bool),
}

/// What the collects of a history looked like (for the non-trivial rule and the labels).
#[derive(Clone, Default, Debug)]
pub struct Facts {
    pub collects: u32,
    pub nontrivial_collects: u32,
    pub freed_nodes: u32,
    pub heap_only_survivor: bool,
    pub cycle: bool,
    pub self_link: bool,
    pub eph_key_from_value: bool,
    pub weakmap_entry: bool,
    pub weakmap_entry_expired: bool,
    pub resurrection: bool,
    pub zombie_eph_freed: bool,
    pub weak_cleared: bool,
    pub eph_fixpoint_rounds: u32,
    pub shared_weak: bool,
    /// a finalizer resurrected a node that held handles or had incoming heap handles (finding C09-a)
    pub resurrect_non_isolated: bool,
    pub max_nodes: u32,
    pub skipped_ops: u32,
}

pub struct Marks {
    pub n: Vec<bool>,
    pub e: Vec<bool>,
    pub m: Vec<bool>,
    pub rounds: u32,
}

/// Sensitivity switches: deliberately wrong models (only used to show the comparison is live).
#[derive(Clone, Copy, Default, Debug, PartialEq, Eq)]
pub struct Broken {
    /// ignore ephemeron values as (conditional) edges
    pub ignore_eph_values: bool,
    /// treat weak references as strong
    pub weak_is_strong: bool,
}

#[derive(Clone, Debug)]
pub struct Model {
    pub nodes: Vec<Option<MNode>>,
    pub ephs: Vec<MEph>,
    pub maps: Vec<MMap>,
    pub host: MHolder,
    pub armed: BTreeMap<u32, usize>,
    pub collections: u64,
    pub allocs: u64,
    /// live boxes: nodes, ephemerons by kind, map boxes
    pub n_nodes: u64,
    pub n_eph: [u64; 3],
    pub n_maps: u64,
    pub created_nodes: u32,
    /// ops since the last collect (0 right after one) and whether that collect changed anything
    pub since_collect: u32,
    pub last_collect_effect: bool,
    pub facts: Facts,
    pub broken: Broken,
}

impl Default for Model {
    fn default() -> Self {
        Self::new()
    }
}

impl Model {
    pub fn new() -> Self {
        Self {
            nodes: vec![],
            ephs: vec![],
            maps: vec![],
            host: MHolder::default(),
            armed: BTreeMap::new(),
            collections: 0,
            allocs: 0,
            n_nodes: 0,
            n_eph: [0; 3],
            n_maps: 0,
            created_nodes: 0,
            since_collect: 1,
            last_collect_effect: false,
            facts: Facts::default(),
            broken: Broken::default(),
        }
    }

    pub fn node(&self, n: u32) -> Option<&MNode> {
        self.nodes.get(n as usize).and_then(|x| x.as_ref())
    }
    pub fn alive(&self, n: u32) -> bool {
        self.node(n).is_some_and(|x| x.alive)
    }
    pub fn rooted(&self, n: u32) -> bool {
        self.host.edges.contains(&n)
    }
    pub fn holder_ok(&self, h: H) -> bool {
        match h {
            H::Host => true,
            H::Node(n) => self.rooted(n) && self.alive(n),
        }
    }
    pub fn holder(&self, h: H) -> &MHolder {
        match h {
            H::Host => &self.host,
            H::Node(n) => &self.nodes[n as usize].as_ref().expect("holder").h,
        }
    }
    fn holder_mut(&mut self, h: H) -> &mut MHolder {
        match h {
            H::Host => &mut self.host,
            H::Node(n) => &mut self.nodes[n as usize].as_mut().expect("holder").h,
        }
    }
    /// distinct rooted node ids, ascending
    pub fn rooted_ids(&self) -> Vec<u32> {
        let mut v = self.host.edges.clone();
        v.sort_unstable();
        v.dedup();
        v
    }
    pub fn find_weak(&self, h: H, t: u32) -> Option<usize> {
        self.holder(h).weaks.iter().position(|&e| self.ephs[e].key == MKey::Node(t))
    }
    pub fn find_eph(&self, h: H, k: u32, v: u32) -> Option<usize> {
        self.holder(h).ephs.iter().position(|&e| self.ephs[e].key == MKey::Node(k) && self.ephs[e].val == Some(v))
    }
    pub fn find_entry(&self, m: usize, k: u32) -> Option<usize> {
        self.maps[m].entries.iter().position(|&e| self.ephs[e].key == MKey::Node(k) && !self.ephs[e].cleared)
    }
    fn new_eph(&mut self, key: MKey, val: Option<u32>, kind: u8) -> usize {
        self.ephs.push(MEph { key, val, kind, cleared: false, alive: true });
        self.n_eph[kind as usize] += 1;
        self.allocs += 1;
        self.ephs.len() - 1
    }
    pub fn total_boxes(&self) -> u64 {
        self.n_nodes + self.n_eph.iter().sum::<u64>() + self.n_maps
    }

    /// Apply one operation; `None` = not applicable in this state (the op is skipped on both sides).
    pub fn apply(&mut self, op: Op) -> Option<Obs> {
        let r = self.apply_inner(op);
        if r.is_some() {
            if op != Op::Collect {
                self.since_collect += 1;
            }
        } else {
            self.facts.skipped_ops += 1;
        }
        r
    }

    fn apply_inner(&mut self, op: Op) -> Option<Obs> {
        match op {
            Op::Alloc(n) => {
                if n >= MAX_ID || self.node(n).is_some() {
                    return None;
                }
                if self.nodes.len() <= n as usize {
                    self.nodes.resize(n as usize + 1, None);
                }
                self.nodes[n as usize] = Some(MNode { alive: true, h: MHolder::default(), fin: 0, dropped: 0 });
                self.host.edges.push(n);
                self.n_nodes += 1;
                self.allocs += 1;
                self.created_nodes += 1;
                self.facts.max_nodes = self.facts.max_nodes.max(self.n_nodes as u32);
                Some(Obs::Unit)
            }
            Op::Link(h, t) => {
                if !self.holder_ok(h) || !self.rooted(t) {
                    return None;
                }
                if h == H::Node(t) {
                    self.facts.self_link = true;
                }
                self.holder_mut(h).edges.push(t);
                Some(Obs::Unit)
            }
            Op::Unlink(h, t) => {
                if !self.holder_ok(h) {
                    return None;
                }
                let i = self.holder(h).edges.iter().rposition(|&x| x == t)?;
                self.holder_mut(h).edges.remove(i);
                Some(Obs::Unit)
            }
            Op::Load(a, t) => {
                if !self.holder_ok(H::Node(a)) || !self.holder(H::Node(a)).edges.contains(&t) {
                    return None;
                }
                self.host.edges.push(t);
                Some(Obs::Unit)
            }
            Op::Weak(h, t) => {
                if !self.holder_ok(h) || !self.rooted(t) {
                    return None;
                }
                let e = self.new_eph(MKey::Node(t), None, 0);
                self.holder_mut(h).weaks.push(e);
                Some(Obs::Unit)
            }
            Op::ShareWeak(f, to, t) => {
                if !self.holder_ok(f) || !self.holder_ok(to) {
                    return None;
                }
                let i = self.find_weak(f, t)?;
                let e = self.holder(f).weaks[i];
                self.holder_mut(to).weaks.push(e);
                self.facts.shared_weak = true;
                Some(Obs::Unit)
            }
            Op::DropWeak(h, t) => {
                if !self.holder_ok(h) {
                    return None;
                }
                let i = self.find_weak(h, t)?;
                self.holder_mut(h).weaks.remove(i);
                Some(Obs::Unit)
            }
            Op::Upgrade(h, t, keep) => {
                if !self.holder_ok(h) {
                    return None;
                }
                let i = self.find_weak(h, t)?;
                let e = self.holder(h).weaks[i];
                let r = if self.ephs[e].cleared { None } else { Some(t) };
                if keep && r.is_some() {
                    self.host.edges.push(t);
                }
                Some(Obs::Target(r))
            }
            Op::Eph(h, k, v) => {
                if !self.holder_ok(h) || !self.rooted(k) || !self.rooted(v) {
                    return None;
                }
                let e = self.new_eph(MKey::Node(k), Some(v), 1);
                self.holder_mut(h).ephs.push(e);
                Some(Obs::Unit)
            }
            Op::DropEph(h, k, v) => {
                if !self.holder_ok(h) {
                    return None;
                }
                let i = self.find_eph(h, k, v)?;
                self.holder_mut(h).ephs.remove(i);
                Some(Obs::Unit)
            }
            Op::EphVal(h, k, v, keep) => {
                if !self.holder_ok(h) {
                    return None;
                }
                let i = self.find_eph(h, k, v)?;
                let e = self.holder(h).ephs[i];
                let r = if self.ephs[e].cleared { None } else { Some(v) };
                if keep && r.is_some() {
                    self.host.edges.push(v);
                }
                Some(Obs::Target(r))
            }
            Op::Map(h) => {
                if !self.holder_ok(h) || self.holder(h).map.is_some() {
                    return None;
                }
                let m = self.maps.len();
                self.allocs += 1; // the map's own box
                self.n_maps += 1;
                let wbox = self.new_eph(MKey::Map(m), None, 2);
                self.maps.push(MMap { alive: true, entries: vec![], wbox });
                self.holder_mut(h).map = Some(m);
                Some(Obs::Unit)
            }
            Op::DropMap(h) => {
                if !self.holder_ok(h) {
                    return None;
                }
                self.holder_mut(h).map.take()?;
                Some(Obs::Unit)
            }
            Op::MapIns(h, k, v) => {
                if !self.holder_ok(h) || !self.rooted(k) || !self.rooted(v) {
                    return None;
                }
                let m = self.holder(h).map?;
                if let Some(i) = self.find_entry(m, k) {
                    self.maps[m].entries.remove(i);
                }
                let e = self.new_eph(MKey::Node(k), Some(v), 1);
                self.maps[m].entries.push(e);
                Some(Obs::Unit)
            }
            Op::MapRem(h, k) => {
                if !self.holder_ok(h) || !self.rooted(k) {
                    return None;
                }
                let m = self.holder(h).map?;
                match self.find_entry(m, k) {
                    Some(i) => {
                        self.maps[m].entries.remove(i);
                        Some(Obs::Bool(true))
                    }
                    None => Some(Obs::Bool(false)),
                }
            }
            Op::MapGet(h, k, keep) => {
                if !self.holder_ok(h) || !self.rooted(k) {
                    return None;
                }
                let m = self.holder(h).map?;
                let r = self.find_entry(m, k).and_then(|i| self.ephs[self.maps[m].entries[i]].val);
                if let (true, Some(v)) = (keep, r) {
                    self.host.edges.push(v);
                }
                Some(Obs::Target(r))
            }
            Op::Arm(n) => {
                if !self.rooted(n) || self.armed.contains_key(&n) {
                    return None;
                }
                let e = self.new_eph(MKey::Node(n), None, 0);
                self.armed.insert(n, e);
                Some(Obs::Unit)
            }
            Op::Disarm(n) => {
                self.armed.remove(&n)?;
                Some(Obs::Unit)
            }
            Op::Collect => {
                self.collect();
                Some(Obs::Unit)
            }
        }
    }

    fn mark_holder(&self, h: &MHolder, mk: &mut Marks, stack: &mut Vec<u32>) {
        for &t in &h.edges {
            if !mk.n[t as usize] {
                mk.n[t as usize] = true;
                stack.push(t);
            }
        }
        for &e in h.weaks.iter().chain(&h.ephs) {
            mk.e[e] = true;
            if self.broken.weak_is_strong && !self.ephs[e].cleared {
                if let MKey::Node(k) = self.ephs[e].key {
                    if self.alive(k) && !mk.n[k as usize] {
                        mk.n[k as usize] = true;
                        stack.push(k);
                    }
                }
            }
        }
        if let Some(m) = h.map {
            if !mk.m[m] {
                mk.m[m] = true;
                for &e in &self.maps[m].entries {
                    mk.e[e] = true;
                }
            }
        }
    }

    /// Reachability from the host (roots), with the ephemeron fix-point.
    pub fn mark(&self) -> Marks {
        let mut mk = Marks { n: vec![false; self.nodes.len()], e: vec![false; self.ephs.len()], m: vec![false; self.maps.len()], rounds: 0 };
        let mut stack = vec![];
        self.mark_holder(&self.host, &mut mk, &mut stack);
        for &e in self.armed.values() {
            mk.e[e] = true;
        }
        for m in &self.maps {
            if m.alive {
                mk.e[m.wbox] = true;
            }
        }
        loop {
            while let Some(n) = stack.pop() {
                if let Some(node) = self.node(n) {
                    self.mark_holder(&node.h, &mut mk, &mut stack);
                }
            }
            let mut changed = false;
            if !self.broken.ignore_eph_values {
                for (i, e) in self.ephs.iter().enumerate() {
                    if mk.e[i] && e.alive && !e.cleared {
                        if let (MKey::Node(k), Some(v)) = (e.key, e.val) {
                            if mk.n[k as usize] && !mk.n[v as usize] {
                                mk.n[v as usize] = true;
                                stack.push(v);
                                changed = true;
                            }
                        }
                    }
                }
            }
            if !changed {
                break;
            }
            mk.rounds += 1;
        }
        mk
    }

    /// Does any handle on the heap (a strong edge of a live node, or the value of a live,
    /// uncleared ephemeron box, referenced or not) point to `n`?
    pub fn has_incoming_heap_handle(&self, n: u32) -> bool {
        self.nodes.iter().flatten().any(|x| x.alive && x.h.edges.contains(&n)) || self.ephs.iter().any(|e| e.alive && !e.cleared && e.val == Some(n))
    }

    /// Armed nodes that the next collect would resurrect although they are not isolated, i.e.
    /// they hold handles or handles on the heap point to them (the construct excluded because of
    /// finding C09-a).
    pub fn resurrect_offenders(&self) -> Vec<u32> {
        if self.armed.is_empty() {
            return vec![];
        }
        let mk = self.mark();
        self.armed
            .keys()
            .copied()
            .filter(|&n| self.alive(n) && !mk.n[n as usize] && (self.node(n).is_some_and(|x| x.h.has_handles()) || self.has_incoming_heap_handle(n)))
            .collect()
    }

    fn has_cycle(&self) -> bool {
        // iterative three-colour DFS over strong edges of live nodes
        let n = self.nodes.len();
        let mut colour = vec![0u8; n];
        for s in 0..n {
            if colour[s] != 0 || !self.alive(s as u32) {
                continue;
            }
            let mut stack: Vec<(usize, usize)> = vec![(s, 0)];
            colour[s] = 1;
            while let Some(&(u, i)) = stack.last() {
                let edges = &self.nodes[u].as_ref().expect("live").h.edges;
                if i < edges.len() {
                    let v = edges[i] as usize;
                    stack.last_mut().expect("top").1 += 1;
                    match colour[v] {
                        0 => {
                            colour[v] = 1;
                            stack.push((v, 0));
                        }
                        1 => return true,
                        _ => {}
                    }
                } else {
                    colour[u] = 2;
                    stack.pop();
                }
            }
        }
        false
    }

    fn strongly_reaches(&self, from: u32, to: u32) -> bool {
        let mut seen = vec![false; self.nodes.len()];
        let mut stack = vec![from];
        seen[from as usize] = true;
        while let Some(u) = stack.pop() {
            if u == to {
                return true;
            }
            if let Some(node) = self.node(u) {
                for &v in &node.h.edges {
                    if !seen[v as usize] {
                        seen[v as usize] = true;
                        stack.push(v);
                    }
                }
            }
        }
        false
    }

    pub fn collect(&mut self) {
        self.facts.collects += 1;
        self.since_collect = 0;
        self.last_collect_effect = false;
        if self.total_boxes() == 0 {
            // force_collect does nothing on an empty heap
            return;
        }
        self.collections += 1;
        let mk1 = self.mark();
        let dead: Vec<u32> = (0..self.nodes.len() as u32).filter(|&n| self.alive(n) && !mk1.n[n as usize]).collect();

        // facts for the non-trivial rule (state before the finalizers)
        let cycle = self.has_cycle();
        let mut eph_kv = false;
        let mut budget = 40;
        for (i, e) in self.ephs.iter().enumerate() {
            if budget == 0 {
                break;
            }
            if mk1.e[i] && e.alive && !e.cleared {
                if let (MKey::Node(k), Some(v)) = (e.key, e.val) {
                    if !mk1.n[k as usize] && self.alive(k) {
                        budget -= 1;
                        if self.strongly_reaches(v, k) {
                            eph_kv = true;
                            break;
                        }
                    }
                }
            }
        }
        let map_entry = self.maps.iter().enumerate().any(|(i, m)| m.alive && mk1.m[i] && !m.entries.is_empty());

        // resurrection of a node that is not isolated (finding C09-a)
        let rwh = dead.iter().any(|&u| self.armed.contains_key(&u) && (self.node(u).is_some_and(|x| x.h.has_handles()) || self.has_incoming_heap_handle(u)));
        // finalizers: counted once per collect for every unreachable node; armed ones resurrect
        let mut resurrected = vec![];
        let mut spent = vec![];
        for &u in &dead {
            self.nodes[u as usize].as_mut().expect("dead node").fin += 1;
            if let Some(dev) = self.armed.remove(&u) {
                spent.push(dev);
                if !self.ephs[dev].cleared {
                    self.host.edges.push(u);
                    resurrected.push(u);
                }
            }
        }
        // weak references / ephemerons whose key became finalizable are cleared (also when the
        // key is resurrected: the conventional "cleared before finalization" semantics)
        let mut cleared_any = false;
        let mut expired_entry = false;
        for i in 0..self.ephs.len() {
            if !self.ephs[i].alive || self.ephs[i].cleared {
                continue;
            }
            let key_dead = match self.ephs[i].key {
                MKey::Node(k) => !mk1.n[k as usize],
                MKey::Map(m) => !mk1.m[m],
            };
            if key_dead {
                self.ephs[i].cleared = true;
                if mk1.e[i] {
                    cleared_any = true;
                }
            }
        }
        // second mark: the spent resurrection devices are still held by the host during the collect
        let mut mk2 = self.mark();
        for &d in &spent {
            mk2.e[d] = true;
        }
        // sweep
        let mut freed_nodes = 0;
        for n in 0..self.nodes.len() {
            if self.alive(n as u32) && !mk2.n[n] {
                let node = self.nodes[n].as_mut().expect("node");
                node.alive = false;
                node.dropped += 1;
                node.h = MHolder::default();
                self.n_nodes -= 1;
                freed_nodes += 1;
            }
        }
        let mut zombie = false;
        for i in 0..self.ephs.len() {
            if self.ephs[i].alive && !mk2.e[i] {
                self.ephs[i].alive = false;
                self.n_eph[self.ephs[i].kind as usize] -= 1;
                self.last_collect_effect = true;
                if !mk1.e[i] {
                    zombie = true;
                }
            }
        }
        for i in 0..self.maps.len() {
            if !self.maps[i].alive {
                continue;
            }
            if !mk2.m[i] {
                self.maps[i].alive = false;
                self.maps[i].entries.clear();
                self.n_maps -= 1;
                self.last_collect_effect = true;
            } else {
                let ephs = &self.ephs;
                let before = self.maps[i].entries.len();
                self.maps[i].entries.retain(|&e| !ephs[e].cleared);
                if self.maps[i].entries.len() != before {
                    expired_entry = true;
                }
            }
        }
        // facts
        let survivors_heap_only = (0..self.nodes.len() as u32).any(|n| self.alive(n) && !self.rooted(n));
        let f = &mut self.facts;
        f.freed_nodes += freed_nodes;
        f.eph_fixpoint_rounds = f.eph_fixpoint_rounds.max(mk1.rounds);
        f.zombie_eph_freed |= zombie;
        f.weak_cleared |= cleared_any;
        f.weakmap_entry_expired |= expired_entry;
        f.resurrect_non_isolated |= rwh;
        if freed_nodes > 0 || !resurrected.is_empty() || cleared_any {
            self.last_collect_effect = true;
        }
        if freed_nodes >= 1 && survivors_heap_only {
            f.heap_only_survivor = true;
            let any = cycle || eph_kv || map_entry || !resurrected.is_empty();
            f.cycle |= cycle;
            f.eph_key_from_value |= eph_kv;
            f.weakmap_entry |= map_entry;
            f.resurrection |= !resurrected.is_empty();
            if any {
                f.nontrivial_collects += 1;
            }
        }
    }

    /// The host lets go of everything (end of a history).
    pub fn teardown(&mut self) {
        self.host = MHolder::default();
        self.armed.clear();
    }

    /// Canonical structural key (for memoised counting of the exhaustive enumeration).
    pub fn key(&self) -> Vec<u8> {
        let mut k: Vec<u8> = Vec::with_capacity(64);
        let mut emap: HashMap<usize, u8> = HashMap::new();
        fn eid(this: &Model, e: usize, emap: &mut HashMap<usize, u8>, k: &mut Vec<u8>) {
            let n = emap.len() as u8;
            let id = *emap.entry(e).or_insert(n);
            k.push(id);
            if id == n {
                let x = &this.ephs[e];
                match x.key {
                    MKey::Node(t) => k.push(t as u8),
                    MKey::Map(_) => k.push(0xfe),
                }
                k.push(x.val.map_or(0xff, |v| v as u8));
                k.push(u8::from(x.cleared));
            }
        }
        let dump = |this: &Model, h: &MHolder, emap: &mut HashMap<usize, u8>, k: &mut Vec<u8>| {
            k.push(h.edges.len() as u8);
            k.extend(h.edges.iter().map(|&x| x as u8));
            k.push(h.weaks.len() as u8);
            for &e in &h.weaks {
                eid(this, e, emap, k);
            }
            k.push(h.ephs.len() as u8);
            for &e in &h.ephs {
                eid(this, e, emap, k);
            }
            match h.map {
                None => k.push(0),
                Some(m) => {
                    k.push(1 + this.maps[m].entries.len() as u8);
                    for &e in &this.maps[m].entries {
                        eid(this, e, emap, k);
                    }
                }
            }
        };
        dump(self, &self.host, &mut emap, &mut k);
        k.push(self.nodes.len() as u8);
        for n in &self.nodes {
            match n {
                None => k.push(0),
                Some(n) if !n.alive => k.push(1),
                Some(n) => {
                    k.push(2);
                    dump(self, &n.h, &mut emap, &mut k);
                }
            }
        }
        k.push(self.armed.len() as u8);
        for (&n, &e) in &self.armed {
            k.push(n as u8);
            eid(self, e, &mut emap, &mut k);
        }
        // unreferenced but still allocated ephemeron boxes (freed by the next collect)
        let mut z = [0u8; 3];
        for (i, e) in self.ephs.iter().enumerate() {
            if e.alive && !emap.contains_key(&i) {
                let held_by_wbox = matches!(e.key, MKey::Map(m) if self.maps[m].alive);
                if !held_by_wbox {
                    z[e.kind as usize] += 1;
                }
            }
        }
        k.extend(z);
        k.push(self.since_collect.min(1) as u8);
        k.push(u8::from(self.last_collect_effect));
        k
    }
}
