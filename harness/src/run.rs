//! The trace runner: `run(source, cfg) -> Trace`.
//!
//! A trace is the list of `print(...)` lines plus the final completion. Engine
//! configuration switches (hooks) are set per run and reset by a drop guard.

use boa_engine::{
    Context, JsError, JsNativeErrorKind, JsResult, JsValue, NativeFunction, Script, Source,
    builtins::error::{Error as ErrorObj, ErrorKind},
    error::EngineError,
    js_string,
    optimizer::OptimizerOptions,
    vm::RuntimeLimits,
};
use std::cell::RefCell;
use std::future::Future;
use std::pin::Pin;
use std::task::{Context as TaskCx, Poll, RawWaker, RawWakerVTable, Waker};

#[derive(Clone, Debug, PartialEq, Eq)]
pub enum Entry {
    /// `Context::eval(Source::from_bytes)`
    Eval,
    /// `Script::parse` from a `Read`er + `evaluate`
    ScriptReader,
    /// UTF-16 source
    Utf16,
    /// `evaluate_async_with_budget(b)` polled to completion
    AsyncBudget(u32),
}

#[derive(Clone, Debug)]
pub struct RunCfg {
    /// None = leave the context default (OPTIMIZE_ALL); Some(bits) = set explicitly
    pub optimizer: Option<u8>,
    pub force_escape: bool,
    pub no_const_cache: bool,
    pub no_hoist: bool,
    pub no_fusion: bool,
    pub ic_off: bool,
    /// collect every n-th allocation once the script starts (0 = off)
    pub gc_stress: u64,
    pub entry: Entry,
    pub run_jobs: bool,
    pub loop_limit: u64,
    pub recursion_limit: usize,
    pub stack_limit: usize,
    pub strict: bool,
}

impl Default for RunCfg {
    fn default() -> Self {
        Self {
            optimizer: None,
            force_escape: false,
            no_const_cache: false,
            no_hoist: false,
            no_fusion: false,
            ic_off: false,
            gc_stress: 0,
            entry: Entry::Eval,
            run_jobs: true,
            loop_limit: 2_000_000,
            recursion_limit: 512,
            stack_limit: 1024 * 64,
            strict: false,
        }
    }
}

#[derive(Clone, Debug, PartialEq, Eq)]
pub enum Completion {
    Value(String),
    Throw(String),
    EarlySyntaxError,
    Limit(String),
    Panic(String),
    EnginePanic(String),
}

impl Completion {
    pub fn render(&self) -> String {
        match self {
            Completion::Value(v) => format!("value:{v}"),
            Completion::Throw(c) => format!("throw:{c}"),
            Completion::EarlySyntaxError => "early-syntax-error".into(),
            Completion::Limit(k) => format!("limit:{k}"),
            Completion::Panic(s) => format!("PANIC:{s}"),
            Completion::EnginePanic(s) => format!("ENGINEPANIC:{s}"),
        }
    }
    pub fn is_internal_failure(&self) -> bool {
        matches!(self, Completion::Panic(_) | Completion::EnginePanic(_))
    }
    pub fn is_limit(&self) -> bool {
        matches!(self, Completion::Limit(_))
    }
}

#[derive(Clone, Debug, PartialEq, Eq)]
pub struct Trace {
    pub prints: Vec<String>,
    pub completion: Completion,
}

impl Trace {
    pub fn render(&self) -> String {
        let mut s = String::new();
        for p in &self.prints {
            s.push_str(p);
            s.push('\n');
        }
        s.push_str("=> ");
        s.push_str(&self.completion.render());
        s
    }
}

thread_local! {
    pub static PRINTS: RefCell<Vec<String>> = const { RefCell::new(Vec::new()) };
    static LAST_PANIC: RefCell<Option<String>> = const { RefCell::new(None) };
}

/// Install (once per process) a panic hook that records `(file:line, message)` of the panic
/// in a thread local instead of printing it.
pub fn install_panic_hook() {
    use std::sync::Once;
    static ONCE: Once = Once::new();
    ONCE.call_once(|| {
        std::panic::set_hook(Box::new(|info| {
            let loc = info
                .location()
                .map(|l| format!("{}:{}", l.file(), l.line()))
                .unwrap_or_default();
            let msg = if let Some(s) = info.payload().downcast_ref::<&str>() {
                (*s).to_string()
            } else if let Some(s) = info.payload().downcast_ref::<String>() {
                s.clone()
            } else {
                "<non-string panic>".to_string()
            };
            LAST_PANIC.with(|p| *p.borrow_mut() = Some(format!("{loc}: {msg}")));
            if std::env::var_os("BV_PANIC_VERBOSE").is_some() {
                eprintln!("panic at {loc}: {msg}\n{}", std::backtrace::Backtrace::force_capture());
            }
        }));
    });
}

pub fn take_last_panic() -> Option<String> {
    LAST_PANIC.with(|p| p.borrow_mut().take())
}

/// Normalise a panic description into a signature: strip the path prefix up to `core/` or
/// `src/`, replace digit runs in the message by `#`.
pub fn panic_signature(desc: &str) -> String {
    let (loc, msg) = desc.split_once(": ").unwrap_or((desc, ""));
    let loc = loc.rsplit_once("/repo/").map_or(loc, |(_, r)| r);
    let file = loc.rsplit_once(':').map_or(loc, |(f, _)| f);
    let mut out = String::new();
    let mut in_digits = false;
    for c in msg.chars().take(160) {
        if c.is_ascii_digit() {
            if !in_digits {
                out.push('#');
            }
            in_digits = true;
        } else {
            in_digits = false;
            out.push(c);
        }
    }
    format!("{file}: {out}")
}

struct SwitchGuard;
impl SwitchGuard {
    fn set(cfg: &RunCfg) -> Self {
        boa_ast::verif::set_force_escape(cfg.force_escape);
        boa_engine::verif::set_no_const_cache(cfg.no_const_cache);
        boa_engine::verif::set_no_hoist(cfg.no_hoist);
        boa_engine::verif::set_no_fusion(cfg.no_fusion);
        boa_engine::verif::set_ic_off(cfg.ic_off);
        SwitchGuard
    }
}
impl Drop for SwitchGuard {
    fn drop(&mut self) {
        boa_ast::verif::set_force_escape(false);
        boa_engine::verif::set_no_const_cache(false);
        boa_engine::verif::set_no_hoist(false);
        boa_engine::verif::set_no_fusion(false);
        boa_engine::verif::set_ic_off(false);
        boa_gc::verif::set_stress(0);
    }
}

/// Canonical representation of a value (no user code is run).
pub fn repr(v: &JsValue) -> String {
    if v.is_undefined() {
        "undefined".into()
    } else if v.is_null() {
        "null".into()
    } else if let Some(b) = v.as_boolean() {
        format!("{b}")
    } else if let Some(n) = v.as_number() {
        format!("number:{}", num_repr(n))
    } else if let Some(s) = v.as_string() {
        format!("string:{}", str_repr(&s.to_vec()))
    } else if let Some(b) = v.as_bigint() {
        format!("bigint:{}", b.to_string_radix(10))
    } else if v.is_symbol() {
        "symbol".into()
    } else if let Some(o) = v.as_object() {
        if o.is_callable() {
            "object:function".into()
        } else if o.is_array() {
            "object:array".into()
        } else {
            "object".into()
        }
    } else {
        "unknown".into()
    }
}

pub fn num_repr(n: f64) -> String {
    if n.is_nan() {
        "NaN".into()
    } else if n == 0.0 && n.is_sign_negative() {
        "-0".into()
    } else if n.is_infinite() {
        if n > 0.0 { "Infinity".into() } else { "-Infinity".into() }
    } else {
        // exact: the bit pattern decides equality
        format!("{:016x}", n.to_bits())
    }
}

pub fn str_repr(units: &[u16]) -> String {
    let mut s = String::new();
    for &u in units {
        if (0x20..0x7f).contains(&u) && u != b'\\' as u16 {
            s.push(u as u8 as char);
        } else {
            s.push_str(&format!("\\u{u:04x}"));
        }
    }
    s
}

fn error_kind_name(k: &JsNativeErrorKind) -> &'static str {
    match k {
        JsNativeErrorKind::Aggregate(_) => "AggregateError",
        JsNativeErrorKind::Error => "Error",
        JsNativeErrorKind::Eval => "EvalError",
        JsNativeErrorKind::Range => "RangeError",
        JsNativeErrorKind::Reference => "ReferenceError",
        JsNativeErrorKind::Syntax => "SyntaxError",
        JsNativeErrorKind::Type => "TypeError",
        JsNativeErrorKind::Uri => "URIError",
        _ => "OtherNativeError",
    }
}

/// Class of a thrown value: native error kind, or `opaque:<repr>`.
pub fn throw_class(e: &JsError) -> Completion {
    if let Some(eng) = e.as_engine() {
        return match eng {
            EngineError::RuntimeLimit(l) => {
                let s = l.to_string();
                let kind = if s.contains("loop") {
                    "loop"
                } else if s.contains("recursion") || s.contains("recursive") {
                    "recursion"
                } else if s.contains("stack") {
                    "stack"
                } else {
                    "other"
                };
                Completion::Limit(format!("{kind}"))
            }
            EngineError::Panic(p) => Completion::EnginePanic(p.to_string()),
            #[allow(unreachable_patterns)]
            other => Completion::Limit(format!("fuzz:{other}")),
        };
    }
    if let Some(n) = e.as_native() {
        return Completion::Throw(error_kind_name(n.kind()).to_string());
    }
    if let Some(v) = e.as_opaque() {
        if let Some(o) = v.as_object() {
            if let Some(err) = o.downcast_ref::<ErrorObj>() {
                for (k, name) in [
                    (ErrorKind::Type, "TypeError"),
                    (ErrorKind::Range, "RangeError"),
                    (ErrorKind::Reference, "ReferenceError"),
                    (ErrorKind::Syntax, "SyntaxError"),
                    (ErrorKind::Error, "Error"),
                    (ErrorKind::Eval, "EvalError"),
                    (ErrorKind::Uri, "URIError"),
                    (ErrorKind::Aggregate, "AggregateError"),
                ] {
                    if *err == ErrorObj::new(k) {
                        return Completion::Throw(name.to_string());
                    }
                }
            }
        }
        return Completion::Throw(format!("opaque:{}", repr(v)));
    }
    Completion::Throw("unknown".into())
}

pub fn completion_of(r: &JsResult<JsValue>) -> Completion {
    match r {
        Ok(v) => Completion::Value(repr(v)),
        Err(e) => throw_class(e),
    }
}

fn print_native(_this: &JsValue, args: &[JsValue], ctx: &mut Context) -> JsResult<JsValue> {
    let mut parts = Vec::with_capacity(args.len());
    for a in args {
        if a.is_symbol() {
            parts.push("Symbol()".to_string());
        } else {
            let s = a.to_string(ctx)?;
            parts.push(str_repr(&s.to_vec()));
        }
    }
    PRINTS.with(|p| p.borrow_mut().push(parts.join(" ")));
    Ok(JsValue::undefined())
}

/// Build a context with the harness `print` native and the given limits/optimizer options.
pub fn make_context(cfg: &RunCfg) -> Context {
    let mut ctx = Context::default();
    install_print(&mut ctx);
    apply_cfg(&mut ctx, cfg);
    ctx
}

pub fn install_print(ctx: &mut Context) {
    ctx.register_global_builtin_callable(
        js_string!("print"),
        0,
        NativeFunction::from_fn_ptr(print_native),
    )
    .expect("register print");
}

pub fn apply_cfg(ctx: &mut Context, cfg: &RunCfg) {
    let mut limits = RuntimeLimits::default();
    limits.set_loop_iteration_limit(cfg.loop_limit);
    limits.set_recursion_limit(cfg.recursion_limit);
    limits.set_stack_size_limit(cfg.stack_limit);
    ctx.set_runtime_limits(limits);
    if let Some(bits) = cfg.optimizer {
        ctx.set_optimizer_options(OptimizerOptions::from_bits_truncate(bits));
    }
    ctx.strict(cfg.strict);
}

fn noop_waker() -> Waker {
    fn clone(_: *const ()) -> RawWaker {
        RawWaker::new(std::ptr::null(), &VTABLE)
    }
    fn noop(_: *const ()) {}
    static VTABLE: RawWakerVTable = RawWakerVTable::new(clone, noop, noop, noop);
    unsafe { Waker::from_raw(RawWaker::new(std::ptr::null(), &VTABLE)) }
}

/// Poll a future to completion on this thread; returns the number of polls.
pub fn block_on<F: Future>(fut: F, max_polls: u64) -> Option<(F::Output, u64)> {
    let waker = noop_waker();
    let mut cx = TaskCx::from_waker(&waker);
    let mut fut: Pin<Box<F>> = Box::pin(fut);
    let mut polls = 0u64;
    loop {
        polls += 1;
        match fut.as_mut().poll(&mut cx) {
            Poll::Ready(v) => return Some((v, polls)),
            Poll::Pending => {
                if polls >= max_polls {
                    return None;
                }
            }
        }
    }
}

/// Evaluate `src` in `ctx` through the chosen entry (no switches touched).
pub fn eval_in(ctx: &mut Context, src: &str, cfg: &RunCfg) -> JsResult<JsValue> {
    match cfg.entry {
        Entry::Eval => ctx.eval(Source::from_bytes(src.as_bytes())),
        Entry::ScriptReader => {
            let reader = std::io::Cursor::new(src.as_bytes().to_vec());
            let script = Script::parse(Source::from_reader(reader, None), None, ctx)?;
            script.evaluate(ctx)
        }
        Entry::Utf16 => {
            let units: Vec<u16> = src.encode_utf16().collect();
            ctx.eval(Source::from_utf16(&units))
        }
        Entry::AsyncBudget(b) => {
            let script = Script::parse(Source::from_bytes(src.as_bytes()), None, ctx)?;
            let fut = script.evaluate_async_with_budget(ctx, b);
            match block_on(fut, 50_000_000) {
                Some((r, _)) => r,
                None => Err(boa_engine::JsNativeError::error()
                    .with_message("harness: too many polls")
                    .into()),
            }
        }
    }
}

/// Completion of an evaluation result; a native SyntaxError from a text the parser rejects is
/// an early error.
pub fn classify(r: &JsResult<JsValue>, src: &str) -> Completion {
    let completion = completion_of(r);
    if let Completion::Throw(c) = &completion {
        if c == "SyntaxError" && r.as_ref().err().is_some_and(|e| e.as_native().is_some()) && is_early_syntax_error(src) {
            return Completion::EarlySyntaxError;
        }
    }
    completion
}

fn is_early_syntax_error(src: &str) -> bool {
    // parse only (no compile, no run): early error iff the parser rejects the script.
    let mut interner = boa_interner::Interner::default();
    let scope = boa_ast::scope::Scope::new_global();
    let mut parser = boa_parser::Parser::new(boa_parser::Source::from_bytes(src.as_bytes()));
    parser.parse_script(&scope, &mut interner).is_err()
}

/// Run a program on a fresh context under `cfg` and return its trace. Panics are caught and
/// reported as `Completion::Panic(signature)`.
pub fn run(src: &str, cfg: &RunCfg) -> Trace {
    run_with(src, cfg, |_| {})
}

pub fn run_with(src: &str, cfg: &RunCfg, setup: impl FnOnce(&mut Context)) -> Trace {
    install_panic_hook();
    PRINTS.with(|p| p.borrow_mut().clear());
    let _guard = SwitchGuard::set(cfg);
    let result = std::panic::catch_unwind(std::panic::AssertUnwindSafe(|| {
        let mut ctx = make_context(cfg);
        setup(&mut ctx);
        if cfg.gc_stress > 0 {
            boa_gc::verif::set_stress(cfg.gc_stress);
        }
        let r = eval_in(&mut ctx, src, cfg);
        let mut completion = classify(&r, src);
        // convention shared with the V8 oracle: jobs are drained after a normal completion only
        if cfg.run_jobs && !matches!(completion, Completion::EarlySyntaxError | Completion::Throw(_)) {
            if let Err(e) = ctx.run_jobs() {
                let c = throw_class(&e);
                if c.is_internal_failure() || c.is_limit() {
                    completion = c;
                }
            }
        }
        boa_gc::verif::set_stress(0);
        drop(r);
        drop(ctx);
        completion
    }));
    let completion = match result {
        Ok(c) => c,
        Err(_) => {
            let desc = take_last_panic().unwrap_or_else(|| "unknown panic".into());
            Completion::Panic(panic_signature(&desc))
        }
    };
    let prints = PRINTS.with(|p| std::mem::take(&mut *p.borrow_mut()));
    Trace { prints, completion }
}

/// Run and also collect the structured dump of every code block compiled during the run.
pub fn run_with_dump(src: &str, cfg: &RunCfg) -> (Trace, Vec<boa_engine::verif::BlockDump>) {
    use std::rc::Rc;
    let store: Rc<RefCell<Vec<boa_engine::verif::BlockDump>>> = Rc::new(RefCell::new(Vec::new()));
    let s2 = store.clone();
    boa_engine::verif::set_codeblock_sink(Some(Box::new(move |d| s2.borrow_mut().push(d))));
    let t = run(src, cfg);
    boa_engine::verif::set_codeblock_sink(None);
    let dumps = std::mem::take(&mut *store.borrow_mut());
    (t, dumps)
}

/// Compare two boa traces; returns (signature, detail) when they differ.
pub fn diff_traces(a_name: &str, a: &Trace, b_name: &str, b: &Trace) -> Option<(String, String)> {
    if a == b {
        return None;
    }
    let strip = |s: &str| s.split(':').take(2).collect::<Vec<_>>().join(":");
    let sig = if a.prints != b.prints {
        let k = a.prints.iter().zip(b.prints.iter()).position(|(x, y)| x != y).unwrap_or(a.prints.len().min(b.prints.len()));
        let _ = k;
        let pa = matches!(a.completion, Completion::Panic(_)) || matches!(b.completion, Completion::Panic(_));
        if pa { format!("prints-differ panic {} / {}", a.completion.render(), b.completion.render()) } else { "prints-differ".to_string() }
    } else {
        format!("completion {}={} {}={}", a_name, strip(&a.completion.render()), b_name, strip(&b.completion.render()))
    };
    let detail = format!("--- {a_name}\n{}\n--- {b_name}\n{}", a.render(), b.render());
    Some((sig, detail))
}
