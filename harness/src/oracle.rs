//! Persistent oracle servers (node = V8, python3 = exact arithmetic / byte model / JSON).
//! One JSON object per line in each direction.

use serde_json::{Value, json};
use std::io::{BufRead, BufReader, Write};
use std::process::{Child, ChildStdin, ChildStdout, Command, Stdio};

pub struct Server {
    child: Child,
    stdin: ChildStdin,
    stdout: BufReader<ChildStdout>,
    next_id: u64,
    cmd: Vec<String>,
    pub restarts: u64,
}

pub fn verif_root() -> String {
    std::env::var("BV_ROOT").unwrap_or_else(|_| "/verif".to_string())
}

impl Server {
    pub fn spawn(cmd: &[String]) -> std::io::Result<Self> {
        let mut child = Command::new(&cmd[0])
            .args(&cmd[1..])
            .stdin(Stdio::piped())
            .stdout(Stdio::piped())
            .stderr(Stdio::null())
            .spawn()?;
        let stdin = child.stdin.take().unwrap();
        let stdout = BufReader::new(child.stdout.take().unwrap());
        Ok(Self { child, stdin, stdout, next_id: 1, cmd: cmd.to_vec(), restarts: 0 })
    }
    pub fn node() -> std::io::Result<Self> {
        Self::spawn(&[
            std::env::var("BV_NODE").unwrap_or_else(|_| if std::path::Path::new("/usr/bin/node").exists() { "/usr/bin/node".into() } else { "node".into() }),
            "--experimental-vm-modules".into(),
            "--no-warnings".into(),
            "--stack-size=4000".into(),
            format!("{}/oracle/node_oracle.js", verif_root()),
        ])
    }
    pub fn python() -> std::io::Result<Self> {
        Self::python_script("py_oracle.py")
    }
    /// A python3 JSON-lines server script under /verif/oracle/.
    pub fn python_script(name: &str) -> std::io::Result<Self> {
        // not the pyenv shim (`python3` on PATH is a bash wrapper that is very slow under load)
        let py = std::env::var("BV_PYTHON").unwrap_or_else(|_| if std::path::Path::new("/usr/bin/python3").exists() { "/usr/bin/python3".into() } else { "python3".into() });
        Self::spawn(&[py, "-u".into(), format!("{}/oracle/{name}", verif_root())])
    }
    fn restart(&mut self) -> std::io::Result<()> {
        let _ = self.child.kill();
        let _ = self.child.wait();
        let cmd = self.cmd.clone();
        let restarts = self.restarts + 1;
        *self = Self::spawn(&cmd)?;
        self.restarts = restarts;
        Ok(())
    }
    /// Send a request (an object; `id` is filled in) and wait for the response.
    pub fn call(&mut self, mut req: Value) -> Result<Value, String> {
        for attempt in 0..2 {
            let id = self.next_id;
            self.next_id += 1;
            req["id"] = json!(id);
            let line = serde_json::to_string(&req).map_err(|e| e.to_string())?;
            let ok = self.stdin.write_all(line.as_bytes()).is_ok()
                && self.stdin.write_all(b"\n").is_ok()
                && self.stdin.flush().is_ok();
            if ok {
                let mut buf = String::new();
                match self.stdout.read_line(&mut buf) {
                    Ok(n) if n > 0 => {
                        let v: Value = serde_json::from_str(&buf).map_err(|e| format!("oracle bad json: {e}: {buf}"))?;
                        if let Some(err) = v.get("error") {
                            return Err(format!("oracle error: {err}"));
                        }
                        return Ok(v);
                    }
                    _ => {}
                }
            }
            if attempt == 0 {
                self.restart().map_err(|e| e.to_string())?;
            }
        }
        Err("oracle died twice on the same request".into())
    }
}

impl Drop for Server {
    fn drop(&mut self) {
        let _ = self.child.kill();
        let _ = self.child.wait();
    }
}

/// Run a script in V8; returns (prints, completion-render).
pub fn node_script(server: &mut Server, src: &str) -> Result<(Vec<String>, String), String> {
    let v = server.call(json!({"kind":"script","src":src,"timeout":5000}))?;
    let prints = v["prints"]
        .as_array()
        .map(|a| a.iter().map(|x| x.as_str().unwrap_or("").to_string()).collect())
        .unwrap_or_default();
    Ok((prints, v["completion"].as_str().unwrap_or("").to_string()))
}
