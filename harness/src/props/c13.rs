//! C13 — number <-> text conversions are exact.
//!
//! Every case is a short list of *op lines* (the rendered input), e.g.
//!
//! ```text
//! D 4004000000000000 str            String(x) & friends, Number(String(x)) round trip
//! D 4004000000000000 radix 7        x.toString(7)
//! D 4004000000000000 fixed 0        x.toFixed(0)
//! D 4004000000000000 exp 0          x.toExponential(0)
//! D 4004000000000000 prec 1         x.toPrecision(1)
//! T number - "  0x1F "              Number(s)            (also: plus, parsefloat, parseint <radix|u>, numbig)
//! L 1_000.5e-3                      numeric literal in source text (eval and embedded in a script)
//! ```
//!
//! Doubles reach the script as exact bit patterns (`BigUint64Array`/`Float64Array` pair), results that
//! are numbers leave it as bit patterns. The expectations come from `/verif/oracle/py_c13.py`
//! (fractions.Fraction / big integers / repr(float)), which is also where the tape is turned into
//! op lines (`gen` request) — the generator needs exact arithmetic to build decimal ties and
//! halfway strings. The comparison for exact ops is string equality on the oracle's expectation;
//! the oracle's `judge` additionally accepts what ECMA-262 explicitly permits (see py_c13.py).

use crate::driver::{CaseOut, Env, Prop, Stream, Tier};
use crate::run::{Completion, RunCfg, run};
use crate::oracle::{Server, verif_root};
use serde_json::json;
use std::cell::RefCell;
use std::collections::HashMap;
use std::sync::Mutex;

pub struct C13;

const ORACLE: &str = "py_c13.py";

/// Named exclusion switches. Each names an input class with an OPEN finding in /verif/known.d/C13.json;
/// while the switch is on, the generator drops ops of exactly that class (counted by the label
/// `excluded-<name>`). Everything else stays checked. `BV_C13_NO_EXCLUDE=1` turns all of them off.
pub const EXCLUSIONS: &[(&str, bool)] = &[
    // toExponential(d) where x is an exact decimal tie at d digits (rounds half-even instead of half-up)
    ("toexponential-tie", true),
    // toPrecision(p) whose last requested digit lies beyond the 100th decimal place (format!("{:.100}") cut)
    ("toprecision-deep", true),
    // toFixed(d), 0 < |x| < 2^-43 and d >= 9 * (leading all-zero 9-digit blocks known to ryu-js): garbage leading digits
    ("tofixed-small", true),
    // parseInt, radix in {2,4,8,10,16,32}, value > 2^53 reached through the f64 accumulation path
    ("parseint-big-exact-radix", false),
    // Number("0x..."/"0o..."/"0b...") with a value >= 2^53 (f64 accumulation)
    ("number-nondecimal-big", true),
    // Number("-inf"), Number("+INFINITY") ...: fast_float2 spellings of infinity
    ("number-signed-inf-word", false),
    // Number("0x+1"): sign accepted after a radix prefix
    ("number-nondecimal-plus", false),
    // toString(radix), radix not a power of two, |x| < 1/radix or |x| > 2^53: error accumulates beyond 1 ulp
    ("tostring-radix-drift", true),
    // 0b1e5, 0o7e1, 017e1 in source text: exponent part accepted after a non-decimal literal
    ("literal-nondecimal-exponent", false),
];

fn exclusions() -> Vec<&'static str> {
    if std::env::var_os("BV_C13_NO_EXCLUDE").is_some() {
        return vec![];
    }
    EXCLUSIONS.iter().filter(|(_, on)| *on).map(|(n, _)| *n).collect()
}

const PRELUDE: &str = "var B = new BigUint64Array(1), F = new Float64Array(B.buffer);\n\
function fb(h) { B[0] = BigInt('0x' + h); return F[0]; }\n\
function tb(v) { if (typeof v !== 'number') return 'type:' + typeof v; if (v !== v) return 'NaN'; F[0] = v; var s = B[0].toString(16); while (s.length < 16) s = '0' + s; return s; }\n";

thread_local! {
    static SERVER: RefCell<Option<Server>> = const { RefCell::new(None) };
}

/// One request to the C13 oracle server. The server is started with the system interpreter directly
/// (`$BV_PYTHON`, else /usr/bin/python3, else `python3`): the `python3` on PATH may be a pyenv shim whose
/// start-up alone can exceed the per-case watchdog on a loaded machine.
fn oracle_call(req: serde_json::Value) -> Result<serde_json::Value, String> {
    SERVER.with(|cell| {
        let mut g = cell.borrow_mut();
        if g.is_none() {
            let py = std::env::var("BV_PYTHON").ok().filter(|p| !p.is_empty()).unwrap_or_else(|| {
                if std::path::Path::new("/usr/bin/python3").exists() { "/usr/bin/python3".into() } else { "python3".into() }
            });
            let cmd = vec![py, "-u".to_string(), format!("{}/oracle/{ORACLE}", verif_root())];
            *g = Some(Server::spawn(&cmd).map_err(|e| format!("cannot start {cmd:?}: {e}"))?);
        }
        g.as_mut().unwrap().call(req)
    })
}

fn intern(s: &str) -> &'static str {
    static TABLE: Mutex<Option<HashMap<String, &'static str>>> = Mutex::new(None);
    let mut g = TABLE.lock().unwrap();
    let m = g.get_or_insert_with(HashMap::new);
    if let Some(v) = m.get(s) {
        return v;
    }
    let leaked: &'static str = Box::leak(s.to_string().into_boxed_str());
    m.insert(s.to_string(), leaked);
    leaked
}

fn is_hex16(s: &str) -> bool {
    s.len() == 16 && s.bytes().all(|b| b.is_ascii_digit() || (b'a'..=b'f').contains(&b))
}

fn is_int(s: &str) -> bool {
    let t = s.strip_prefix('-').unwrap_or(s);
    !t.is_empty() && t.len() <= 12 && t.bytes().all(|b| b.is_ascii_digit())
}

/// The JS statement that performs one op and prints exactly one line. `None` = malformed op line.
fn op_js(line: &str) -> Option<String> {
    let body = if let Some(rest) = line.strip_prefix("D ") {
        let p: Vec<&str> = rest.split(' ').collect();
        if p.len() < 2 || !is_hex16(p[0]) {
            return None;
        }
        let x = format!("fb(\"{}\")", p[0]);
        let arg = p.get(2).copied();
        let call = |name: &str| -> Option<String> {
            let a = arg?;
            if a == "u" {
                Some(format!("print({x}.{name}());"))
            } else if is_int(a) {
                Some(format!("print({x}.{name}({a}));"))
            } else {
                None
            }
        };
        match p[1] {
            "str" => format!(
                "var x = {x}; print([String(x), x.toString(), `${{x}}`, '' + x, x.toString(10), JSON.stringify(x), tb(Number(String(x))), tb(+String(x)), tb(parseFloat(String(x)))].join('|'));"
            ),
            "radix" => {
                let a = arg?;
                if !is_int(a) {
                    return None;
                }
                format!("print({x}.toString({a}));")
            }
            "fixed" => call("toFixed")?,
            "exp" => call("toExponential")?,
            "prec" => call("toPrecision")?,
            _ => return None,
        }
    } else if let Some(rest) = line.strip_prefix("T ") {
        let mut it = rest.splitn(3, ' ');
        let kind = it.next()?;
        let arg = it.next()?;
        let js = it.next()?;
        // the text is a JSON string token with every non-ASCII unit escaped: also a JS string literal
        if !json_string_token_ok(js) {
            return None;
        }
        let e = match kind {
            "number" => "Number(s)".to_string(),
            "plus" => "+s".to_string(),
            "parsefloat" => "parseFloat(s)".to_string(),
            "numbig" => "Number(BigInt(s))".to_string(),
            "parseint" => {
                if arg == "u" || arg == "-" {
                    "parseInt(s)".to_string()
                } else if is_int(arg) {
                    format!("parseInt(s, {arg})")
                } else {
                    return None;
                }
            }
            _ => return None,
        };
        format!("var s = {js}; print(tb({e}));")
    } else if let Some(text) = line.strip_prefix("L ") {
        if !literal_text_ok(text) {
            return None;
        }
        format!("print(tb(eval(\"({text})\")));")
    } else {
        return None;
    };
    Some(format!("try {{ {body} }} catch (e) {{ print('throw:' + e.name); }}\n"))
}

fn literal_text_ok(text: &str) -> bool {
    !text.is_empty() && text.bytes().all(|b| b.is_ascii_alphanumeric() || matches!(b, b'_' | b'.' | b'+' | b'-'))
}

/// a double-quoted token of printable ASCII in which `\` only starts JSON escapes and `"` never occurs unescaped
fn json_string_token_ok(js: &str) -> bool {
    let b = js.as_bytes();
    if b.len() < 2 || b[0] != b'"' || b[b.len() - 1] != b'"' {
        return false;
    }
    let mut i = 1;
    while i < b.len() - 1 {
        match b[i] {
            b'\\' => {
                let Some(&n) = b.get(i + 1) else { return false };
                if i + 1 >= b.len() - 1 {
                    return false;
                }
                match n {
                    b'"' | b'\\' | b'/' | b'b' | b'f' | b'n' | b'r' | b't' => i += 2,
                    b'u' => {
                        if i + 6 > b.len() - 1 || !b[i + 2..i + 6].iter().all(u8::is_ascii_hexdigit) {
                            return false;
                        }
                        i += 6;
                    }
                    _ => return false,
                }
            }
            b'"' => return false,
            0x20..=0x7e => i += 1,
            _ => return false,
        }
    }
    i == b.len() - 1
}

/// Run the ops in boa; one printed line per op.
fn run_ops(ops: &[String]) -> Result<Vec<String>, (String, String)> {
    let mut src = String::from(PRELUDE);
    for l in ops {
        match op_js(l) {
            Some(js) => src.push_str(&js),
            None => return Err(("malformed-op-line".into(), l.clone())),
        }
    }
    let t = run(&src, &RunCfg::default());
    if !matches!(t.completion, Completion::Value(_)) || t.prints.len() != ops.len() {
        let c = t.completion.render();
        let short: String = c.chars().take(80).collect();
        // which op was running: the first one without a print
        let at = ops.get(t.prints.len()).cloned().unwrap_or_default();
        return Err((format!("script abnormal: {short}"), format!("completion {c} after {} of {} ops; next op: {at}\n{src}", t.prints.len(), ops.len())));
    }
    let mut out = t.prints;
    // literals are also checked embedded in a script of their own (the lexer on real source text, not through eval)
    for (i, l) in ops.iter().enumerate() {
        if let Some(text) = l.strip_prefix("L ") {
            let s2 = format!("{PRELUDE}print(tb(({text})));\n");
            let t2 = run(&s2, &RunCfg::default());
            let direct = match (&t2.completion, t2.prints.first()) {
                (Completion::Value(_), Some(p)) if t2.prints.len() == 1 => p.clone(),
                (Completion::EarlySyntaxError, _) => "throw:SyntaxError".to_string(),
                (c, _) => format!("abnormal:{}", c.render().chars().take(60).collect::<String>()),
            };
            out[i] = format!("{}|{direct}", out[i]);
        }
    }
    Ok(out)
}

impl C13 {
    fn check_ops(&self, env: &mut Env, ops: Vec<String>, mut labels: Vec<&'static str>) -> CaseOut {
        let rendered = ops.join("\n") + "\n";
        if ops.is_empty() {
            return CaseOut::skip(String::new(), "no-ops").with_labels(labels);
        }
        let t0 = std::time::Instant::now();
        let actual = match run_ops(&ops) {
            Ok(a) => a,
            Err((sig, detail)) => return CaseOut::fail(rendered, sig, detail).with_labels(labels),
        };
        let t_run = t0.elapsed();
        let resp = oracle_call(json!({"op": "judge", "ops": ops, "actual": actual}));
        if t0.elapsed().as_secs() >= 5 {
            eprintln!("C13 slow case: boa {:.1}s, oracle judge {:.1}s\n{rendered}", t_run.as_secs_f64(), (t0.elapsed() - t_run).as_secs_f64());
        }
        let resp = match resp {
            Ok(v) => v,
            Err(e) => {
                if env.replay {
                    eprintln!("C13 oracle: {e}");
                }
                return CaseOut::skip(rendered, "oracle-error").with_labels(labels);
            }
        };
        let Some(res) = resp["res"].as_array() else { return CaseOut::skip(rendered, "oracle-error").with_labels(labels) };
        if res.len() != ops.len() {
            return CaseOut::skip(rendered, "oracle-error").with_labels(labels);
        }
        let mut nontrivial = false;
        let mut failure: Option<(String, String)> = None;
        for (i, r) in res.iter().enumerate() {
            let f = r["fn"].as_str().unwrap_or("?");
            labels.push(intern(&format!("op-{f}")));
            for l in r["labels"].as_array().into_iter().flatten() {
                if let Some(l) = l.as_str() {
                    labels.push(intern(l));
                }
            }
            nontrivial |= r["nt"].as_bool().unwrap_or(false);
            if r["ok"].as_bool() != Some(true) && failure.is_none() {
                let cls = r["cls"].as_str().unwrap_or("");
                failure = Some((
                    format!("{f} {cls}"),
                    format!("op:       {}\nexpected: {}\nactual:   {}\n{}", ops[i], r["exp"].as_str().unwrap_or(""), actual[i], r["note"].as_str().unwrap_or("")),
                ));
            }
        }
        match failure {
            Some((sig, detail)) => {
                if std::env::var_os("BV_C13_DEBUG").is_some() {
                    eprintln!("C13 failure: {sig}\n{detail}");
                }
                CaseOut::fail(rendered, sig, detail).with_labels(labels)
            }
            None => CaseOut::pass(rendered, nontrivial).with_labels(labels),
        }
    }
}

impl Prop for C13 {
    fn id(&self) -> &'static str {
        "C13"
    }
    fn streams(&self, tier: Tier) -> Vec<Stream> {
        let m = if tier == Tier::Quick { 1 } else { 50 };
        vec![Stream::new("doubles", 12_000 * m, 96).batch(150), Stream::new("texts", 6_000 * m, 200).batch(150)]
    }
    fn rule(&self) -> String {
        "stream doubles: one double per case built from the tape as a structured pattern (power of 2 / power of 10 +-0..2 ulp, subnormal and min-normal boundaries, 2^53/2^31/2^32/2^63 neighbourhoods, the 1e21 / 1e-7 / 1e-6 notation thresholds +-2 ulp, exact decimal ties j/2^(f+1) and m5*10^k and their 1-ulp neighbours built with exact arithmetic, short decimals, tape-uniform bit patterns, specials, +- each), handed to the script as a bit pattern, with ~9 ops: String/toString/template/''+x/JSON.stringify and the Number(String(x)) round trip, toString(radix 2..36 and out of range), toFixed/toExponential/toPrecision with digit counts 0..100 (and undefined / out of range); stream texts: one text per case (shortest form, 17-40 digit forms, exponent forms, zero/whitespace padding, 0x/0o/0b, exact halfway decimal strings between adjacent doubles +- a tiny amount, 19-400 digit integers, radix digit strings, malformed spellings) through Number, unary +, parseFloat, parseInt (radix 2..36/undefined), Number(BigInt(s)) for long integers and, when it is one token, as a numeric literal in source; expectations from exact rational arithmetic (py_c13.py). non-trivial = the value is a halfway/boundary/subnormal/threshold case (within 2 ulp of a power of 2 or 10, subnormal, near 2^53, exact decimal tie) or needs more than 15 significant digits, or the radix is not 10, or the digit count is above 20; distinct = distinct op list".into()
    }
    fn assumptions(&self) -> Vec<String> {
        vec![
            "python3 int/int true division and fractions.Fraction are exact / correctly rounded; repr(float) is the shortest round-trip digit string closest to the value".into(),
            "BigUint64Array/Float64Array aliasing, BigInt('0x..') and BigInt.prototype.toString(16) in boa transport bit patterns faithfully (a fault there shows up as a failure, not as a pass)".into(),
            "where ECMA-262 permits several answers (more than 20 significant digits, parseInt in radices other than 2,4,8,10,16,32, last digit of the shortest form) every permitted answer is accepted; toString(radix) digits are required exactly for power-of-two radices and integers up to 2^53 and to within 1 ulp otherwise".into(),
        ]
    }
    fn run_case(&self, env: &mut Env, stream: &str, _index: u64, tape: &[u8]) -> CaseOut {
        let req = json!({"op": "gen", "stream": stream, "tape": crate::driver::hex(tape), "exclude": exclusions()});
        let t0 = std::time::Instant::now();
        let resp = oracle_call(req);
        if t0.elapsed().as_secs() >= 5 {
            eprintln!("C13 slow gen: {:.1}s stream {stream} tape {}", t0.elapsed().as_secs_f64(), crate::driver::hex(tape));
        }
        let resp = match resp {
            Ok(v) => v,
            Err(_) => return CaseOut::skip(String::new(), "oracle-error"),
        };
        let ops: Vec<String> = resp["ops"].as_array().into_iter().flatten().filter_map(|v| v.as_str().map(str::to_string)).collect();
        let labels: Vec<&'static str> = resp["labels"].as_array().into_iter().flatten().filter_map(|v| v.as_str()).map(intern).collect();
        self.check_ops(env, ops, labels)
    }
    fn run_rendered(&self, env: &mut Env, _stream: &str, rendered: &str) -> Option<CaseOut> {
        let ops: Vec<String> = rendered.lines().map(str::trim_end).filter(|l| !l.is_empty()).map(str::to_string).collect();
        if ops.is_empty() {
            return Some(CaseOut::skip(String::new(), "no-ops"));
        }
        Some(self.check_ops(env, ops, vec![]))
    }
    fn rendered_prefix_lines(&self, _rendered: &str) -> usize {
        0
    }
}
