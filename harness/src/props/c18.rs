//! C18 — JSON.parse / JSON.stringify implement exactly the JSON grammar and value mapping.
//!
//! Oracles: an independent ECMA-404 recogniser and the ECMAScript value mapping (both in
//! /verif/oracle/py_c18.py), V8 for the text of `JSON.stringify` and for the call order of
//! toJSON / replacer / reviver / accessors / proxy traps, and the round trip parse(stringify(v)).

use crate::driver::{CaseOut, Env, Prop, Stream, Tier};
use crate::genp::json::{G, with_helpers, has_escaped_lone_surrogate, has_overflowing_number, has_raw_lone_surrogate, TextOut, js_lit, parse_js_lit, parse_script, stringify_script, u16s, unesc_print};
use crate::oracle::node_script;
use crate::run::{RunCfg, Trace, run};
use serde_json::{Value, json};

pub struct C18;

const PY: &str = "py_c18.py";

/// Deepest nesting boa accepts on the unchanged tree (measured: serde_json's recursion limit of
/// 128 rejects a text whose nesting exceeds 127). Valid texts nested at most this deep must be
/// accepted; deeper ones must be accepted with the right value or rejected cleanly.
pub const PINNED_ACCEPT_DEPTH: u64 = 127;

type Fail = (String, String);

fn texts_of(src: &str, prefix: &str) -> Vec<Vec<u16>> {
    src.lines().filter(|l| l.starts_with(prefix)).filter_map(|l| parse_js_lit(l, prefix.len() - 1).map(|x| x.0)).collect()
}

fn lone_surrogate(u: &[u16]) -> bool {
    let mut i = 0;
    while i < u.len() {
        if (0xd800..0xdc00).contains(&u[i]) {
            if u.get(i + 1).is_some_and(|n| (0xdc00..0xe000).contains(n)) {
                i += 2;
                continue;
            }
            return true;
        }
        if (0xdc00..0xe000).contains(&u[i]) {
            return true;
        }
        i += 1;
    }
    false
}

/// Coarse class of a text, used to make failure signatures specific.
fn text_class(u: &[u16]) -> &'static str {
    let s = String::from_utf16_lossy(u);
    if has_raw_lone_surrogate(u) {
        "raw-lone-surrogate"
    } else if has_escaped_lone_surrogate(u) {
        "escaped-lone-surrogate"
    } else if has_overflowing_number(u) {
        "number-overflow"
    } else if u.iter().any(|x| (0xd800..0xe000).contains(x)) {
        "raw-surrogate-pair"
    } else if s.to_ascii_lowercase().contains("\\ud") {
        "escaped-surrogate-pair"
    } else if s.contains("__proto__") {
        "__proto__"
    } else if u.iter().any(|&x| x == 0x2028 || x == 0x2029) {
        "u2028"
    } else if u.iter().any(|&x| x > 0x7e) {
        "non-ascii"
    } else if u.iter().any(|&x| x < 0x20 && ![9, 10, 13].contains(&x)) {
        "control"
    } else if s.contains('\\') {
        "escape"
    } else if s.contains(['e', 'E']) && s.chars().any(|c| c.is_ascii_digit()) {
        "exponent"
    } else if s.chars().filter(char::is_ascii_digit).count() >= 17 {
        "long-digits"
    } else {
        "plain"
    }
}

fn py_call(env: &mut Env, req: Value) -> Result<Value, String> {
    env.py(PY)?.call(req)
}

fn v8_line(env: &mut Env, src: &str, k: usize) -> String {
    match env.node().and_then(|n| node_script(n, src)) {
        Ok((p, c)) => format!("{} (completion {c})", p.get(k).cloned().unwrap_or_else(|| "<no line>".into())),
        Err(e) => format!("<v8 unavailable: {e}>"),
    }
}

fn boa(src: &str) -> Trace {
    run(src, &RunCfg::default())
}

// ------------------------------------------------------------------------------------------
// parse streams

fn check_parse(env: &mut Env, src: &str) -> Result<(), Fail> {
    let texts = texts_of(src, "P('");
    let t = boa(src);
    let resp = py_call(env, json!({"kind": "parse", "texts": texts})).map_err(|e| ("oracle-error".to_string(), e))?;
    let results = resp["results"].as_array().cloned().unwrap_or_default();
    if results.len() != texts.len() {
        return Err(("oracle-error".into(), "python answered with a different number of results".into()));
    }
    for (k, (text, r)) in texts.iter().zip(results.iter()).enumerate() {
        if let Some(d) = r["self"].as_str() {
            return Err(("oracle-self-disagreement".into(), format!("text {}: {d}", js_lit(text))));
        }
        let ok = r["ok"].as_bool().unwrap_or(false);
        let want = if ok { format!("ok {}", r["dump"].as_str().unwrap_or("?")) } else { "err SyntaxError".to_string() };
        let got = t.prints.get(k).cloned().unwrap_or_else(|| format!("<no line; completion {}>", t.completion.render()));
        if got != want {
            let kind = if got.starts_with("<no line") {
                format!("parse: script abnormal {}", t.completion.render().split(':').take(2).collect::<Vec<_>>().join(":"))
            } else if ok && got.starts_with("err SyntaxError") {
                "parse: rejects valid".to_string()
            } else if !ok && got.starts_with("ok ") {
                "parse: accepts invalid".to_string()
            } else if ok && got.starts_with("ok ") {
                "parse: value mismatch".to_string()
            } else {
                format!("parse: wrong error class {}", got.trim_start_matches("err "))
            };
            let v8 = v8_line(env, src, k);
            return Err((
                format!("{kind} [{}]", text_class(text)),
                format!("text #{k} = {}\nmodel (recogniser + value mapping): {want}\nboa: {got}\nv8 : {v8}", js_lit(text)),
            ));
        }
    }
    if t.prints.len() != texts.len() || t.completion.render() != "value:undefined" {
        return Err(("parse: script abnormal".into(), format!("prints={} texts={} completion={}", t.prints.len(), texts.len(), t.completion.render())));
    }
    Ok(())
}

// ------------------------------------------------------------------------------------------
// deep nesting

struct DeepLine {
    open: Vec<u16>,
    n: u64,
    leaf: Vec<u16>,
    close: Vec<u16>,
    m: u64,
}

fn parse_deep_line(l: &str) -> Option<DeepLine> {
    let rest = l.strip_prefix("D(")?;
    let (open, i) = parse_js_lit(rest, 0)?;
    let rest = rest[i..].strip_prefix(", ")?;
    let (ns, rest) = rest.split_once(", ")?;
    let (leaf, i) = parse_js_lit(rest, 0)?;
    let rest = rest[i..].strip_prefix(", ")?;
    let (close, i) = parse_js_lit(rest, 0)?;
    let rest = rest[i..].strip_prefix(", ")?;
    let ms = rest.strip_suffix(");")?;
    Some(DeepLine { open, n: ns.parse().ok()?, leaf, close, m: ms.parse().ok()? })
}

fn check_deep(env: &mut Env, src: &str) -> Result<(), Fail> {
    let lines: Vec<DeepLine> = src.lines().filter_map(parse_deep_line).collect();
    let t = boa(src);
    for (k, d) in lines.iter().enumerate() {
        let v = py_call(env, json!({"kind": "verdict", "open": d.open, "n": d.n, "leaf": d.leaf, "close": d.close, "m": d.m}))
            .map_err(|e| ("oracle-error".to_string(), e))?;
        let valid = v["ok"].as_bool().unwrap_or(false);
        let per = d.open.iter().filter(|&&u| u == 0x5b || u == 0x7b).count() as u64;
        let leaf_nest = u64::from(d.leaf.iter().any(|&u| u == 0x5b || u == 0x7b));
        let depth = per * d.n + leaf_nest;
        let got = t.prints.get(k).cloned().unwrap_or_else(|| format!("<no line; completion {}>", t.completion.render()));
        let what = format!("line #{k}: open={} n={} leaf={} close={} m={} (nesting depth {depth}, model says {})", js_lit(&d.open), d.n, js_lit(&d.leaf), js_lit(&d.close), d.m, if valid { "valid" } else { "invalid" });
        let clean_reject = got == "err SyntaxError" || got == "err RangeError";
        if !valid {
            if !clean_reject {
                return Err((format!("deep: invalid text not rejected cleanly ({})", got.split(' ').take(2).collect::<Vec<_>>().join(" ")), format!("{what}\nboa: {got}")));
            }
            continue;
        }
        // valid text: the expected line when accepted (an empty leaf is only valid inside pure
        // array nesting, where the innermost pair of brackets is the leaf `[]`)
        let (leaf_text, walk) = if d.leaf.is_empty() { (u16s("[]"), (per * d.n).saturating_sub(1)) } else { (d.leaf.clone(), per * d.n) };
        let depth = if d.leaf.is_empty() { per * d.n } else { depth };
        let leaf = py_call(env, json!({"kind": "parse", "texts": [leaf_text]})).map_err(|e| ("oracle-error".to_string(), e))?;
        let want = format!("ok {walk} {}", leaf["results"][0]["dump"].as_str().unwrap_or("?"));
        if got == want {
            continue;
        }
        if got.starts_with("ok ") {
            return Err(("deep: accepted with a wrong value".into(), format!("{what}\nwant: {want}\nboa: {got}")));
        }
        if depth <= 12 {
            return Err(("deep: rejects valid JSON nested <= 12".into(), format!("{what}\nwant: {want}\nboa: {got}")));
        }
        if depth <= PINNED_ACCEPT_DEPTH {
            return Err((format!("deep: rejects valid JSON nested <= pinned {PINNED_ACCEPT_DEPTH}"), format!("{what}\nwant: {want}\nboa: {got}")));
        }
        if !clean_reject {
            return Err((format!("deep: not rejected cleanly ({})", got.chars().take(40).collect::<String>()), format!("{what}\nwant: {want} or a clean SyntaxError/RangeError\nboa: {got}")));
        }
    }
    if t.prints.len() != lines.len() || t.completion.render() != "value:undefined" {
        return Err(("deep: script abnormal".into(), format!("prints={} lines={} completion={}", t.prints.len(), lines.len(), t.completion.render())));
    }
    Ok(())
}

// ------------------------------------------------------------------------------------------
// stringify / reviver

fn check_stringify(env: &mut Env, src: &str) -> Result<(), Fail> {
    let t = boa(src);
    let (np, nc) = node_script(env.node().map_err(|e| ("skip:oracle-unavailable".to_string(), e))?, src).map_err(|e| ("skip:oracle-error".to_string(), e))?;
    if nc == "limit:timeout" {
        return Err(("skip:v8-timeout".into(), String::new()));
    }
    // 1. byte-for-byte against V8: results, and the order of every observable call
    if t.prints != np {
        let k = t.prints.iter().zip(np.iter()).position(|(a, b)| a != b).unwrap_or(t.prints.len().min(np.len()));
        let b = t.prints.get(k).cloned().unwrap_or_else(|| "<none>".into());
        let n = np.get(k).cloned().unwrap_or_else(|| "<none>".into());
        let class = |s: &str| s.split(' ').take(2).collect::<Vec<_>>().join(" ");
        let mut sig = if class(&b) == class(&n) { format!("stringify: differs from V8 at a `{}` line", class(&b)) } else { format!("stringify: differs from V8: boa `{}` v8 `{}`", class(&b), class(&n)) };
        if src.lines().any(|l| l.starts_with("RV(") && l.ends_with(", rv6);")) && (b.starts_with("rv ") || b.starts_with("V ")) {
            sig.push_str(" [reviver assigns this.length]");
        }
        return Err((sig, format!("first difference at print #{k}\nboa: {b}\nv8 : {n}\n--- boa\n{}\n--- v8\n{}\n=> {nc}", t.render(), np.join("\n"))));
    }
    if t.completion.render() != nc {
        return Err((format!("stringify: completion boa={} v8={}", t.completion.render(), nc), t.render()));
    }
    // 2. every produced text (with a white-space gap) is valid JSON for the recogniser and free of lone surrogates
    let mut outs: Vec<(usize, Vec<u16>)> = vec![];
    for (k, p) in t.prints.iter().enumerate() {
        if let Some(text) = p.strip_prefix("J string ws ") {
            outs.push((k, unesc_print(text)));
        }
    }
    let resp = py_call(env, json!({"kind": "parse", "texts": outs.iter().map(|o| o.1.clone()).collect::<Vec<_>>()})).map_err(|e| ("oracle-error".to_string(), e))?;
    let results = resp["results"].as_array().cloned().unwrap_or_default();
    for ((k, text), r) in outs.iter().zip(results.iter()) {
        if r["ok"].as_bool() != Some(true) {
            return Err(("stringify: output is not valid JSON".into(), format!("print #{k}: {} rejected by the recogniser at {}", js_lit(text), r["pos"])));
        }
        if lone_surrogate(text) {
            return Err(("stringify: output contains a lone surrogate".into(), format!("print #{k}: {}", js_lit(text))));
        }
    }
    // 3. round-trip blocks: the text parses (in Python) to the model structure, and so does boa's parse of it
    let srcs = texts_of(src, "RT('");
    let marks: Vec<usize> = t.prints.iter().enumerate().filter(|(_, p)| *p == "RT").map(|(k, _)| k).collect();
    for (s, &k) in srcs.iter().zip(marks.iter()) {
        let r = py_call(env, json!({"kind": "roundtrip", "src": s, "out": Value::Null})).map_err(|e| ("oracle-error".to_string(), e))?;
        let want = r["want"].as_str().unwrap_or("?").to_string();
        // the J line follows the mark (an indent object may print from its valueOf in between)
        let Some(jk) = (k + 1..t.prints.len()).find(|&i| t.prints[i].starts_with("J ")) else {
            return Err(("roundtrip: no result line".into(), format!("value {}\n{}", js_lit(s), t.render())));
        };
        let j = t.prints[jk].clone();
        let Some(text) = j.strip_prefix("J string ") else {
            return Err(("roundtrip: stringify of a JSON value did not produce a string".into(), format!("value {}\nboa: {j}", js_lit(s))));
        };
        if let Some(text) = text.strip_prefix("ws ") {
            let idx = outs.iter().position(|o| o.0 == jk);
            let got = idx.and_then(|i| results[i]["dump"].as_str()).unwrap_or("?");
            if got != want {
                return Err(("roundtrip: stringify text does not denote the value".into(), format!("value {}\ntext {}\nmodel of value: {want}\nmodel of text : {got}", js_lit(s), text)));
            }
            let rline = t.prints.get(jk + 1).cloned().unwrap_or_default();
            if rline != format!("R ok {want}") {
                return Err(("roundtrip: parse(stringify(v)) is not v".into(), format!("value {}\nwant: R ok {want}\nboa : {rline}", js_lit(s))));
            }
        }
    }
    Ok(())
}

// ------------------------------------------------------------------------------------------

fn to_case(src: String, r: Result<(), Fail>, nontrivial: bool, labels: Vec<&'static str>) -> CaseOut {
    // development aid: C18_DUMP_DIR=<dir> keeps every generated script with its boa trace
    if let Ok(dir) = std::env::var("C18_DUMP_DIR") {
        let h = crate::rng::hash_bytes(src.as_bytes());
        let _ = std::fs::write(format!("{dir}/{h:016x}.js"), format!("{src}\n/* boa:\n{}\n*/\n", boa(&src).render()));
    }
    match r {
        Ok(()) => CaseOut::pass(src, nontrivial).with_labels(labels),
        Err((sig, detail)) if sig.starts_with("skip:") => CaseOut::skip(src, format!("{}: {detail}", &sig[5..])).with_labels(labels),
        Err((sig, detail)) if sig == "oracle-error" => CaseOut::skip(src, format!("oracle-error: {detail}")).with_labels(labels),
        Err((sig, detail)) => CaseOut::fail(src, sig, detail).with_labels(labels),
    }
}

fn deep_script(g: &mut G<'_>, labels: &mut Vec<&'static str>) -> String {
    let mut s = String::new();
    let lines = 1 + g.t.below(3);
    for _ in 0..lines {
        let (open, close) = *g.t.pick(&[("[", "]"), ("{\"a\":", "}"), ("[{\"a\":", "}]"), ("[ ", " ]"), ("{ \"a\" : ", "\n}"), ("{\"a\":[", "]}")]);
        let n = match g.t.weighted(&[2, 2, 4, 3, 3, 2]) {
            0 => 1 + g.t.below(12),
            1 => 13 + g.t.below(100),
            2 => 50 + g.t.below(30),
            3 => 100 + g.t.below(900),
            4 => 1000 + g.t.below(9000),
            _ => 10000 + g.t.below(90001),
        } as u64;
        let mut leaf = *g.t.pick(&["1", "\"x\"", "[]", "{}", "null", "-0", "[1,2]"]);
        let mut m = n;
        let mut close = close.to_string();
        match g.t.weighted(&[10, 2, 2, 2, 1]) {
            0 => labels.push("deep-balanced"),
            1 => {
                labels.push("deep-unclosed");
                m = n - 1;
            }
            2 => {
                labels.push("deep-extra-close");
                m = n + 1;
            }
            3 => {
                labels.push("deep-mismatched-close");
                close = close.replace(']', ")").replace('}', "]").replace(')', "}");
            }
            _ => {
                labels.push("deep-empty-leaf");
                leaf = "";
            }
        }
        let per = open.chars().filter(|c| *c == '[' || *c == '{').count() as u64;
        labels.push(match per * n {
            0..=12 => "deep-depth-1-12",
            13..=127 => "deep-depth-13-127",
            128..=999 => "deep-depth-128-999",
            1000..=9999 => "deep-depth-1000-9999",
            _ => "deep-depth-10000+",
        });
        s.push_str(&format!("D({}, {n}, {}, {}, {m});\n", js_lit(&u16s(open)), js_lit(&u16s(leaf)), js_lit(&u16s(&close))));
    }
    with_helpers(&s, "deep")
}

fn interesting_text(u: &[u16]) -> bool {
    text_class(u) != "plain"
}

impl Prop for C18 {
    fn id(&self) -> &'static str {
        "C18"
    }
    fn streams(&self, tier: Tier) -> Vec<Stream> {
        let m = if tier == Tier::Quick { 1 } else { 60 };
        vec![
            Stream::new("parse-valid", 500 * m, 1200).batch(25),
            Stream::new("parse-nearmiss", 500 * m, 900).batch(25),
            Stream::new("deep", 96 * m, 64).batch(6),
            Stream::new("stringify", 1000 * m, 700).batch(25),
        ]
    }
    fn rule(&self) -> String {
        "parse-valid: 8 texts per script, each the serialisation (random legal white space, escape choices, hex case) of a generated JSON value nested up to 12 (adversarial strings, numbers, keys); parse-nearmiss: 8 texts per script from bad tokens planted at value positions, structural edits at token boundaries, 1-2 unit mutations, bad prefixes/suffixes; every text is passed to JSON.parse as an exact code-unit string; accept/SyntaxError must equal the independent recogniser, the dumped value (types, number bits, string units, own key order, attributes, prototype) must equal the Python value mapping. deep: nesting 1..100000, must be accepted with the right value up to the pinned depth 127, else rejected cleanly. stringify: 3-6 blocks per script (round trip of JSON values with an indent; arbitrary values incl. undefined/functions/symbols/BigInt/boxed/Date/toJSON/getters/proxies/cycles/holes with replacer function or array and indent; JSON.parse with 10 printing revivers that delete, replace and mutate the holder; JSON.parse of non-string arguments), whole trace byte-for-byte equal to V8, every text output valid for the recogniser and free of lone surrogates, round trips equal the model. non-trivial = (parse streams) at least one text of the script contains an escape, a surrogate, a non-ASCII unit or an edge number, or is a near miss within 2 unit edits of a valid text; (deep) a depth > 12; (stringify) at least one of replacer / indent / toJSON / non-JSON value / reviver present; distinct = distinct script".into()
    }
    fn assumptions(&self) -> Vec<String> {
        vec![
            "V8 (node 20) implements SerializeJSONProperty / InternalizeJSONProperty call order and text exactly (the algorithm is fully specified)".into(),
            "Python's float() is correctly rounded; Python's json (strict, constants rejected) agrees with the recogniser on every text (checked on every case)".into(),
            "V8 deviates from the specification for a numeric indent strictly between 0 and 1 (it emits line feeds with an empty gap); such indents are not generated. Own-key order of built-in namespace objects and the own `arguments`/`caller` of sloppy functions are engine specific and are not put behind printing proxies".into(),
            "open known findings exclude from generation: lone surrogates (raw or escaped) in parsed texts, numbers at or beyond +-1.79769313486231e308, `this.length = n` inside a reviver (see /verif/known.d/C18.json); JSON.rawJSON / isRawJSON and the reviver's third `context` argument are not covered (absent from the V8 oracle)".into(),
        ]
    }
    fn run_case(&self, env: &mut Env, stream: &str, _index: u64, tape: &[u8]) -> CaseOut {
        let mut g = G::new(tape);
        match stream {
            "parse-valid" => {
                let mut texts = vec![];
                let mut nt = 0;
                for _ in 0..8 {
                    g.interesting = false;
                    let t: TextOut = g.valid_text(false);
                    if g.interesting || interesting_text(&t.units) {
                        nt += 1;
                        g.labels.push("nt-text");
                    }
                    g.labels.push("text");
                    texts.push(t.units);
                }
                let src = parse_script(&texts);
                let r = check_parse(env, &src);
                to_case(src, r, nt > 0, g.labels)
            }
            "parse-nearmiss" => {
                let mut texts = vec![];
                let mut nt = 0;
                for _ in 0..8 {
                    g.interesting = false;
                    let (t, edits, class) = g.near_miss();
                    g.labels.push(class);
                    if edits <= 2 || interesting_text(&t) {
                        nt += 1;
                        g.labels.push("nt-text");
                    }
                    g.labels.push("text");
                    texts.push(t);
                }
                let src = parse_script(&texts);
                let r = check_parse(env, &src);
                to_case(src, r, nt > 0, g.labels)
            }
            "deep" => {
                let mut labels = vec![];
                let src = deep_script(&mut g, &mut labels);
                let r = check_deep(env, &src);
                let nt = labels.iter().any(|l| l.starts_with("deep-depth-") && *l != "deep-depth-1-12");
                to_case(src, r, nt, labels)
            }
            _ => {
                let (src, nt) = stringify_script(&mut g);
                let r = check_stringify(env, &src);
                to_case(src, r, nt, g.labels)
            }
        }
    }
    fn run_rendered(&self, env: &mut Env, stream: &str, rendered: &str) -> Option<CaseOut> {
        if rendered.is_empty() {
            return Some(CaseOut::skip(String::new(), "empty"));
        }
        let src = rendered.to_string();
        let (r, nt) = match stream {
            "parse-valid" | "parse-nearmiss" => (check_parse(env, &src), true),
            "deep" => (check_deep(env, &src), true),
            _ => (check_stringify(env, &src), true),
        };
        Some(to_case(src, r, nt, vec![]))
    }
    fn rendered_prefix_lines(&self, _rendered: &str) -> usize {
        // the case comes first, the helpers after it
        0
    }
}
