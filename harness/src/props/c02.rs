//! C02 — no input makes the engine fail internally (no panic, abort, EnginePanic or failed
//! debug assertion): outcome(eval(s)) in {value, JS exception, RuntimeLimitError}.

use crate::driver::{CaseOut, Env, Prop, Stream, Tier};
use crate::genp::prog::{Opts, generate};
use crate::run::{Completion, RunCfg, Trace, apply_cfg, classify, install_print, panic_signature, run, take_last_panic};
use crate::tape::Tape;
use boa_engine::{Context, Source};

pub struct C02;

fn cfg() -> RunCfg {
    RunCfg { loop_limit: 20_000, recursion_limit: 512, stack_limit: 10 * 1024, ..RunCfg::default() }
}

const DICT: &[&str] = &[
    "var", "let", "const", "function", "function*", "async", "await", "yield", "class", "extends", "super", "new", "new.target", "this", "return", "if", "else", "for", "while", "do",
    "switch", "case", "default", "break", "continue", "try", "catch", "finally", "throw", "typeof", "void", "delete", "in", "of", "instanceof", "with", "debugger", "static", "get", "set",
    "import", "export", "null", "undefined", "true", "false", "eval", "arguments", "(", ")", "[", "]", "{", "}", ";", ",", ".", "?.", "...", "=>", "=", "+=", "**=", "&&=", "||=", "??=",
    "+", "-", "*", "/", "%", "**", "++", "--", "<", ">", "<=", ">=", "==", "===", "!=", "!==", "&&", "||", "??", "?", ":", "!", "~", "&", "|", "^", "<<", ">>", ">>>", "`", "${", "'", "\"",
    "0", "1", "1n", "0x1f", "1e400", ".5", "08", "'s'", "/re/g", "#p", "x", "y", "a", "b", "\\u0061", "\\u{62}", "\n", "/*", "*/", "//", "<!--", "-->", "@", "#", "\\", "async function*", "label:",
    "0b1", "0o7", "1_0", "\u{2028}", "\u{feff}", "=>{", "({", "})", "[,", "get x(){}", "static{", "super(", "super.x", "import(", "import.meta", "?.(", "?.[", "`${", "}`",
];

fn tokenize(src: &str) -> Vec<String> {
    let mut out = vec![];
    let cs: Vec<char> = src.chars().collect();
    let mut i = 0;
    while i < cs.len() {
        let c = cs[i];
        if c.is_alphanumeric() || c == '_' || c == '$' {
            let s = i;
            while i < cs.len() && (cs[i].is_alphanumeric() || cs[i] == '_' || cs[i] == '$') {
                i += 1;
            }
            out.push(cs[s..i].iter().collect());
        } else if c == '\'' || c == '"' {
            let s = i;
            i += 1;
            while i < cs.len() && cs[i] != c && cs[i] != '\n' {
                if cs[i] == '\\' {
                    i += 1;
                }
                i += 1;
            }
            i = (i + 1).min(cs.len());
            out.push(cs[s..i].iter().collect());
        } else if c.is_whitespace() {
            let s = i;
            while i < cs.len() && cs[i].is_whitespace() {
                i += 1;
            }
            out.push(cs[s..i].iter().collect());
        } else {
            // punctuator: greedy up to 3 chars of the same class
            let s = i;
            i += 1;
            while i < cs.len() && i - s < 3 && "=+-*&|<>?.!".contains(cs[i]) && "=+-*&|<>?.!".contains(c) {
                i += 1;
            }
            out.push(cs[s..i].iter().collect());
        }
    }
    out
}

fn max_nesting(s: &str) -> usize {
    let mut d = 0usize;
    let mut m = 0;
    for c in s.chars() {
        match c {
            '(' | '[' | '{' => {
                d += 1;
                m = m.max(d);
            }
            ')' | ']' | '}' => d = d.saturating_sub(1),
            _ => {}
        }
    }
    m
}

fn mutate(src: &str, t: &mut Tape<'_>) -> String {
    let mut toks = tokenize(src);
    let n = 1 + t.below(6);
    for _ in 0..n {
        if toks.is_empty() {
            break;
        }
        let i = t.below(toks.len().min(65535));
        match t.below(6) {
            0 => {
                toks.remove(i);
            }
            1 => {
                let x = toks[i].clone();
                toks.insert(i, x);
            }
            2 => {
                let j = t.below(toks.len().min(65535));
                toks.swap(i, j);
            }
            3 => {
                toks[i] = (*t.pick(DICT)).to_string();
            }
            4 => {
                toks.insert(i, (*t.pick(DICT)).to_string());
            }
            _ => {
                // splice a run from elsewhere
                let j = t.below(toks.len().min(65535));
                let len = 1 + t.below(8);
                let run: Vec<String> = toks[j..(j + len).min(toks.len())].to_vec();
                for (k, x) in run.into_iter().enumerate() {
                    toks.insert((i + k).min(toks.len()), x);
                }
            }
        }
    }
    toks.concat()
}

pub fn mutate_text(src: &str, t: &mut Tape<'_>) -> String {
    mutate(src, t)
}
pub fn dict_token(t: &mut Tape<'_>) -> &'static str {
    *t.pick(DICT)
}

fn body_of(full: &str) -> &str {
    full.find(crate::genp::prog::PRELUDE).map_or(full, |i| &full[i + crate::genp::prog::PRELUDE.len()..])
}

fn judge(src: &str, t: &Trace, accepted_min_stmt: bool) -> CaseOut {
    match &t.completion {
        Completion::Panic(sig) => CaseOut::fail(src.to_string(), format!("panic {sig}"), t.render()),
        Completion::EnginePanic(m) => {
            let short: String = m.chars().filter(|c| !c.is_ascii_digit()).take(100).collect();
            CaseOut::fail(src.to_string(), format!("EnginePanic {short}"), t.render())
        }
        c => {
            let parsed = !matches!(c, Completion::EarlySyntaxError);
            let mut l = vec![];
            if parsed {
                l.push("parser-accepted");
            }
            match c {
                Completion::Limit(_) => l.push("outcome-limit"),
                Completion::Throw(_) => l.push("outcome-throw"),
                Completion::Value(_) => l.push("outcome-value"),
                _ => l.push("outcome-early-error"),
            }
            CaseOut::pass(src.to_string(), parsed && accepted_min_stmt).with_labels(l)
        }
    }
}

/// several sources evaluated in sequence on ONE context
fn run_reused(srcs: &[String]) -> Trace {
    crate::run::install_panic_hook();
    crate::run::PRINTS.with(|p| p.borrow_mut().clear());
    let c = cfg();
    let res = std::panic::catch_unwind(std::panic::AssertUnwindSafe(|| {
        let mut ctx = Context::default();
        install_print(&mut ctx);
        apply_cfg(&mut ctx, &c);
        let mut last = Completion::Value("undefined".into());
        for s in srcs {
            let r = ctx.eval(Source::from_bytes(s.as_bytes()));
            last = classify(&r, s);
            if last.is_internal_failure() {
                return last;
            }
            if let Err(e) = ctx.run_jobs() {
                let c = crate::run::throw_class(&e);
                if c.is_internal_failure() {
                    return c;
                }
            }
        }
        last
    }));
    let completion = match res {
        Ok(c) => c,
        Err(_) => Completion::Panic(panic_signature(&take_last_panic().unwrap_or_default())),
    };
    let prints = crate::run::PRINTS.with(|p| std::mem::take(&mut *p.borrow_mut()));
    Trace { prints, completion }
}

const SEP: &str = "\n//---NEXT-INPUT-ON-SAME-CONTEXT---\n";

impl C02 {
    fn source_for(&self, family: usize, t: &mut Tape<'_>, rest: &[u8]) -> Option<String> {
        Some(match family {
            0 => {
                // raw bytes, biased to printable ASCII + dictionary tokens
                let n = 1 + t.below(120);
                let mut s = Vec::new();
                for _ in 0..n {
                    match t.below(4) {
                        0 => s.extend_from_slice(t.pick(DICT).as_bytes()),
                        1 => s.push(t.u8()),
                        2 => s.push(b' '),
                        _ => s.push(32 + (t.u8() % 95)),
                    }
                }
                String::from_utf8_lossy(&s).to_string()
            }
            1 => {
                let p = generate(rest, Opts::core());
                mutate(body_of(&p.src), t)
            }
            2 => {
                let mut o = match t.below(3) {
                    0 => Opts::core(),
                    1 => Opts::scope(),
                    _ => Opts::lit(),
                };
                // exclusions concern wrong *values*; for C02 everything is allowed
                o.excl_f2_rest_after_nested = false;
                o.excl_f4_param_var_redecl = false;
                o.excl_f6_operand_then_assign = false;
                o.excl_f7_update_non_number = false;
                o.excl_f8_switch_lexical = false;
                o.excl_f9_pow2_object = false;
                o.excl_f5_global_logical_assign_in_operand = false;
                o.excl_f17_catch_in_finally = false;
                o.excl_f28_destructure_exhausted_iterator = false;
                o.excl_f29_broken_iterator_in_pattern = false;
                generate(rest, o).src
            }
            3 => crate::genp::arb::arb_source(rest)?,
            _ => crate::genp::wild::generate(rest).src,
        })
    }
}

impl Prop for C02 {
    fn id(&self) -> &'static str {
        "C02"
    }
    fn streams(&self, tier: Tier) -> Vec<Stream> {
        let m = if tier == Tier::Quick { 1 } else { 50 };
        vec![
            Stream::new("raw", 20_000 * m, 300).batch(1000),
            Stream::new("mutant", 20_000 * m, 700).batch(500),
            Stream::new("program", 4_000 * m, 700).batch(200),
            Stream::new("arbitrary-ast", 6_000 * m, 600).batch(300),
            Stream::new("wild", 4_000 * m, 200).batch(200),
            Stream::new("reuse", 2_000 * m, 900).batch(100),
        ]
    }
    fn rule(&self) -> String {
        "six input families, each evaluated under catch_unwind in a worker process (abort/SIGSEGV is attributed to the journaled input): raw = byte soup biased to JS tokens; mutant = token-level delete/duplicate/swap/replace/insert/splice mutants of generated programs (nesting <= 64); program = gen::prog programs with all known-finding exclusions OFF; arbitrary-ast = the maintainers' Arbitrary-derived StatementList printed to source; wild = random built-in method calls chosen by index from the receiver's prototype chain with random receivers/arguments, including re-entrant arguments (valueOf/toString/getters/Proxy traps/thenables/comparators that mutate, detach, resize, freeze or re-enter the receiver of the running builtin) and generators / async generators whose try/catch/finally operate on their own generator object while it is resumed by next/return/throw; reuse = 3-8 inputs of mixed families evaluated in sequence on ONE context. Violation = Rust panic (incl. debug assertion / overflow check), EngineError::Panic, worker death by signal. Non-trivial = the parser accepted the input and at least one statement executed (raw: lexes to >= 2 tokens and is accepted); distinct = distinct source".into()
    }
    fn run_case(&self, _env: &mut Env, stream: &str, _index: u64, tape: &[u8]) -> CaseOut {
        let mut t = Tape::new(tape);
        let split = tape.len().min(24);
        let rest = &tape[split..];
        let family = match stream {
            "raw" => 0,
            "mutant" => 1,
            "program" => 2,
            "arbitrary-ast" => 3,
            "wild" => 4,
            _ => 5,
        };
        if family == 5 {
            let n = 3 + t.below(6);
            let mut srcs = vec![];
            let chunk = (rest.len() / n).max(8);
            for k in 0..n {
                let f = t.below(5);
                let part = &rest[(k * chunk).min(rest.len())..((k + 1) * chunk).min(rest.len())];
                let mut t2 = Tape::new(part);
                if let Some(s) = self.source_for(f, &mut t2, part) {
                    if max_nesting(&s) <= 64 {
                        srcs.push(s);
                    }
                }
            }
            let rendered = srcs.join(SEP);
            let tr = run_reused(&srcs);
            return judge(&rendered, &tr, srcs.len() >= 3);
        }
        let Some(src) = self.source_for(family, &mut t, rest) else {
            return CaseOut::skip(String::new(), "arbitrary-ast-not-generated");
        };
        if max_nesting(&src) > 64 {
            return CaseOut::skip(src, "nesting>64");
        }
        let tr = run(&src, &cfg());
        let min = if family == 0 { tokenize(&src).iter().filter(|x| !x.trim().is_empty()).count() >= 2 } else { true };
        judge(&src, &tr, min)
    }
    fn run_rendered(&self, _env: &mut Env, stream: &str, rendered: &str) -> Option<CaseOut> {
        if stream == "reuse" || rendered.contains(SEP) {
            let srcs: Vec<String> = rendered.split(SEP).map(str::to_string).collect();
            let tr = run_reused(&srcs);
            return Some(judge(rendered, &tr, true));
        }
        let tr = run(rendered, &cfg());
        Some(judge(rendered, &tr, true))
    }
    fn rendered_prefix_lines(&self, _rendered: &str) -> usize {
        0
    }
}
