//! C06 — inline caches are semantically transparent: trace(P, caches on) = trace(P, caches off).

use crate::driver::{CaseOut, Env, Prop, Stream, Tier};
use crate::genp::ic::{IcOpts, generate};
use crate::oracle::node_script;
use crate::run::{RunCfg, diff_traces, run};

pub struct C06;

impl C06 {
    fn check(&self, env: &mut Env, src: &str, nontrivial: bool, labels: Vec<&'static str>) -> CaseOut {
        let on = run(src, &RunCfg::default());
        let off = run(src, &RunCfg { ic_off: true, ..RunCfg::default() });
        if off.completion.is_limit() {
            return CaseOut::skip(src.to_string(), "boa-limit");
        }
        if let Some((sig, d)) = diff_traces("caches-on", &on, "caches-off", &off) {
            return CaseOut::fail(src.to_string(), format!("ic: {sig}"), d).with_labels(labels);
        }
        // gc-stressed run: weak shapes in cache entries die
        let on_gc = run(src, &RunCfg { gc_stress: 50, ..RunCfg::default() });
        if let Some((sig, d)) = diff_traces("caches-on", &on, "caches-on+gc", &on_gc) {
            return CaseOut::fail(src.to_string(), format!("ic+gc: {sig}"), d).with_labels(labels);
        }
        if env.tier == Tier::Thorough {
            // second opinion: V8 (guards against the uncached path being wrong in the same way)
            if let Ok(node) = env.node() {
                if let Ok((np, nc)) = node_script(node, src) {
                    if nc != "limit:timeout" && (np != off.prints || nc != off.completion.render()) {
                        let k = np.iter().zip(off.prints.iter()).position(|(a, b)| a != b).unwrap_or(0);
                        return CaseOut::fail(src.to_string(), "ic: uncached boa differs from V8", format!("first differing line {k}: boa={:?} v8={:?}\n--- boa (caches off)\n{}\n--- v8\n{}\n=> {nc}", off.prints.get(k), np.get(k), off.render(), np.join("\n"))).with_labels(labels);
                    }
                }
            }
        }
        CaseOut::pass(src.to_string(), nontrivial).with_labels(labels)
    }
}

impl Prop for C06 {
    fn id(&self) -> &'static str {
        "C06"
    }
    fn streams(&self, tier: Tier) -> Vec<Stream> {
        let m = if tier == Tier::Quick { 1 } else { 60 };
        vec![Stream::new("ic", 5000 * m, 400).batch(100)]
    }
    fn rule(&self) -> String {
        "history programs: 2-5 access-site functions (o.k read, o.k write sloppy/strict, o.length, global read, global write, super.x/super.a method call, with-scoped read) over a pool of 3-8 objects built by different routes (literals in different key order, Object.create chains of depth 1-3, class/derived instances, arrays, functions, accessors, non-writable own property, __proto__ literal, primitives, null-prototype, Proxy, frozen) and 10-60 steps that either call a site 1-4 times on an object and print the result or mutate the receiver / its prototype / the prototype's prototype / a shared intrinsic prototype / the global object (add, delete, data<->accessor, writable/enumerable flips, freeze/seal/preventExtensions, setPrototypeOf, self-replacing getter); every program ends with every site applied to every object. The same program runs with inline caches on and off (hook) and with caches on under forced collections; traces must be equal [thorough: caches-off boa also equals V8]. Non-trivial = some site ran >= 3 times before a mutation happened (warm cache, then mutation); distinct = distinct source".into()
    }
    fn run_case(&self, env: &mut Env, _stream: &str, _index: u64, tape: &[u8]) -> CaseOut {
        let p = generate(tape, &IcOpts { excl_f10_proto_shape_change: !crate::props::c06::f10_fixed(), excl_f23_array_length_store: false, excl_f24_shape_change_in_accessor: !f10_fixed(), excl_f31_own_shadow_on_unique_shape: !f10_fixed() });
        let mut labels = p.labels.clone();
        if p.excluded > 0 {
            labels.push("excluded-ic-known-findings");
        }
        self.check(env, &p.src, p.warm_then_mutated, labels)
    }
    fn run_rendered(&self, env: &mut Env, _stream: &str, rendered: &str) -> Option<CaseOut> {
        Some(self.check(env, rendered, true, vec![]))
    }
}

/// whether the F10 exclusion can be dropped (set when the defect is repaired in /repo)
pub fn f10_fixed() -> bool {
    std::env::var_os("BV_F10_FIXED").is_some() || F10_FIXED
}
pub const F10_FIXED: bool = true;
