use crate::driver::Prop;

pub mod c01;

pub fn all() -> Vec<Box<dyn Prop>> {
    vec![Box::new(c01::C01)]
}

pub fn find(id: &str) -> Option<Box<dyn Prop>> {
    all().into_iter().find(|p| p.id().eq_ignore_ascii_case(id))
}
