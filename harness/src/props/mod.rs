use crate::driver::Prop;

pub mod c01;
pub mod c04;
pub mod c05;

pub fn all() -> Vec<Box<dyn Prop>> {
    vec![Box::new(c01::C01), Box::new(c04::C04), Box::new(c05::C05)]
}

pub fn find(id: &str) -> Option<Box<dyn Prop>> {
    all().into_iter().find(|p| p.id().eq_ignore_ascii_case(id))
}
