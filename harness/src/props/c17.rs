//! C17 — module graphs evaluate each module once, in dependency order.
//!
//! A case is a directed graph over n <= 8 modules plus per-module attributes (genp::modgraph),
//! rendered to `{"modules":{name:src}, "entries":[...], "async_loader":bool}`. The harness loads
//! the entries one after the other through a logging `ModuleLoader`
//! (`Module::parse` + `load_link_evaluate` + `Context::run_jobs`) and reads the state of the
//! returned promise. Oracles:
//!   * D-ext: V8's `vm.SourceTextModule` (oracle/node_c17.js), full print trace, per-stage
//!     print counts, settlement and rejection class of every entry evaluation;
//!   * M: `model()` below, the specification's InnerModuleEvaluation (depth-first, cycles closed
//!     at their root) executed over the rendered statements; authoritative for graphs in which
//!     no module is evaluated asynchronously, so the synchronous verdict does not depend on node;
//!   * oracle-free invariants: a body starts at most once, only after all non-cyclic
//!     dependencies finished; every reachable module is requested from the host, at most once
//!     per (referrer, specifier); an entry rejects iff it reaches a throwing module, with one of
//!     their classes; a repeated evaluation prints nothing and settles identically; no promise
//!     is left pending after `run_jobs`.

use crate::driver::{CaseOut, Env, Prop, Stream, Tier};
use crate::genp::modgraph::{self, Await, Case, Throw};
use crate::oracle::{Server, verif_root};
use crate::run::{Completion, PRINTS, install_panic_hook, install_print, panic_signature, take_last_panic, throw_class};
use crate::tape::Tape;
use boa_engine::{
    Context, JsError, JsResult, JsValue, Module, Source,
    builtins::promise::PromiseState,
    module::{ModuleLoader, ModuleRequest, Referrer},
};
use serde_json::{Value, json};
use std::cell::RefCell;
use std::collections::{BTreeMap, BTreeSet};
use std::future::Future;
use std::pin::Pin;
use std::rc::Rc;
use std::task::{Context as TaskCx, Poll};

pub struct C17;

/// Generator exclusions for the two open findings (known.d/C17.json). `BV_C17_NOEXCL=1` turns
/// them off (used to reproduce the findings through the generator).
fn exclusions_on() -> bool {
    std::env::var_os("BV_C17_NOEXCL").is_none()
}
/// (a) C17-a: no module WITHOUT top-level await whose body throws while its execution was
/// deferred behind an asynchronous dependency that fulfils.
const EXCL_DEFERRED_SYNC_THROWER: &str = "excluded-deferred-sync-thrower";
/// Switch of exclusion (a) and of its structural backstop (a'). C17-a is repaired in /repo
/// (known.d: status fixed), so both are off and these shapes are generated and checked again.
const EXCLUDE_DEFERRED_SYNC_THROWER: bool = false;
/// (e) C17-e (surfaced when (a) was switched off): no deferred synchronous thrower as in (a) that
/// has an importer waiting for it (GatherAvailableAncestors empties [[AsyncParentModules]], so the
/// rejection does not reach the importers). Deferred throwers nobody waits for stay in.
const EXCL_DEFERRED_THROWER_WITH_IMPORTER: &str = "excluded-deferred-sync-thrower-with-waiting-importer";
/// Switch of exclusion (e) and of its structural backstop (e') for import() walks.
const EXCLUDE_DEFERRED_THROWER_WITH_IMPORTER: bool = true;
/// (b) C17-b: no cycle whose non-root asynchronous member waits for a different number of
/// asynchronous dependencies than the cycle root.
const EXCL_CYCLE_PENDING_MISMATCH: &str = "excluded-cycle-pending-mismatch";
/// (c) C17-d: no dynamic import() whose target can still be evaluating asynchronously when the
/// import is continued: the target (transitively) imports a top-level-await module AND it is also
/// evaluated by an entry or by another dynamic import.
const EXCL_DYN_IMPORT_OF_ASYNC: &str = "excluded-dyn-import-of-async-evaluating-module";
/// (a'), (b'): the walks started by import() run at a host-defined time and are not modelled, so
/// findings (a) and (b) are kept out of them structurally: no import() of a module that reaches a
/// top-level-await module in a case that also has (a') a throwing module without top-level await
/// above a top-level-await module, or (b') a cycle with a member above (or with) top-level await.
const EXCL_DYN_WITH_DEFERRED_THROWER: &str = "excluded-import()-with-sync-thrower-above-tla";
/// (e'): as (a'), but only when the throwing module has a static importer (other than itself) in the live graph
const EXCL_DYN_WITH_IMPORTED_DEFERRED_THROWER: &str = "excluded-import()-with-imported-sync-thrower-above-tla";
const EXCL_DYN_WITH_ASYNC_CYCLE: &str = "excluded-import()-with-cycle-above-tla";

// ---------------------------------------------------------------------------------------
// rendered case

#[derive(Clone, Debug)]
pub struct RCase {
    pub modules: Vec<(String, String)>,
    pub entries: Vec<String>,
    pub async_loader: bool,
}

impl RCase {
    fn from_case(c: &Case) -> Self {
        Self { modules: c.render(), entries: c.entries.iter().map(|e| modgraph::mod_name(*e)).collect(), async_loader: c.async_loader }
    }
    fn to_json(&self) -> String {
        let mut m = serde_json::Map::new();
        for (k, v) in &self.modules {
            m.insert(k.clone(), json!(v));
        }
        serde_json::to_string_pretty(&json!({"modules": m, "entries": self.entries, "async_loader": self.async_loader})).unwrap_or_default()
    }
    fn from_json(text: &str) -> Option<Self> {
        let v: Value = serde_json::from_str(text).ok()?;
        let modules: Vec<(String, String)> = v["modules"].as_object()?.iter().map(|(k, s)| (k.clone(), s.as_str().unwrap_or("").to_string())).collect();
        let entries: Vec<String> = v["entries"].as_array()?.iter().filter_map(|e| e.as_str().map(str::to_string)).collect();
        if modules.is_empty() || entries.is_empty() {
            return None;
        }
        Some(Self { modules, entries, async_loader: v["async_loader"].as_bool().unwrap_or(false) })
    }
}

// ---------------------------------------------------------------------------------------
// reading a rendered case back (statement vocabulary of genp::modgraph::render_module)

#[derive(Clone, Debug, PartialEq)]
enum St {
    Let,
    Print(String),
    Throw(String),
    Probe { label: String, target: usize },
    Await,
    NsLine,
    Dyn { target: usize, awaited: bool },
    Nop,
}

#[derive(Clone, Debug, Default)]
struct PMod {
    requests: Vec<usize>,
    body: Vec<St>,
    tla: bool,
    throws: bool,
    dyn_targets: Vec<usize>,
}

#[derive(Clone, Debug)]
struct PCase {
    mods: Vec<PMod>,
    names: Vec<String>,
    entries: Vec<usize>,
    /// every import specifier and entry names a module of the case
    graph_ok: bool,
    /// every body line was understood (the model applies)
    body_ok: bool,
}

fn quoted(s: &str) -> Vec<&str> {
    // contents of '...' pieces (the vocabulary never escapes quotes)
    s.split('\'').skip(1).step_by(2).collect()
}

fn parse_case(rc: &RCase) -> PCase {
    let names: Vec<String> = rc.modules.iter().map(|(k, _)| k.clone()).collect();
    let index = |n: &str| names.iter().position(|x| x == n);
    let mut graph_ok = true;
    let mut body_ok = true;
    let mut mods = vec![];
    for (name, src) in &rc.modules {
        let mut m = PMod::default();
        for line in src.lines() {
            let l = line.trim();
            if l.is_empty() {
                continue;
            }
            let q = quoted(l);
            let is_decl_from = (l.starts_with("import ") && !l.starts_with("import(")) || l.starts_with("export * from") || (l.starts_with("export {") && l.contains("} from '"));
            if is_decl_from {
                match q.last().and_then(|s| index(s)) {
                    Some(t) => {
                        if !m.requests.contains(&t) {
                            m.requests.push(t);
                        }
                    }
                    None => graph_ok = false,
                }
                continue;
            }
            let st = if l.starts_with("export let ") {
                St::Let
            } else if l.starts_with("export function ") {
                St::Nop
            } else if l.starts_with("print('") && q.len() == 1 && l.ends_with("');") && (q[0].ends_with(":start") || q[0].ends_with(":end")) && q[0].starts_with(&format!("{name}:")) {
                St::Print(q[0].to_string())
            } else if l.starts_with("throw new ") && l.ends_with(");") {
                St::Throw(l["throw new ".len()..].split('(').next().unwrap_or("").to_string())
            } else if l.starts_with("throw '") && q.len() == 1 {
                St::Throw(format!("opaque:string:{}", q[0]))
            } else if l.starts_with("await ") && !l.contains("import(") {
                St::Await
            } else if l.starts_with("try { print('") && q.first().is_some_and(|s| s.contains(":v")) && l.contains("catch (e)") {
                let label = q[0].to_string();
                let digits: String = label.split(":v").nth(1).unwrap_or("").chars().take_while(char::is_ascii_digit).collect();
                match index(&format!("m{digits}")) {
                    Some(target) => St::Probe { label, target },
                    None => {
                        body_ok = false;
                        St::Nop
                    }
                }
            } else if (l.starts_with("try { print('") && q.first().is_some_and(|s| s.contains(":ns"))) || (l.starts_with("print('") && q.first().is_some_and(|s| s.contains(":own"))) {
                St::NsLine
            } else if l.starts_with("try { const d = await import('") || l.starts_with("import('") {
                match q.first().and_then(|s| index(s)) {
                    Some(target) => St::Dyn { target, awaited: l.starts_with("try {") },
                    None => {
                        graph_ok = false;
                        St::Nop
                    }
                }
            } else {
                body_ok = false;
                St::Nop
            };
            match &st {
                St::Await => m.tla = true,
                St::Dyn { target, awaited } => {
                    m.tla |= *awaited;
                    m.dyn_targets.push(*target);
                }
                St::Throw(_) => m.throws = true,
                _ => {}
            }
            m.body.push(st);
        }
        mods.push(m);
    }
    let mut entries = vec![];
    for e in &rc.entries {
        match index(e) {
            Some(i) => entries.push(i),
            None => graph_ok = false,
        }
    }
    PCase { mods, names, entries, graph_ok, body_ok }
}

impl PCase {
    fn n(&self) -> usize {
        self.mods.len()
    }
    fn has_dyn(&self) -> bool {
        self.mods.iter().any(|m| !m.dyn_targets.is_empty())
    }
    /// reach[a][b]: b is reachable from a by one or more static imports
    fn reach(&self) -> Vec<Vec<bool>> {
        let n = self.n();
        let mut r = vec![vec![false; n]; n];
        for (a, m) in self.mods.iter().enumerate() {
            for b in &m.requests {
                r[a][*b] = true;
            }
        }
        for k in 0..n {
            for a in 0..n {
                if r[a][k] {
                    for b in 0..n {
                        if r[k][b] {
                            r[a][b] = true;
                        }
                    }
                }
            }
        }
        r
    }
    /// finding (d) shape: (importer, target) of a dynamic import whose target reaches a top-level-await
    /// module and is also evaluated, under an asynchronously evaluating cycle root or dependency
    /// position, by an entry walk, or by another dynamic import
    fn dyn_import_of_async(&self, mo: &ModelOut) -> Option<(usize, usize)> {
        let r = self.reach();
        let edges: Vec<(usize, usize)> = self.mods.iter().enumerate().flat_map(|(i, m)| m.dyn_targets.iter().map(move |x| (i, *x))).collect();
        for (k, &(i, x)) in edges.iter().enumerate() {
            let reaches_tla = (0..self.n()).any(|t| self.mods[t].tla && (t == x || r[x][t]));
            // evaluated by an entry walk under an asynchronous root, or (not modelled: assume the worst)
            // evaluated by another import() as well
            let by_entry = mo.joins_async_root.get(x).copied().unwrap_or(false);
            let by_other_import = edges.iter().enumerate().any(|(j, &(_, y))| j != k && (y == x || r[y][x]));
            if reaches_tla && (by_entry || by_other_import) {
                return Some((i, x));
            }
        }
        None
    }
    /// (importers, a', b', e'): the modules whose import() target reaches a top-level-await module, and,
    /// if there are any, whether the live graph has (a') a throwing module without top-level await
    /// above a top-level-await module, (b') a cycle with a member above (or with) top-level await,
    /// (e') a module as in (a') that another live module imports statically
    fn import_walk_shapes(&self) -> (Vec<usize>, bool, bool, bool) {
        let n = self.n();
        let reach = self.reach();
        let reaches_tla = |x: usize| (0..n).any(|t| self.mods[t].tla && (t == x || reach[x][t]));
        let risky: Vec<usize> = (0..n).filter(|i| self.mods[*i].dyn_targets.iter().any(|x| reaches_tla(*x))).collect();
        if risky.is_empty() {
            return (risky, false, false, false);
        }
        let mut roots = self.entries.clone();
        roots.extend(self.mods.iter().flat_map(|m| m.dyn_targets.iter().copied()));
        let live = self.closure(&roots);
        let a_shape = |t: usize| self.mods[t].throws && !self.mods[t].tla && reaches_tla(t);
        let a2 = live.iter().any(|t| a_shape(*t));
        let e2 = live.iter().any(|t| a_shape(*t) && live.iter().any(|p| p != t && self.mods[*p].requests.contains(t)));
        let b2 = live.iter().any(|m| reaches_tla(*m) && (0..n).any(|o| o != *m && reach[*m][o] && reach[o][*m]));
        (risky, a2, b2, e2)
    }
    /// the static closure of a set of modules (including them)
    fn closure(&self, roots: &[usize]) -> BTreeSet<usize> {
        let r = self.reach();
        let mut s = BTreeSet::new();
        for a in roots {
            s.insert(*a);
            for b in 0..self.n() {
                if r[*a][b] {
                    s.insert(b);
                }
            }
        }
        s
    }
}

// ---------------------------------------------------------------------------------------
// M: the reference model (ECMA-262 16.2.1.5.3 Evaluate / InnerModuleEvaluation)

#[derive(Clone, Copy, PartialEq, Eq, Debug)]
enum Stt {
    Linked,
    Evaluating,
    EvaluatingAsync,
    Evaluated,
}

#[derive(Clone, Debug, Default)]
struct ModelOut {
    prints: Vec<String>,
    stage_prints: Vec<usize>,
    results: Vec<String>,
    /// some module was (or would be) evaluated asynchronously, or started a dynamic import:
    /// prints and results are not authoritative
    async_seen: bool,
    /// finding (a): a module without top-level await whose execution was deferred behind an
    /// asynchronous dependency and whose body throws when it is finally run
    deferred_sync_thrower: Option<usize>,
    /// finding (e): the first such module that an asynchronously evaluated importer waits for
    deferred_thrower_with_importer: Option<usize>,
    /// finding (b): (root, member): an asynchronous non-root member of a cycle that waits for
    /// k > 0 asynchronous dependencies while the cycle root waits for a different number, and the
    /// dependencies fulfil (a rejection propagates without reading the count)
    cycle_pending_mismatch: Option<(usize, usize)>,
    /// modules that an entry walk leaves (for some time) in a cycle whose root is evaluating-async,
    /// without being the module Evaluate() was called on: a later Evaluate() of such a module must
    /// hand out / install the capability of that root (finding d)
    joins_async_root: Vec<bool>,
    /// the module each Evaluate() call worked on (the entry, or its cycle root when already evaluated)
    stage_root: Vec<usize>,
}

struct Sim<'a> {
    c: &'a PCase,
    status: Vec<Stt>,
    err: Vec<Option<String>>,
    idx: Vec<usize>,
    anc: Vec<usize>,
    order: Vec<Option<usize>>,
    pending: Vec<usize>,
    /// the pending count of the module's cycle root at the time the cycle was closed
    stored: Vec<usize>,
    async_deps: Vec<Vec<usize>>,
    root: Vec<usize>,
    capability: Vec<Option<String>>,
    init: Vec<bool>,
    v: Vec<i64>,
    stack: Vec<usize>,
    counter: usize,
    /// the module the current Evaluate() call works on
    top: usize,
    out: ModelOut,
}

impl Sim<'_> {
    /// ExecuteModule for a module without top-level await.
    fn execute(&mut self, m: usize) -> Result<(), String> {
        let c = self.c;
        for st in &c.mods[m].body {
            match st {
                St::Let => self.init[m] = true,
                St::Print(s) => self.out.prints.push(s.clone()),
                St::Throw(class) => return Err(class.clone()),
                St::Probe { label, target } => {
                    // live binding: read, call the exporter's mutator, read again
                    if self.init[*target] {
                        self.out.prints.push(format!("{label} {}", self.v[*target]));
                        self.v[*target] += 1;
                        self.out.prints.push(format!("{label} {}", self.v[*target]));
                    } else {
                        self.out.prints.push(format!("{label} TDZ"));
                    }
                }
                St::Dyn { .. } => self.out.async_seen = true,
                St::Await | St::NsLine | St::Nop => {}
            }
        }
        Ok(())
    }

    fn inner(&mut self, m: usize, mut index: usize) -> Result<usize, String> {
        match self.status[m] {
            Stt::Evaluating | Stt::EvaluatingAsync => return Ok(index),
            Stt::Evaluated => return self.err[m].clone().map_or(Ok(index), Err),
            Stt::Linked => {}
        }
        self.status[m] = Stt::Evaluating;
        self.idx[m] = index;
        self.anc[m] = index;
        self.pending[m] = 0;
        index += 1;
        self.stack.push(m);
        let c = self.c;
        for &r in &c.mods[m].requests {
            index = self.inner(r, index)?;
            let (rq, is_async) = if self.status[r] == Stt::Evaluating {
                self.anc[m] = self.anc[m].min(self.anc[r]);
                (r, self.order[r].is_some())
            } else {
                let rq = self.root[r];
                if let Some(e) = &self.err[rq] {
                    return Err(e.clone());
                }
                (rq, self.status[rq] == Stt::EvaluatingAsync)
            };
            if is_async {
                self.pending[m] += 1;
                self.async_deps[m].push(rq);
            }
        }
        if self.pending[m] > 0 || c.mods[m].tla {
            self.order[m] = Some(self.counter);
            self.counter += 1;
            self.out.async_seen = true;
        } else {
            self.execute(m)?;
        }
        if self.anc[m] == self.idx[m] {
            loop {
                let r = self.stack.pop().expect("module is on the stack");
                self.status[r] = if self.order[r].is_some() { Stt::EvaluatingAsync } else { Stt::Evaluated };
                self.root[r] = m;
                // the count the engine under test stores for a non-root member is the root's (finding b)
                self.stored[r] = self.pending[m];
                if self.order[m].is_some() && !(r == m && m == self.top) {
                    self.out.joins_async_root[r] = true;
                }
                if r == m {
                    break;
                }
            }
        }
        Ok(index)
    }

    /// The asynchronous phase is not simulated; only its final states (every await of the
    /// vocabulary resolves): an asynchronously evaluated module ends in error iff its body throws
    /// or one of the asynchronous dependencies it waited for ended in error.
    fn settle(&mut self) {
        let mut ms: Vec<usize> = (0..self.c.n()).filter(|m| self.status[*m] == Stt::EvaluatingAsync).collect();
        ms.sort_by_key(|m| self.order[*m]);
        for m in ms {
            let errs = self.async_deps[m].iter().filter(|d| self.err[**d].is_some()).count();
            let dep_err = errs > 0;
            let pm = &self.c.mods[m];
            // finding (b): m waits for `own` > 0 dependencies but would be given the count of its cycle root.
            // Too large a count: m never runs, unless a dependency rejects (rejection does not count).
            // Too small a count: m runs early once `stored` dependencies have fulfilled.
            let (own, stored) = (self.pending[m], self.stored[m]);
            if own > 0 && stored != own && self.out.cycle_pending_mismatch.is_none() && ((stored > own && errs == 0) || (stored < own && own - errs >= stored)) {
                self.out.cycle_pending_mismatch = Some((self.root[m], m));
            }
            if !dep_err && pm.throws && !pm.tla && self.pending[m] > 0 {
                if self.out.deferred_sync_thrower.is_none() {
                    self.out.deferred_sync_thrower = Some(m);
                }
                if self.out.deferred_thrower_with_importer.is_none() && self.async_deps.iter().any(|d| d.contains(&m)) {
                    self.out.deferred_thrower_with_importer = Some(m);
                }
            }
            self.status[m] = Stt::Evaluated;
            self.order[m] = None;
            if dep_err || pm.throws {
                self.err[m] = Some("async".into());
            }
            if self.capability[m].is_some() {
                self.capability[m] = Some("async".into());
            }
        }
    }

    fn evaluate(&mut self, entry: usize) {
        let mut m = entry;
        if matches!(self.status[m], Stt::EvaluatingAsync | Stt::Evaluated) {
            m = self.root[m];
        }
        self.out.stage_root.push(m);
        let res = if let Some(r) = &self.capability[m] {
            r.clone()
        } else {
            self.stack.clear();
            self.top = m;
            let r = match self.inner(m, 0) {
                Err(e) => {
                    for s in std::mem::take(&mut self.stack) {
                        self.status[s] = Stt::Evaluated;
                        self.order[s] = None;
                        self.err[s] = Some(e.clone());
                    }
                    format!("rejected:throw:{e}")
                }
                Ok(_) => {
                    if self.status[m] == Stt::Evaluated {
                        "fulfilled".to_string()
                    } else {
                        "async".to_string()
                    }
                }
            };
            self.capability[m] = Some(r.clone());
            r
        };
        self.settle();
        self.out.results.push(res);
        self.out.stage_prints.push(self.out.prints.len());
    }
}

fn model(c: &PCase) -> ModelOut {
    let n = c.n();
    let mut s = Sim {
        c,
        status: vec![Stt::Linked; n],
        err: vec![None; n],
        idx: vec![0; n],
        anc: vec![0; n],
        order: vec![None; n],
        pending: vec![0; n],
        stored: vec![0; n],
        async_deps: vec![vec![]; n],
        root: (0..n).collect(),
        capability: vec![None; n],
        init: vec![false; n],
        v: (0..n as i64).map(|i| i * 10).collect(),
        stack: vec![],
        counter: 0,
        top: 0,
        out: ModelOut { joins_async_root: vec![false; n], ..ModelOut::default() },
    };
    for e in &c.entries {
        s.evaluate(*e);
    }
    s.out
}

// ---------------------------------------------------------------------------------------
// the boa side: a logging module loader

struct YieldOnce(bool);
impl Future for YieldOnce {
    type Output = ();
    fn poll(mut self: Pin<&mut Self>, cx: &mut TaskCx<'_>) -> Poll<()> {
        if self.0 {
            Poll::Ready(())
        } else {
            self.0 = true;
            cx.waker().wake_by_ref();
            Poll::Pending
        }
    }
}

struct LogLoader {
    sources: BTreeMap<String, String>,
    cache: RefCell<BTreeMap<String, Module>>,
    /// (referrer, specifier) of every host call
    calls: RefCell<Vec<(String, String)>>,
    /// specifiers in the order they were fetched (parsed) for the first time
    fetched: RefCell<Vec<String>>,
    async_mode: bool,
}

impl LogLoader {
    fn name_of(&self, m: &Module) -> String {
        self.cache.borrow().iter().find(|(_, v)| *v == m).map_or_else(|| "<unknown>".to_string(), |(k, _)| k.clone())
    }
    fn get_or_parse(&self, spec: &str, ctx: &mut Context) -> JsResult<Module> {
        if let Some(m) = self.cache.borrow().get(spec) {
            return Ok(m.clone());
        }
        let Some(src) = self.sources.get(spec) else {
            return Err(boa_engine::JsNativeError::typ().with_message(format!("harness loader: no module {spec}")).into());
        };
        self.fetched.borrow_mut().push(spec.to_string());
        let m = Module::parse(Source::from_bytes(src.as_bytes()), None, ctx)?;
        self.cache.borrow_mut().insert(spec.to_string(), m.clone());
        Ok(m)
    }
    /// number of times the asynchronous loader yields to the job queue before it answers
    fn delay(spec: &str) -> usize {
        let h = spec.bytes().fold(7usize, |a, b| a.wrapping_mul(31).wrapping_add(b as usize));
        h % 4
    }
}

impl ModuleLoader for LogLoader {
    async fn load_imported_module(self: Rc<Self>, referrer: Referrer, request: ModuleRequest, context: &RefCell<&mut Context>) -> JsResult<Module> {
        let spec = request.specifier().to_std_string_escaped();
        let from = match &referrer {
            Referrer::Module(m) => self.name_of(m),
            Referrer::Realm(_) => "<realm>".to_string(),
            Referrer::Script(_) => "<script>".to_string(),
        };
        self.calls.borrow_mut().push((from, spec.clone()));
        if self.async_mode {
            for _ in 0..Self::delay(&spec) {
                YieldOnce(false).await;
            }
        }
        self.get_or_parse(&spec, &mut context.borrow_mut())
    }
}

#[derive(Clone, Debug, Default)]
struct BoaOut {
    prints: Vec<String>,
    stage_prints: Vec<usize>,
    results: Vec<String>,
    same_error: Vec<Option<bool>>,
    calls: Vec<(String, String)>,
    fetched: Vec<String>,
    panic: Option<String>,
}

fn rejection_class(v: &JsValue) -> String {
    match throw_class(&JsError::from_opaque(v.clone())) {
        Completion::Throw(c) => format!("throw:{c}"),
        other => other.render(),
    }
}

fn run_boa(rc: &RCase) -> BoaOut {
    install_panic_hook();
    PRINTS.with(|p| p.borrow_mut().clear());
    let out = RefCell::new(BoaOut::default());
    let loader = Rc::new(LogLoader {
        sources: rc.modules.iter().cloned().collect(),
        cache: RefCell::default(),
        calls: RefCell::default(),
        fetched: RefCell::default(),
        async_mode: rc.async_loader,
    });
    let result = std::panic::catch_unwind(std::panic::AssertUnwindSafe(|| {
        // leaked when a panic unwinds through it: dropping a context whose VM was interrupted mid-run is not safe
        let mut ctx = std::mem::ManuallyDrop::new(Context::builder().module_loader(loader.clone()).build().expect("context"));
        install_print(&mut ctx);
        let mut last: BTreeMap<String, JsValue> = BTreeMap::new();
        for entry in &rc.entries {
            let (res, same) = match loader.get_or_parse(entry, &mut ctx) {
                Err(e) => (format!("parse-error:{}", throw_class(&e).render()), None),
                Ok(module) => {
                    let promise = module.load_link_evaluate(&mut ctx);
                    let jobs = ctx.run_jobs();
                    let mut same = None;
                    let res = match (jobs, promise.state()) {
                        (Err(e), _) => format!("run-jobs-error:{}", throw_class(&e).render()),
                        (_, PromiseState::Pending) => "pending".to_string(),
                        (_, PromiseState::Fulfilled(_)) => {
                            last.remove(entry);
                            "fulfilled".to_string()
                        }
                        (_, PromiseState::Rejected(v)) => {
                            if let Some(prev) = last.get(entry) {
                                same = Some(prev.strict_equals(&v));
                            }
                            last.insert(entry.clone(), v.clone());
                            format!("rejected:{}", rejection_class(&v))
                        }
                    };
                    (res, same)
                }
            };
            let mut o = out.borrow_mut();
            o.results.push(res);
            o.same_error.push(same);
            o.stage_prints.push(PRINTS.with(|p| p.borrow().len()));
        }
        drop(last);
        let ctx = std::mem::ManuallyDrop::into_inner(ctx);
        drop(ctx);
    }));
    let mut o = out.into_inner();
    if result.is_err() {
        o.panic = Some(panic_signature(&take_last_panic().unwrap_or_else(|| "unknown panic".into())));
    }
    o.prints = PRINTS.with(|p| std::mem::take(&mut *p.borrow_mut()));
    o.calls = loader.calls.borrow().clone();
    o.fetched = loader.fetched.borrow().clone();
    o
}

// ---------------------------------------------------------------------------------------
// the V8 side

thread_local! {
    static NODE17: RefCell<Option<Server>> = const { RefCell::new(None) };
}

#[derive(Clone, Debug, Default)]
struct V8Out {
    prints: Vec<String>,
    stage_prints: Vec<usize>,
    results: Vec<String>,
    same_error: Vec<Option<bool>>,
    dyn_calls: Vec<(String, String)>,
}

fn run_v8(rc: &RCase) -> Result<V8Out, String> {
    NODE17.with(|cell| {
        let mut slot = cell.borrow_mut();
        if slot.is_none() {
            let cmd: Vec<String> = ["node", "--experimental-vm-modules", "--no-warnings"].iter().map(|s| (*s).to_string()).chain([format!("{}/oracle/node_c17.js", verif_root())]).collect();
            *slot = Some(Server::spawn(&cmd).map_err(|e| format!("cannot start node: {e}"))?);
        }
        let mut m = serde_json::Map::new();
        for (k, v) in &rc.modules {
            m.insert(k.clone(), json!(v));
        }
        let v = slot.as_mut().expect("server").call(json!({"modules": m, "entries": rc.entries}))?;
        let strs = |x: &Value| -> Vec<String> { x.as_array().map(|a| a.iter().map(|s| s.as_str().unwrap_or("").to_string()).collect()).unwrap_or_default() };
        Ok(V8Out {
            prints: strs(&v["prints"]),
            stage_prints: v["stage_prints"].as_array().map(|a| a.iter().map(|x| x.as_u64().unwrap_or(0) as usize).collect()).unwrap_or_default(),
            results: strs(&v["entry_results"]),
            same_error: v["same_error"].as_array().map(|a| a.iter().map(Value::as_bool).collect()).unwrap_or_default(),
            dyn_calls: v["dyn"].as_array().map(|a| a.iter().map(|p| (p[0].as_str().unwrap_or("").to_string(), p[1].as_str().unwrap_or("").to_string())).collect()).unwrap_or_default(),
        })
    })
}

// ---------------------------------------------------------------------------------------
// the check

fn show(prints: &[String], stages: &[usize], results: &[String]) -> String {
    let mut s = String::new();
    let mut k = 0;
    for (i, p) in prints.iter().enumerate() {
        while k < stages.len() && stages[k] == i {
            s.push_str(&format!("  -- entry #{k} => {}\n", results.get(k).map_or("?", String::as_str)));
            k += 1;
        }
        s.push_str(&format!("  {p}\n"));
    }
    while k < stages.len() {
        s.push_str(&format!("  -- entry #{k} => {}\n", results.get(k).map_or("?", String::as_str)));
        k += 1;
    }
    s
}

fn is_ns_line(p: &str) -> bool {
    let label = p.split(' ').next().unwrap_or("");
    let tail = label.split(':').nth(1).unwrap_or("");
    tail.starts_with("ns") || tail.starts_with("own") || tail.starts_with("dyn")
}

/// prints grouped by the module that issued them (the `mI:` prefix)
fn per_module(prints: &[String]) -> BTreeMap<String, Vec<String>> {
    let mut m: BTreeMap<String, Vec<String>> = BTreeMap::new();
    for p in prints {
        m.entry(p.split(':').next().unwrap_or("").to_string()).or_default().push(p.clone());
    }
    m
}

struct Shape {
    cycle: bool,
    self_import: bool,
    diamond: bool,
    tla: bool,
    throws: bool,
    reachable: usize,
}

fn shape(pc: &PCase) -> Shape {
    let r = pc.reach();
    let live = pc.closure(&pc.entries);
    let mut sh = Shape { cycle: false, self_import: false, diamond: false, tla: false, throws: false, reachable: live.len() };
    for &a in &live {
        let m = &pc.mods[a];
        sh.tla |= m.tla;
        sh.throws |= m.throws;
        if r[a][a] {
            sh.cycle = true;
        }
        if m.requests.contains(&a) {
            sh.self_import = true;
        }
        for (i, &b) in m.requests.iter().enumerate() {
            for &c in &m.requests[i + 1..] {
                if b == c || b == a || c == a {
                    continue;
                }
                // some module is reached through both b and c
                if (0..pc.n()).any(|d| (d == b || r[b][d]) && (d == c || r[c][d])) {
                    sh.diamond = true;
                }
            }
        }
    }
    sh
}

struct Checked {
    fail: Option<(String, String)>,
    labels: Vec<&'static str>,
    nontrivial: bool,
    skip: Option<String>,
}

fn n_label(n: usize) -> &'static str {
    ["n=0", "n=1", "n=2", "n=3", "n=4", "n=5", "n=6", "n=7", "n=8"].get(n).copied().unwrap_or("n>8")
}

fn check(rc: &RCase, min_modules: usize) -> Checked {
    let pc = parse_case(rc);
    let mut labels: Vec<&'static str> = vec![];
    let mo = if pc.graph_ok { Some(model(&pc)) } else { None };
    let sh = if pc.graph_ok { Some(shape(&pc)) } else { None };
    let has_dyn = pc.has_dyn();
    let flag_d = mo.as_ref().and_then(|m| pc.dyn_import_of_async(m));
    // the class of the case, used in failure signatures
    let class = match &mo {
        Some(m) if m.deferred_thrower_with_importer.is_some() && m.cycle_pending_mismatch.is_some() => "deferred-sync-thrower-with-waiting-importer+cycle-pending-mismatch".to_string(),
        Some(m) if m.deferred_thrower_with_importer.is_some() => "deferred-sync-thrower-with-waiting-importer".to_string(),
        Some(m) if m.deferred_sync_thrower.is_some() && m.cycle_pending_mismatch.is_some() => "deferred-sync-thrower+cycle-pending-mismatch".to_string(),
        Some(m) if m.deferred_sync_thrower.is_some() => "deferred-sync-thrower".to_string(),
        Some(m) if m.cycle_pending_mismatch.is_some() => "cycle-pending-mismatch".to_string(),
        _ if flag_d.is_some() => "dyn-import-of-async-evaluating-module".to_string(),
        _ if pc.graph_ok && pc.import_walk_shapes().3 => "import()-walk+imported-sync-thrower-above-tla".to_string(),
        _ if pc.graph_ok && pc.import_walk_shapes().1 => "import()-walk+sync-thrower-above-tla".to_string(),
        _ if pc.graph_ok && pc.import_walk_shapes().2 => "import()-walk+cycle-above-tla".to_string(),
        _ => match &sh {
            Some(s) => format!("{}{}{}", if s.cycle { "cycle" } else { "acyclic" }, if s.tla { "+tla" } else { "" }, if s.throws { "+throw" } else { "" }),
            None => "unparsed".to_string(),
        },
    };
    if let Some(s) = &sh {
        labels.push(n_label(pc.n()));
        for (on, l) in [
            (s.cycle, "has-cycle"),
            (s.self_import, "has-self-import"),
            (s.diamond, "has-diamond"),
            (s.tla, "has-tla"),
            (s.throws, "has-throw"),
            (s.cycle && s.tla, "cycle+tla"),
            (s.cycle && s.throws, "cycle+throw"),
            (s.tla && s.throws, "tla+throw"),
            (has_dyn, "dyn-import"),
            (rc.async_loader, "async-loader"),
            (pc.entries.len() > 1 && pc.entries.iter().enumerate().any(|(i, e)| pc.entries[..i].contains(e)), "entry-evaluated-twice"),
            (pc.entries.iter().collect::<BTreeSet<_>>().len() > 1, "several-entries"),
        ] {
            if on {
                labels.push(l);
            }
        }
    }
    if let Some(m) = &mo {
        labels.push(if m.async_seen { "async-evaluation" } else { "sync-evaluation" });
        if m.deferred_sync_thrower.is_some() {
            labels.push("shape-of-finding-a");
        }
        if m.deferred_thrower_with_importer.is_some() {
            labels.push("shape-of-finding-e");
        }
        if m.cycle_pending_mismatch.is_some() {
            labels.push("shape-of-finding-b");
        }
    }
    if flag_d.is_some() {
        labels.push("shape-of-finding-d");
    }

    let b = run_boa(rc);
    // (node 20's V8 aborts on a CHECK in SourceTextModule::Evaluate for a few graphs that mix a cycle, a
    // rejected top-level-await module and a second entry: the case is then decided by the oracle-free
    // invariants only and reported as skipped)
    let (v8, v8_error) = match run_v8(rc) {
        Ok(v) => (v, None),
        Err(e) => (V8Out { results: vec!["unavailable".to_string(); rc.entries.len()], ..V8Out::default() }, Some(format!("oracle-error: {}", e.chars().take(80).collect::<String>()))),
    };
    let boa_txt = format!("--- boa\n{}", show(&b.prints, &b.stage_prints, &b.results));
    let v8_txt = format!("--- v8\n{}", show(&v8.prints, &v8.stage_prints, &v8.results));
    let fail = |sig: String, detail: String, labels: Vec<&'static str>| Checked { fail: Some((format!("{sig} [{class}]"), detail)), labels, nontrivial: true, skip: None };

    // 1. the engine must not panic
    if let Some(p) = &b.panic {
        return fail(format!("panic {p}"), format!("boa panicked after {} entry evaluation(s)\n{boa_txt}{v8_txt}", b.results.len()), labels);
    }
    // 2. nothing is left pending after run_jobs (V8 settles every entry of the vocabulary)
    if let Some(k) = b.results.iter().position(|r| r == "pending") {
        if v8.results.get(k).map(String::as_str) != Some("pending") {
            return fail("pending after run_jobs".into(), format!("entry #{k} ({}) is still pending after Context::run_jobs\n{boa_txt}{v8_txt}", rc.entries[k]), labels);
        }
    }
    if let Some(r) = b.results.iter().find(|r| r.starts_with("run-jobs-error") || r.starts_with("parse-error")) {
        return fail(r.split(':').next().unwrap_or("error").to_string(), format!("{r}\n{boa_txt}{v8_txt}"), labels);
    }
    if v8.results.iter().any(|r| r.starts_with("link-error")) {
        // V8 links every module of the case up front; boa links what the entry reaches
        let want = format!("rejected:{}", v8.results[0].trim_start_matches("link-error:"));
        if b.results[0] != want || !b.prints.is_empty() {
            return fail("link-error disagreement".into(), format!("v8: {}\n{boa_txt}", v8.results[0]), labels);
        }
        labels.push("link-error");
        return Checked { fail: None, labels, nontrivial: false, skip: None };
    }
    if v8.results.iter().any(|r| r.starts_with("api-error") || r == "pending") {
        return Checked { fail: None, labels, nontrivial: false, skip: Some("v8-does-not-settle".into()) };
    }

    // 3. oracle-free invariants
    if pc.graph_ok {
        let reach = pc.reach();
        // 3a. a body starts at most once, and only after every non-cyclic dependency has finished
        let mut started: BTreeSet<usize> = BTreeSet::new();
        let mut ended: BTreeSet<usize> = BTreeSet::new();
        for p in &b.prints {
            let Some((name, what)) = p.split_once(':') else { continue };
            let Some(x) = pc.names.iter().position(|n| n == name) else { continue };
            if what == "start" {
                if !started.insert(x) {
                    return fail("body ran twice".into(), format!("{name} started twice\n{boa_txt}"), labels);
                }
                for &y in &pc.mods[x].requests {
                    let cyclic = y == x || reach[y][x];
                    if !cyclic && !ended.contains(&y) {
                        return fail("dependency order".into(), format!("{name} started before its non-cyclic dependency {} finished\n{boa_txt}{v8_txt}", pc.names[y]), labels);
                    }
                }
            } else if what == "end" {
                ended.insert(x);
            }
        }
        // 3b. host calls: every reachable module requested, none twice for the same (referrer, specifier)
        let mut seen: BTreeMap<(String, String), usize> = BTreeMap::new();
        for c in &b.calls {
            *seen.entry(c.clone()).or_default() += 1;
        }
        for ((from, spec), k) in &seen {
            let fi = pc.names.iter().position(|n| n == from);
            let ti = pc.names.iter().position(|n| n == spec);
            let allowed = match (fi, ti) {
                (Some(f), Some(t)) => usize::from(pc.mods[f].requests.contains(&t)) + pc.mods[f].dyn_targets.iter().filter(|d| **d == t).count(),
                _ => 0,
            };
            // (two import() calls in flight load the same graph concurrently: the specification asks the host again)
            if *k > allowed && !has_dyn {
                return fail("host asked twice".into(), format!("HostLoadImportedModule({from}, {spec}) was called {k} times, at most {allowed} expected\ncalls: {:?}", b.calls), labels);
            }
        }
        let mut roots = pc.entries.clone();
        for (_, spec) in &v8.dyn_calls {
            if let Some(t) = pc.names.iter().position(|n| n == spec) {
                roots.push(t);
            }
        }
        let want: BTreeSet<String> = pc.closure(&roots).iter().map(|i| pc.names[*i].clone()).collect();
        let got: BTreeSet<String> = b.fetched.iter().cloned().collect();
        if (b.fetched.len() != got.len() || want != got) && !(v8_error.is_some() && has_dyn) {
            return fail("loaded set".into(), format!("modules fetched by boa: {:?}\nexpected (static closure of the entries and of the executed dynamic imports): {want:?}", b.fetched), labels);
        }
        // 3c. an entry rejects iff it reaches a throwing module, with one of their classes
        if !has_dyn && pc.body_ok {
            for (k, e) in pc.entries.iter().enumerate() {
                let classes: BTreeSet<String> = pc
                    .closure(&[*e])
                    .iter()
                    .flat_map(|m| pc.mods[*m].body.iter().filter_map(|s| if let St::Throw(c) = s { Some(format!("rejected:throw:{c}")) } else { None }))
                    .collect();
                let ok = if classes.is_empty() { b.results[k] == "fulfilled" } else { classes.contains(&b.results[k]) };
                if !ok {
                    return fail("rejects exactly the dependents".into(), format!("entry #{k} ({}) settled as {}; throwing modules it reaches: {classes:?}\n{boa_txt}{v8_txt}", rc.entries[k], b.results[k]), labels);
                }
            }
        }
    }
    // 3e. import('mX') fulfils iff X reaches no throwing module
    if pc.graph_ok && pc.body_ok && has_dyn {
        for p in &b.prints {
            let mut it = p.split(' ');
            let label = it.next().unwrap_or("");
            let Some(t) = label.split(":dyn").nth(1) else { continue };
            let Some(x) = pc.names.iter().position(|n| *n == format!("m{t}")) else { continue };
            let throws = pc.closure(&[x]).iter().any(|m| pc.mods[*m].throws);
            let want = if throws { "rej" } else { "ok" };
            if it.next() != Some(want) {
                return fail("import() outcome".into(), format!("{p}: expected {want} (m{t} reaches {} throwing module)\n{boa_txt}{v8_txt}", if throws { "a" } else { "no" }), labels);
            }
        }
    }
    // 3d. a repeated evaluation prints nothing and settles the same way, with the same error value
    for k in 0..rc.entries.len() {
        if let Some(j) = (0..k).rev().find(|j| rc.entries[*j] == rc.entries[k]) {
            let printed = b.stage_prints[k] - b.stage_prints[k - 1];
            if printed != 0 || b.results[k] != b.results[j] || b.same_error[k] == Some(false) {
                return fail(
                    "re-evaluation".into(),
                    format!("entry #{k} repeats entry #{j} ({}): printed {printed} line(s), settled {} (before: {}), same error value: {:?}\n{boa_txt}", rc.entries[k], b.results[k], b.results[j], b.same_error[k]),
                    labels,
                );
            }
        }
    }

    if let Some(why) = &v8_error {
        if has_dyn || !pc.body_ok || mo.as_ref().is_none_or(|m| m.async_seen) {
            return Checked { fail: None, labels, nontrivial: false, skip: Some(why.clone()) };
        }
    }

    // 4. M: the reference model, when every module is evaluated synchronously
    if let Some(m) = &mo {
        if pc.body_ok && !m.async_seen {
            let got: Vec<&String> = b.prints.iter().filter(|p| !is_ns_line(p)).collect();
            let want: Vec<&String> = m.prints.iter().collect();
            if got != want {
                return fail("trace differs from the reference model".into(), format!("--- model\n{}{boa_txt}{v8_txt}", show(&m.prints, &m.stage_prints, &m.results)), labels);
            }
            if b.results != m.results {
                return fail("settlement differs from the reference model".into(), format!("model: {:?}\nboa: {:?}\n{boa_txt}", m.results, b.results), labels);
            }
            // stage boundaries, counted on the model's lines
            let mut acc = vec![];
            let mut count = 0;
            let mut k = 0;
            for (i, p) in b.prints.iter().enumerate() {
                while k < b.stage_prints.len() && b.stage_prints[k] == i {
                    acc.push(count);
                    k += 1;
                }
                if !is_ns_line(p) {
                    count += 1;
                }
            }
            while acc.len() < b.stage_prints.len() {
                acc.push(count);
            }
            if acc != m.stage_prints {
                return fail("stage differs from the reference model".into(), format!("--- model\n{}{boa_txt}", show(&m.prints, &m.stage_prints, &m.results)), labels);
            }
            labels.push("checked-by-model");
        }
    }

    if v8_error.is_some() {
        labels.push("v8-unavailable-decided-by-model");
        return Checked { fail: None, labels, nontrivial: false, skip: None };
    }

    // 5. D-ext: V8
    let kind = |r: &str| r.split(':').next().unwrap_or("").to_string();
    let thrower_classes: BTreeSet<&String> = pc.mods.iter().flat_map(|m| m.body.iter().filter_map(|s| if let St::Throw(c) = s { Some(c) } else { None })).collect();
    for k in 0..b.results.len() {
        if b.results[k] == v8.results[k] {
            continue;
        }
        let both_reject = kind(&b.results[k]) == "rejected" && kind(&v8.results[k]) == "rejected";
        // (i) V8 rejects Evaluate() of an errored module with that module's OWN error; the specification
        // (16.2.1.5.3 steps 3-4) moves to the cycle root first: the root's promise, hence the outcome
        // recorded for the root. The two differ when members of one cycle failed asynchronously with
        // different errors. Decide those by the specification: same outcome as the root's evaluation.
        let root = mo.as_ref().and_then(|m| m.stage_root.get(k).copied());
        if let (true, Some(root), Some(e)) = (both_reject && !has_dyn, root, pc.entries.get(k)) {
            if root != *e && mo.as_ref().is_some_and(|m| m.async_seen) {
                let recorded = (0..k).rev().find(|j| pc.entries[*j] == root).map(|j| &b.results[j]);
                if recorded.is_none_or(|r| *r == b.results[k]) {
                    labels.push("v8-own-error-vs-cycle-root-error");
                    continue;
                }
            }
        }
        // (ii) with import() the order in which two failures reach a module is host-defined
        if both_reject && has_dyn && thrower_classes.len() >= 2 {
            labels.push("dyn-timing-decides-error-class");
            continue;
        }
        return fail("settlement differs from V8".into(), format!("boa: {:?}\nv8:  {:?}\n{boa_txt}{v8_txt}", b.results, v8.results), labels);
    }
    if has_dyn {
        // The completion time of import() is host-defined, and with it which modules a later walk still
        // finds unevaluated. What is not: whether each import() settles, and how (fulfilled / rejected).
        let outcomes = |prints: &[String]| -> BTreeMap<String, usize> {
            let mut m = BTreeMap::new();
            for p in prints {
                let mut it = p.split(' ');
                let label = it.next().unwrap_or("");
                if label.split(':').nth(1).is_some_and(|t| t.starts_with("dyn")) {
                    *m.entry(format!("{label} {}", it.next().unwrap_or(""))).or_default() += 1;
                }
            }
            m
        };
        let (bd, vd) = (outcomes(&b.prints), outcomes(&v8.prints));
        let total = |m: &BTreeMap<String, usize>, label: &str| -> usize { m.iter().filter(|(k, _)| k.split(' ').next() == Some(label)).map(|(_, v)| *v).sum() };
        if let Some(label) = vd.keys().map(|k| k.split(' ').next().unwrap_or("")).find(|l| total(&bd, l) < total(&vd, l)) {
            return fail("dynamic import() never settled".into(), format!("V8 printed the outcome line {label}, boa did not: the promise returned by import() is still pending after run_jobs\n{boa_txt}{v8_txt}"), labels);
        }
        if bd != vd {
            return fail("dynamic import() outcome differs from V8".into(), format!("boa: {bd:?}\nv8:  {vd:?}\n{boa_txt}{v8_txt}"), labels);
        }
        if per_module(&b.prints) == per_module(&v8.prints) {
            labels.push("checked-by-v8-per-module");
        } else {
            // decided by the invariants and the outcomes above only
            labels.push("dyn-timing-differs-from-v8");
        }
    } else {
        if b.prints != v8.prints {
            let k = b.prints.iter().zip(v8.prints.iter()).position(|(x, y)| x != y).unwrap_or(b.prints.len().min(v8.prints.len()));
            return fail("trace differs from V8".into(), format!("first difference at line {k}: boa={:?} v8={:?}\n{boa_txt}{v8_txt}", b.prints.get(k), v8.prints.get(k)), labels);
        }
        if b.stage_prints != v8.stage_prints {
            return fail("stage differs from V8".into(), format!("{boa_txt}{v8_txt}"), labels);
        }
        labels.push("checked-by-v8-full-trace");
    }
    for k in 0..b.same_error.len() {
        if let (Some(x), Some(Some(y))) = (b.same_error[k], v8.same_error.get(k)) {
            if x != *y {
                return fail("error identity differs from V8".into(), format!("entry #{k}: boa same={x} v8 same={y}"), labels);
            }
        }
    }
    if b.results.iter().any(|r| r.starts_with("rejected")) {
        labels.push("some-entry-rejects");
    }
    if flag_d.is_some() || mo.as_ref().is_some_and(|m| m.deferred_sync_thrower.is_some() || m.cycle_pending_mismatch.is_some()) {
        // only reachable with BV_C17_NOEXCL=1 or hand-written input: measures how narrow the exclusions are
        labels.push("finding-shape-but-passes");
        if std::env::var_os("BV_C17_FLAGPASS").is_some() {
            // diagnostic: surface these cases as replay files
            let which = format!("a={:?} b={:?} d={flag_d:?}", mo.as_ref().and_then(|m| m.deferred_sync_thrower), mo.as_ref().and_then(|m| m.cycle_pending_mismatch));
            return fail("diagnostic: finding shape but passes".into(), format!("{which}\n{boa_txt}"), labels);
        }
    }
    let nontrivial = sh.as_ref().is_some_and(|s| (s.cycle || s.diamond) && s.reachable >= min_modules && (s.tla || s.throws));
    Checked { fail: None, labels, nontrivial, skip: None }
}

fn to_out(rendered: String, c: Checked, mut extra: Vec<&'static str>) -> CaseOut {
    extra.extend(c.labels);
    if let Some(why) = c.skip {
        if let Some(dir) = std::env::var_os("BV_C17_DUMPSKIP") {
            // diagnostic: keep the inputs the oracle could not decide
            let path = std::path::Path::new(&dir).join(format!("{:016x}.json", crate::rng::hash_bytes(rendered.as_bytes())));
            let _ = std::fs::write(path, &rendered);
        }
        return CaseOut::skip(rendered, why).with_labels(extra);
    }
    match c.fail {
        Some((sig, detail)) => CaseOut::fail(rendered, sig, detail).with_labels(extra),
        None => CaseOut::pass(rendered, c.nontrivial).with_labels(extra),
    }
}

/// Apply the two named exclusions: repair the generated case until the model no longer flags it.
fn apply_exclusions(case: &mut Case, labels: &mut Vec<&'static str>) {
    if !exclusions_on() {
        return;
    }
    for _ in 0..4 * modgraph::MAXN {
        let pc = parse_case(&RCase::from_case(case));
        let (risky, a2, b2, e2) = pc.import_walk_shapes();
        let a2 = a2 && EXCLUDE_DEFERRED_SYNC_THROWER;
        let e2 = e2 && !a2 && EXCLUDE_DEFERRED_THROWER_WITH_IMPORTER;
        if a2 || b2 || e2 {
            for i in risky {
                case.mods[i].dynimp = None;
            }
            for (on, l) in [(a2, EXCL_DYN_WITH_DEFERRED_THROWER), (b2, EXCL_DYN_WITH_ASYNC_CYCLE), (e2, EXCL_DYN_WITH_IMPORTED_DEFERRED_THROWER)] {
                if on && !labels.contains(&l) {
                    labels.push(l);
                }
            }
            continue;
        }
        let mo = model(&pc);
        if let Some(m) = mo.deferred_sync_thrower.filter(|_| EXCLUDE_DEFERRED_SYNC_THROWER) {
            // (a) drop the throw of exactly that module
            case.mods[m].throw = Throw::Never;
            if !labels.contains(&EXCL_DEFERRED_SYNC_THROWER) {
                labels.push(EXCL_DEFERRED_SYNC_THROWER);
            }
            continue;
        }
        if let Some(m) = mo.deferred_thrower_with_importer.filter(|_| EXCLUDE_DEFERRED_THROWER_WITH_IMPORTER) {
            // (e) drop the throw of exactly that module
            case.mods[m].throw = Throw::Never;
            if !labels.contains(&EXCL_DEFERRED_THROWER_WITH_IMPORTER) {
                labels.push(EXCL_DEFERRED_THROWER_WITH_IMPORTER);
            }
            continue;
        }
        if let Some((_root, member)) = mo.cycle_pending_mismatch {
            // (b) make the cycle member synchronous again: drop one await below it (itself first)
            let reach = pc.reach();
            let victim = std::iter::once(member).chain((0..pc.n()).filter(|d| reach[member][*d])).find(|d| case.mods[*d].has_tla());
            match victim {
                Some(d) => {
                    case.mods[d].aw = Await::None;
                    if let Some((t, true)) = case.mods[d].dynimp {
                        case.mods[d].dynimp = Some((t, false));
                    }
                }
                None => break,
            }
            if !labels.contains(&EXCL_CYCLE_PENDING_MISMATCH) {
                labels.push(EXCL_CYCLE_PENDING_MISMATCH);
            }
            continue;
        }
        if let Some((importer, _target)) = pc.dyn_import_of_async(&mo) {
            // (c) drop exactly that import() call
            case.mods[importer].dynimp = None;
            if !labels.contains(&EXCL_DYN_IMPORT_OF_ASYNC) {
                labels.push(EXCL_DYN_IMPORT_OF_ASYNC);
            }
            continue;
        }
        break;
    }
}

const N3_GRAPHS: u64 = 2 + 16 + 512;
const PRESET_SLOTS: u64 = modgraph::PRESETS as u64 + 1;

fn n3_graph(g: u64) -> Vec<Vec<usize>> {
    if g < 2 {
        modgraph::decode_edges(1, true, g)
    } else if g < 18 {
        modgraph::decode_edges(2, true, g - 2)
    } else {
        modgraph::decode_edges(3, true, g - 18)
    }
}

impl Prop for C17 {
    fn id(&self) -> &'static str {
        "C17"
    }
    fn streams(&self, tier: Tier) -> Vec<Stream> {
        let mut v = vec![Stream::new("exhaustive-n<=3", N3_GRAPHS * PRESET_SLOTS, 96).batch(250).exhaustive()];
        if tier == Tier::Thorough {
            v.push(Stream::new("n4-all-edge-sets", 4096 * 6, 96).batch(256));
            v.push(Stream::new("random", 100_000, 160).batch(250));
        } else {
            v.push(Stream::new("random", 1500, 160).batch(50));
        }
        v
    }
    fn rule(&self) -> String {
        "a case = a module graph (n <= 8 modules; import declarations in a chosen order and form: bare, named binding with a live-binding probe, namespace with Object.keys printed, export * from, export {x as y} from, bindings imported through a re-exporter; self-imports and cycles) + per-module attributes (throw before / after the body used its imports, 4 error classes; top-level await of a resolved value or of a promise chain, early or late; dynamic import() awaited or not; declarations after the body) + a sequence of 1-4 entry evaluations (same entry again, a second entry sharing a sub-graph) + synchronous or queue-yielding loader. Stream exhaustive-n<=3: all 2+16+512 edge sets over 1..3 modules (self-imports included) x 24 fixed attribute vectors + 1 tape-sampled vector; n4-all-edge-sets (thorough): all 4096 edge sets over 4 modules x 6 tape-sampled vectors; random: 7 shape families (uniform, dense cycle, diamond under a cycle, cycle entered midway, shared-leaf DAG, two cycles) from the tape. Each case is run in boa and in V8 (vm.SourceTextModule); graphs evaluated synchronously are also decided by the reference model. Non-trivial = the sub-graph reachable from the entries has a cycle or a diamond, >= 4 modules (>= 3 in the exhaustive stream) and >= 1 module that throws or awaits; distinct = distinct rendered case".into()
    }
    fn assumptions(&self) -> Vec<String> {
        vec![
            "V8 (node 20 vm.SourceTextModule, all modules linked up front, shared microtask queue drained by a macrotask between entry evaluations) implements the specification's module evaluation order for graphs with top-level await; graphs without asynchronous evaluation are decided by the reference model as well".into(),
            "the completion time of dynamic import() is host-defined, and so is which modules a later walk still finds unevaluated: cases with import() are decided by the invariants, the entry settlements and the fulfilled/rejected outcome of every import(); the per-module print sequences are compared too and a difference is only labelled (dyn-timing-differs-from-v8)".into(),
            "V8 rejects Evaluate() of an already errored module with that module's own error, the specification with the outcome recorded for its cycle root; when the two differ (members of one cycle failed asynchronously with different errors) the specification decides (label v8-own-error-vs-cycle-root-error)".into(),
            "generator exclusions for the open findings C17-b..e (labels excluded-*; the exclusion of C17-a, synchronous throwers deferred behind an asynchronous dependency, is switched off since the defect is repaired; what remains of it is C17-e: such a thrower with an importer waiting for it): cycles whose non-root asynchronous member waits for another number of dependencies than the root; import() of a module that is evaluating asynchronously under somebody else's capability; and, because walks started by import() are not modelled, import() of a module above top-level await in a case that has a cycle above top-level await or a statically imported synchronous thrower above top-level await".into(),
        ]
    }
    fn run_case(&self, _env: &mut Env, stream: &str, index: u64, tape: &[u8]) -> CaseOut {
        let mut labels: Vec<&'static str> = vec![];
        let (mut case, min_modules) = match stream {
            "exhaustive-n<=3" => {
                let g = index / PRESET_SLOTS;
                let p = (index % PRESET_SLOTS) as usize;
                let adj = n3_graph(g % N3_GRAPHS);
                let c = if p < modgraph::PRESETS {
                    modgraph::preset(&adj, p)
                } else {
                    labels.push("sampled-attributes");
                    modgraph::attributes(&adj, &mut Tape::new(tape))
                };
                (c, 3)
            }
            "n4-all-edge-sets" => {
                let adj = modgraph::decode_edges(4, false, (index / 6) % 4096);
                (modgraph::attributes(&adj, &mut Tape::new(tape)), 4)
            }
            _ => (modgraph::random_case(tape), 4),
        };
        labels.extend(case.labels.iter().copied());
        if case.demote_deadlocking_dyn_awaits() {
            labels.push("dyn-await-would-deadlock-demoted");
        }
        apply_exclusions(&mut case, &mut labels);
        let rc = RCase::from_case(&case);
        let rendered = rc.to_json();
        to_out(rendered, check(&rc, min_modules), labels)
    }
    fn run_rendered(&self, _env: &mut Env, stream: &str, rendered: &str) -> Option<CaseOut> {
        let Some(rc) = RCase::from_json(rendered) else {
            return Some(CaseOut::skip(rendered.to_string(), "rendered input is not a C17 case"));
        };
        let min_modules = if stream == "exhaustive-n<=3" { 3 } else { 4 };
        Some(to_out(rendered.to_string(), check(&rc, min_modules), vec![]))
    }
    fn rendered_prefix_lines(&self, _rendered: &str) -> usize {
        0
    }
}
