//! C03 — every compiled code block is well-formed on all of its paths. A static bytecode
//! verifier (verify_bc.rs) is applied to the structured dump (hook) of every code block the
//! compiler finishes while compiling generated programs.

use crate::driver::{CaseOut, Env, Prop, Stream, Tier};
use crate::genp::{arb, asyncp, ic, limits, prog, wild};
use crate::run::{RunCfg, install_panic_hook, panic_signature, run_with_dump, take_last_panic};
use crate::tape::Tape;
use crate::verify_bc::{Report, context_at, disassemble, verify};
use boa_engine::verif::BlockDump;
use boa_engine::{Context, Script, Source};
use std::cell::RefCell;
use std::rc::Rc;

pub struct C03;

thread_local! {
    static KNOWN: Vec<crate::driver::Known> = crate::driver::load_known();
}

/// compile only (no execution): dumps of the script block and all nested function blocks
fn compile_dump(src: &str, cfg: &RunCfg) -> Result<Vec<BlockDump>, String> {
    install_panic_hook();
    let store: Rc<RefCell<Vec<BlockDump>>> = Rc::new(RefCell::new(Vec::new()));
    let s2 = store.clone();
    boa_ast::verif::set_force_escape(cfg.force_escape);
    boa_engine::verif::set_no_const_cache(cfg.no_const_cache);
    boa_engine::verif::set_no_hoist(cfg.no_hoist);
    boa_engine::verif::set_no_fusion(cfg.no_fusion);
    boa_engine::verif::set_codeblock_sink(Some(Box::new(move |d| s2.borrow_mut().push(d))));
    let r = std::panic::catch_unwind(std::panic::AssertUnwindSafe(|| {
        let mut ctx = Context::default();
        if let Some(bits) = cfg.optimizer {
            ctx.set_optimizer_options(boa_engine::optimizer::OptimizerOptions::from_bits_truncate(bits));
        }
        match Script::parse(Source::from_bytes(src.as_bytes()), None, &mut ctx) {
            Ok(script) => script.codeblock(&mut ctx).map(|_| ()).map_err(|e| format!("compile error: {e}")),
            Err(e) => Err(format!("parse error: {e}")),
        }
    }));
    boa_engine::verif::set_codeblock_sink(None);
    boa_ast::verif::set_force_escape(false);
    boa_engine::verif::set_no_const_cache(false);
    boa_engine::verif::set_no_hoist(false);
    boa_engine::verif::set_no_fusion(false);
    match r {
        Err(_) => Err(format!("PANIC {}", panic_signature(&take_last_panic().unwrap_or_default()))),
        Ok(Err(e)) => Err(e),
        Ok(Ok(())) => Ok(std::mem::take(&mut *store.borrow_mut())),
    }
}

fn cfg_of(k: usize) -> RunCfg {
    match k {
        0 => RunCfg { force_escape: true, ..RunCfg::default() },
        1 => RunCfg { force_escape: true, no_const_cache: true, no_hoist: true, no_fusion: true, ..RunCfg::default() },
        2 => RunCfg { optimizer: Some(0), ..RunCfg::default() },
        _ => RunCfg { no_hoist: true, no_fusion: true, ..RunCfg::default() },
    }
}

fn block_hash(b: &BlockDump) -> u64 {
    crate::rng::hash_bytes(&b.bytes)
}

impl C03 {
    fn judge(&self, src: &str, dumps: &[BlockDump]) -> CaseOut {
        let mut nontrivial = false;
        let mut labels: Vec<&'static str> = vec![];
        let mut leftovers = 0;
        let mut known_fail: Option<(String, String)> = None;
        for b in dumps {
            let rep: Report = verify(b);
            if rep.unmodelled.iter().any(|u| u == "state-space-too-large") {
                return CaseOut::skip(src.to_string(), "depth analysis state space too large");
            }
            if !rep.unmodelled.is_empty() {
                return CaseOut::fail(src.to_string(), format!("unmodelled opcode {}", rep.unmodelled.join(",")), "the verifier's opcode table does not know this opcode (model out of date)".to_string());
            }
            for v in &rep.violations {
                let ctx = context_at(b, v.pc, 3, 1);
                let ops: Vec<&str> = ctx.split(' ').map(|x| x.split(':').nth(1).unwrap_or("")).collect();
                let at = b.instructions.iter().find(|i| i.pc == v.pc).map_or("", |i| i.name);
                let sig = format!("{} at {at} [{}]", v.kind, ops.join(" "));
                let detail = format!("block '{}' ({}): {} at pc {}\n{}\ncontext: {ctx}\n{}", b.name, b.origin, v.kind, v.pc, v.detail, if b.instructions.len() < 400 { disassemble(b) } else { String::new() });
                let known = KNOWN.with(|k| crate::driver::match_known(k, "C03", &sig).is_some());
                if known {
                    if known_fail.is_none() {
                        known_fail = Some((sig, detail));
                    }
                } else {
                    return CaseOut::fail(src.to_string(), sig, detail);
                }
            }
            if rep.handler_leftovers.iter().any(|v| v.kind.starts_with("handler-leftover")) {
                leftovers += 1;
            }
            if rep.handler_leftovers.iter().any(|v| v.kind.starts_with("known-f5")) && !labels.contains(&"known-f5-locator-left-on-short-circuit") {
                labels.push("known-f5-locator-left-on-short-circuit");
            }
            if rep.instructions >= 10 && (rep.handlers >= 1 || rep.branches >= 2) {
                nontrivial = true;
            }
            if rep.handlers > 0 && !labels.contains(&"has-handler") {
                labels.push("has-handler");
            }
            if b.is_generator && !labels.contains(&"generator-block") {
                labels.push("generator-block");
            }
            if b.is_async && !labels.contains(&"async-block") {
                labels.push("async-block");
            }
            if b.origin != "script" && !labels.contains(&"runtime-compiled-block") {
                labels.push("runtime-compiled-block");
            }
        }
        if let Some((sig, detail)) = known_fail {
            // only violations that match an open known finding: reported under that finding
            return CaseOut::fail(src.to_string(), sig, detail);
        }
        if leftovers > 0 {
            labels.push("known-f17-handler-does-not-restore-stack-depth");
        }
        // the rendered input is the program; distinctness is by program text (block hashes of all blocks folded in)
        let _ = dumps.iter().map(block_hash).fold(0u64, |a, h| a ^ h);
        let mut out = CaseOut::pass(src.to_string(), nontrivial).with_labels(labels);
        if dumps.is_empty() {
            out.nontrivial = false;
        }
        out
    }

    fn check_src(&self, src: &str, execute: bool, cfg: &RunCfg) -> CaseOut {
        if execute {
            let (t, dumps) = run_with_dump(src, cfg);
            if let crate::run::Completion::Panic(p) = &t.completion {
                // a compiler/VM panic is C02's finding, but a *compiler* panic leaves no dump to verify
                if dumps.is_empty() {
                    return CaseOut::skip(src.to_string(), format!("panic before any block was finished ({p})"));
                }
            }
            self.judge(src, &dumps)
        } else {
            match compile_dump(src, cfg) {
                Ok(d) => self.judge(src, &d),
                Err(e) if e.starts_with("PANIC") => CaseOut::fail(src.to_string(), format!("compiler panic {e}"), e),
                Err(_) => CaseOut::skip(src.to_string(), "rejected by the parser/compiler").with_labels(vec!["rejected"]),
            }
        }
    }
}

impl Prop for C03 {
    fn id(&self) -> &'static str {
        "C03"
    }
    fn streams(&self, tier: Tier) -> Vec<Stream> {
        let m = if tier == Tier::Quick { 1 } else { 60 };
        vec![
            Stream::new("program", 5000 * m, 700).batch(250),
            Stream::new("program-configs", 2000 * m, 700).batch(100),
            Stream::new("special", 3000 * m, 400).batch(250),
            Stream::new("arbitrary-ast", 6000 * m, 600).batch(500),
            Stream::new("mutant", 6000 * m, 600).batch(500),
            Stream::new("executed", 1500 * m, 700).batch(100),
        ]
    }
    fn rule(&self) -> String {
        "inputs: program = gen::prog programs (profiles core/scope/lit, all known-finding exclusions off) compiled without running; program-configs = the same under compiler configurations (every shortcut forced off, optimizer off); special = async/promise programs, inline-cache histories, runtime-limit templates (every re-entry route and loop form) and builtin-call programs; arbitrary-ast = the maintainers' Arbitrary StatementList printed to source; mutant = token-level mutants of programs that still parse; executed = programs that are also run so that code compiled at run time by eval / Function() / JSON.parse is captured. For every code block finished (script, nested functions, class field initialisers, eval, Function, JSON): linear decode ends exactly at the length; every register operand < register_count; every binding/ic/constant/scope operand is inside its table and of the right kind; every jump target, jump-table entry and handler bound is an instruction boundary; a work-list data-flow over the CFG incl. exception edges tracks environment depth, binding-reference depth, argument-stack depth and private-environment depth: never negative, equal at merges, handler environment_count <= depth of every protected instruction, no Return with a pending binding reference. Landing pads assume the depths at the handler start; instructions that can throw with extra argument/binding entries pushed are counted under the known finding F17 (handlers do not restore those depths). Non-trivial = the program produced a block with >= 10 instructions and (>= 1 handler or >= 2 branches); distinct = distinct program text".into()
    }
    fn run_case(&self, _env: &mut Env, stream: &str, _index: u64, tape: &[u8]) -> CaseOut {
        let mut t = Tape::new(tape);
        let all_off = |o: &mut prog::Opts| {
            o.excl_f2_rest_after_nested = false;
            o.excl_f4_param_var_redecl = false;
            o.excl_f6_operand_then_assign = false;
            o.excl_f7_update_non_number = false;
            o.excl_f8_switch_lexical = false;
            o.excl_f9_pow2_object = false;
            o.excl_f5_global_logical_assign_in_operand = !std::env::var_os("BV_F5_OFF").is_some();
            o.excl_f17_catch_in_finally = false;
                o.excl_f28_destructure_exhausted_iterator = false;
                o.excl_f29_broken_iterator_in_pattern = false;
        };
        let rest = &tape[tape.len().min(4)..];
        let gen_prog = |t: &mut Tape<'_>| {
            let mut o = match t.below(3) {
                0 => prog::Opts::core(),
                1 => prog::Opts::scope(),
                _ => prog::Opts::lit(),
            };
            all_off(&mut o);
            o.in_main = t.bool();
            o.w_eval = 6;
            o.w_with = 4;
            prog::generate(rest, o).src
        };
        match stream {
            "program" => {
                let src = gen_prog(&mut t);
                self.check_src(&src, false, &RunCfg::default())
            }
            "program-configs" => {
                let src = gen_prog(&mut t);
                let k = t.below(4);
                let src = format!("//C03-CONFIG {k}\n{src}");
                self.check_src(&src, false, &cfg_of(k))
            }
            "special" => {
                let src = match t.below(4) {
                    0 => asyncp::generate(rest).src,
                    1 => ic::generate(rest, &ic::IcOpts { excl_f10_proto_shape_change: false, excl_f23_array_length_store: false, excl_f24_shape_change_in_accessor: false, excl_f31_own_shadow_on_unique_shape: false }).src,
                    2 => limits::generate(rest).src,
                    _ => wild::generate(rest).src,
                };
                self.check_src(&src, false, &RunCfg::default())
            }
            "arbitrary-ast" => match arb::arb_source(tape) {
                Some(s) => self.check_src(&s, false, &RunCfg::default()),
                None => CaseOut::skip(String::new(), "arbitrary-ast-not-generated"),
            },
            "mutant" => {
                let base = gen_prog(&mut t);
                let body = base[base.find(prog::PRELUDE).map_or(0, |i| i + prog::PRELUDE.len())..].to_string();
                let m = crate::props::c02::mutate_text(&body, &mut t);
                self.check_src(&m, false, &RunCfg::default())
            }
            _ => {
                let src = gen_prog(&mut t);
                self.check_src(&src, true, &RunCfg { loop_limit: 20_000, ..RunCfg::default() })
            }
        }
    }
    fn run_rendered(&self, _env: &mut Env, stream: &str, rendered: &str) -> Option<CaseOut> {
        let mut cfg = RunCfg::default();
        if let Some(k) = rendered.strip_prefix("//C03-CONFIG ").and_then(|r| r.chars().next()).and_then(|c| c.to_digit(10)) {
            cfg = cfg_of(k as usize);
        }
        cfg.loop_limit = 20_000;
        Some(self.check_src(rendered, stream == "executed", &cfg))
    }
    fn rendered_prefix_lines(&self, r: &str) -> usize {
        usize::from(r.starts_with("//C03-CONFIG"))
    }
}
