//! C09 — the collector frees exactly the unreachable objects, exactly once.
//!
//! Model-based testing of `boa_gc`'s public API (`Gc`, `GcRefCell`, `WeakGc`, `Ephemeron`,
//! `WeakMap`, `force_collect`, derived `Trace`) against the graph-reachability model of
//! `genp::gcops`. A history of operations is executed in lock step on the model and on a real
//! thread-local heap (every case runs on a fresh thread = a fresh, empty heap). Node payloads carry
//! an id, two canaries and per-id drop/finalize counters in a thread-local table.

use crate::driver::{CaseOut, Env, Prop, Stream, Tier};
use crate::genp::gcgen::{self, Alpha, Enumerator, Gen, RandCfg};
use crate::genp::gcops::{self, Broken, Facts, H, MKey, Model, Obs, Op};
use boa_gc::{Ephemeron, Finalize, Gc, GcBox, GcRefCell, Trace, WeakGc, WeakMap, force_collect};
use std::cell::RefCell;
use std::collections::BTreeMap;
use std::mem::ManuallyDrop;
use std::sync::{Mutex, OnceLock};

pub struct C09;

// ---------------------------------------------------------------------------------------
// the payload

const CANARY_A: u64 = 0xC0FF_EE00_D15E_A5E5;
const CANARY_B: u64 = 0x5AFE_0B0A_6C09_6C09;
const POISON: u64 = 0xDEAD_DEAD_DEAD_DEAD;

type NodeGc = Gc<Node>;
type Eph = Ephemeron<Node, Gc<Node>>;
type WMap = WeakMap<Node, Gc<Node>>;

#[derive(Trace)]
#[boa_gc(unsafe_no_drop)]
struct Node {
    id: u32,
    canary_a: u64,
    edges: GcRefCell<Vec<(u32, NodeGc)>>,
    weaks: GcRefCell<Vec<(u32, WeakGc<Node>)>>,
    ephs: GcRefCell<Vec<(u32, u32, Eph)>>,
    map: GcRefCell<Option<WMap>>,
    canary_b: u64,
}

impl Node {
    fn new(id: u32) -> Self {
        Self {
            id,
            canary_a: CANARY_A ^ u64::from(id),
            edges: GcRefCell::new(vec![]),
            weaks: GcRefCell::new(vec![]),
            ephs: GcRefCell::new(vec![]),
            map: GcRefCell::new(None),
            canary_b: CANARY_B ^ u64::from(id),
        }
    }
    fn intact(&self) -> bool {
        self.id < gcops::MAX_ID && self.canary_a == CANARY_A ^ u64::from(self.id) && self.canary_b == CANARY_B ^ u64::from(self.id)
    }
}

#[derive(Default)]
struct Table {
    fin: Vec<u32>,
    dropped: Vec<u32>,
    bad: Vec<String>,
    armed: BTreeMap<u32, WeakGc<Node>>,
    resurrected: Vec<(u32, NodeGc)>,
    spent: Vec<WeakGc<Node>>,
}

thread_local!(static TAB: RefCell<Table> = RefCell::new(Table::default()));

fn bump(v: &mut Vec<u32>, id: u32) {
    let i = id as usize;
    if i >= gcops::MAX_ID as usize {
        return;
    }
    if v.len() <= i {
        v.resize(i + 1, 0);
    }
    v[i] += 1;
}

impl Finalize for Node {
    fn finalize(&self) {
        let _ = TAB.try_with(|t| {
            let Ok(mut t) = t.try_borrow_mut() else { return };
            bump(&mut t.fin, self.id);
            if !self.intact() {
                t.bad.push(format!("canary of n{} broken at finalize", self.id));
            }
            if let Some(w) = t.armed.remove(&self.id) {
                // resurrection: the finalizer hands a new strong handle to the host
                if let Some(g) = w.upgrade() {
                    t.resurrected.push((self.id, g));
                }
                // the weak handle itself is released by the host after the collect
                t.spent.push(w);
            }
        });
    }
}

impl Drop for Node {
    fn drop(&mut self) {
        let ok = self.intact();
        let id = self.id;
        let _ = TAB.try_with(|t| {
            let Ok(mut t) = t.try_borrow_mut() else { return };
            bump(&mut t.dropped, id);
            if !ok {
                t.bad.push(format!("canary of n{id} broken at drop"));
            }
        });
        self.canary_a = POISON;
        self.canary_b = POISON;
    }
}

// ---------------------------------------------------------------------------------------
// the real side

#[derive(Default)]
struct World {
    roots: Vec<(u32, NodeGc)>,
    weaks: Vec<(u32, WeakGc<Node>)>,
    ephs: Vec<(u32, u32, Eph)>,
    map: Option<WMap>,
}

type Fail = (String, String);

fn desync(what: &str) -> Fail {
    (format!("harness-desync: {what}"), "the real side could not perform an operation the model considers applicable".into())
}

impl World {
    fn root(&self, n: u32) -> Result<NodeGc, Fail> {
        self.roots.iter().find(|r| r.0 == n).map(|r| r.1.clone()).ok_or_else(|| desync("no root handle"))
    }
    fn with_edges<R>(&mut self, h: H, f: impl FnOnce(&mut Vec<(u32, NodeGc)>) -> R) -> Result<R, Fail> {
        Ok(match h {
            H::Host => f(&mut self.roots),
            H::Node(n) => {
                let g = self.root(n)?;
                let mut b = g.edges.borrow_mut();
                f(&mut b)
            }
        })
    }
    fn with_weaks<R>(&mut self, h: H, f: impl FnOnce(&mut Vec<(u32, WeakGc<Node>)>) -> R) -> Result<R, Fail> {
        Ok(match h {
            H::Host => f(&mut self.weaks),
            H::Node(n) => {
                let g = self.root(n)?;
                let mut b = g.weaks.borrow_mut();
                f(&mut b)
            }
        })
    }
    fn with_ephs<R>(&mut self, h: H, f: impl FnOnce(&mut Vec<(u32, u32, Eph)>) -> R) -> Result<R, Fail> {
        Ok(match h {
            H::Host => f(&mut self.ephs),
            H::Node(n) => {
                let g = self.root(n)?;
                let mut b = g.ephs.borrow_mut();
                f(&mut b)
            }
        })
    }
    fn with_map<R>(&mut self, h: H, f: impl FnOnce(&mut Option<WMap>) -> R) -> Result<R, Fail> {
        Ok(match h {
            H::Host => f(&mut self.map),
            H::Node(n) => {
                let g = self.root(n)?;
                let mut b = g.map.borrow_mut();
                f(&mut b)
            }
        })
    }

    fn apply(&mut self, op: Op) -> Result<Obs, Fail> {
        match op {
            Op::Alloc(n) => {
                self.roots.push((n, Gc::new(Node::new(n))));
                Ok(Obs::Unit)
            }
            Op::Link(h, t) => {
                let g = self.root(t)?;
                self.with_edges(h, |v| v.push((t, g)))?;
                Ok(Obs::Unit)
            }
            Op::Unlink(h, t) => {
                let removed = self.with_edges(h, |v| v.iter().rposition(|x| x.0 == t).map(|i| v.remove(i)))?;
                removed.map(|_| Obs::Unit).ok_or_else(|| desync("no such edge"))
            }
            Op::Load(a, t) => {
                let g = self.with_edges(H::Node(a), |v| v.iter().find(|x| x.0 == t).map(|x| x.1.clone()))?;
                self.roots.push((t, g.ok_or_else(|| desync("no such edge to load"))?));
                Ok(Obs::Unit)
            }
            Op::Weak(h, t) => {
                let g = self.root(t)?;
                let w = WeakGc::new(&g);
                self.with_weaks(h, |v| v.push((t, w)))?;
                Ok(Obs::Unit)
            }
            Op::ShareWeak(f, to, t) => {
                let w = self.with_weaks(f, |v| v.iter().find(|x| x.0 == t).map(|x| x.1.clone()))?;
                let w = w.ok_or_else(|| desync("no weak to share"))?;
                self.with_weaks(to, |v| v.push((t, w)))?;
                Ok(Obs::Unit)
            }
            Op::DropWeak(h, t) => {
                let removed = self.with_weaks(h, |v| v.iter().position(|x| x.0 == t).map(|i| v.remove(i)))?;
                removed.map(|_| Obs::Unit).ok_or_else(|| desync("no weak to drop"))
            }
            Op::Upgrade(h, t, keep) => {
                let up = self.with_weaks(h, |v| v.iter().find(|x| x.0 == t).map(|x| x.1.upgrade()))?;
                let up = up.ok_or_else(|| desync("no weak to upgrade"))?;
                Ok(Obs::Target(match up {
                    None => None,
                    Some(g) => {
                        let id = g.id;
                        if keep {
                            self.roots.push((id, g));
                        }
                        Some(id)
                    }
                }))
            }
            Op::Eph(h, k, v) => {
                let (kg, vg) = (self.root(k)?, self.root(v)?);
                let e = Ephemeron::new(&kg, vg);
                self.with_ephs(h, |l| l.push((k, v, e)))?;
                Ok(Obs::Unit)
            }
            Op::DropEph(h, k, v) => {
                let removed = self.with_ephs(h, |l| l.iter().position(|x| x.0 == k && x.1 == v).map(|i| l.remove(i)))?;
                removed.map(|_| Obs::Unit).ok_or_else(|| desync("no ephemeron to drop"))
            }
            Op::EphVal(h, k, v, keep) => {
                let val = self.with_ephs(h, |l| l.iter().find(|x| x.0 == k && x.1 == v).map(|x| x.2.value().map(|r| (*r).clone())))?;
                let val = val.ok_or_else(|| desync("no ephemeron to read"))?;
                Ok(Obs::Target(match val {
                    None => None,
                    Some(g) => {
                        let id = g.id;
                        if keep {
                            self.roots.push((id, g));
                        }
                        Some(id)
                    }
                }))
            }
            Op::Map(h) => {
                self.with_map(h, |m| *m = Some(WeakMap::new()))?;
                Ok(Obs::Unit)
            }
            Op::DropMap(h) => {
                let old = self.with_map(h, Option::take)?;
                old.map(|_| Obs::Unit).ok_or_else(|| desync("no map to drop"))
            }
            Op::MapIns(h, k, v) => {
                let (kg, vg) = (self.root(k)?, self.root(v)?);
                let done = self.with_map(h, |m| m.as_mut().map(|m| m.insert(&kg, vg)))?;
                done.map(|()| Obs::Unit).ok_or_else(|| desync("no map to insert into"))
            }
            Op::MapRem(h, k) => {
                let kg = self.root(k)?;
                let r = self.with_map(h, |m| m.as_mut().map(|m| m.remove(&kg)))?;
                r.map(Obs::Bool).ok_or_else(|| desync("no map to remove from"))
            }
            Op::MapGet(h, k, keep) => {
                let kg = self.root(k)?;
                let r = self.with_map(h, |m| m.as_ref().map(|m| map_get(m, &kg)))?;
                let r = r.ok_or_else(|| desync("no map to read"))??;
                Ok(Obs::Target(match r {
                    None => None,
                    Some(g) => {
                        let id = g.id;
                        if keep {
                            self.roots.push((id, g));
                        }
                        Some(id)
                    }
                }))
            }
            Op::Arm(n) => {
                let g = self.root(n)?;
                let w = WeakGc::new(&g);
                TAB.with(|t| t.borrow_mut().armed.insert(n, w));
                Ok(Obs::Unit)
            }
            Op::Disarm(n) => {
                let w = TAB.with(|t| t.borrow_mut().armed.remove(&n));
                w.map(|_| Obs::Unit).ok_or_else(|| desync("not armed"))
            }
            Op::Collect => {
                force_collect();
                let (res, spent) = TAB.with(|t| {
                    let mut t = t.borrow_mut();
                    (std::mem::take(&mut t.resurrected), std::mem::take(&mut t.spent))
                });
                self.roots.extend(res);
                drop(spent);
                Ok(Obs::Unit)
            }
        }
    }
}

/// `WeakMap::get` + `Ephemeron::value`: `Ok(None)` = no entry; an entry without a value while
/// the caller holds the key is a violation.
fn map_get(m: &WMap, k: &NodeGc) -> Result<Option<NodeGc>, Fail> {
    let has = m.contains_key(k);
    match m.get(k) {
        None => {
            if has {
                return Err(("weakmap: contains_key and get disagree".into(), "contains_key = true, get = None".into()));
            }
            Ok(None)
        }
        Some(e) => match e.value() {
            Some(v) => Ok(Some((*v).clone())),
            None => Err(("weakmap: entry of a live key has no value".into(), "get(key) returned an ephemeron whose value() is None while the key is held".into())),
        },
    }
}

// ---------------------------------------------------------------------------------------
// sizes of the boxes (measured once per process on a scratch thread)

#[derive(Clone, Copy, Debug)]
struct Sizes {
    node: usize,
    weak: usize,
    eph: usize,
    mapbox: usize,
    wbox: usize,
}

fn sizes() -> Result<Sizes, String> {
    static S: OnceLock<Result<Sizes, String>> = OnceLock::new();
    S.get_or_init(|| {
        std::thread::spawn(|| {
            let b = || boa_gc::verif::stats().bytes;
            let b0 = b();
            let n = Gc::new(Node::new(0));
            let b1 = b();
            let w = WeakGc::new(&n);
            let b2 = b();
            let e = Ephemeron::new(&n, n.clone());
            let b3 = b();
            let m: WMap = WeakMap::new();
            let b4 = b();
            drop(m);
            force_collect();
            let b5 = b();
            force_collect();
            let b6 = b();
            drop((w, e));
            drop(n);
            force_collect();
            force_collect();
            let s = Sizes { node: b1 - b0, weak: b2 - b1, eph: b3 - b2, mapbox: b4 - b5, wbox: b5 - b6 };
            if b0 != 0 || b() != 0 || s.node != size_of::<GcBox<Node>>() || s.mapbox + s.wbox != b4 - b3 || s.weak == 0 || s.eph == 0 || s.wbox == 0 {
                return Err(format!("size calibration inconsistent: {s:?} b0={b0} b3={b3} b4={b4} end={}", b()));
            }
            Ok(s)
        })
        .join()
        .unwrap_or_else(|_| Err("size calibration panicked".into()))
    })
    .clone()
}

// ---------------------------------------------------------------------------------------
// comparison of the two sides

fn check_stats(m: &Model, sz: &Sizes) -> Result<(), Fail> {
    let s = boa_gc::verif::stats();
    let exp_strongs = m.n_nodes + m.n_maps;
    let exp_eph = m.n_eph.iter().sum::<u64>();
    let exp_bytes = m.n_nodes as usize * sz.node + m.n_eph[0] as usize * sz.weak + m.n_eph[1] as usize * sz.eph + m.n_eph[2] as usize * sz.wbox + m.n_maps as usize * sz.mapbox;
    let pairs: [(&str, u64, u64); 6] = [
        ("strong-boxes", exp_strongs, s.strongs as u64),
        ("ephemeron-boxes", exp_eph, s.ephemerons as u64),
        ("weak-map-boxes", m.n_maps, s.weak_maps as u64),
        ("bytes", exp_bytes as u64, s.bytes as u64),
        ("collections", m.collections, s.collections as u64),
        ("allocations", m.allocs, s.allocations),
    ];
    for (name, e, a) in pairs {
        if e != a {
            let dir = if a > e { "more" } else { "fewer" };
            return Err((format!("stats: {dir} {name} than the model"), format!("{name}: model {e}, boa_gc::verif::stats() {a}; full stats {s:?}; model nodes={} ephs={:?} maps={}", m.n_nodes, m.n_eph, m.n_maps)));
        }
    }
    Ok(())
}

fn check_counters(m: &Model) -> Result<(), Fail> {
    TAB.with(|t| {
        let t = t.borrow();
        if let Some(b) = t.bad.first() {
            return Err(("canary broken".to_string(), b.clone()));
        }
        let get = |v: &Vec<u32>, i: usize| v.get(i).copied().unwrap_or(0);
        for (i, n) in m.nodes.iter().enumerate() {
            let Some(n) = n else { continue };
            let (fin, dropped) = (get(&t.fin, i), get(&t.dropped, i));
            let detail = format!("n{i}: model alive={} finalized={} dropped={}; boa finalized={fin} dropped={dropped}", n.alive, n.fin, n.dropped);
            if dropped > n.dropped {
                let sig = if n.alive { "freed while reachable" } else { "dropped more than once" };
                return Err((sig.to_string(), detail));
            }
            if dropped < n.dropped {
                return Err(("unreachable object not freed".to_string(), detail));
            }
            if fin != n.fin {
                let sig = if fin > n.fin {
                    if n.alive { "finalized while reachable" } else { "finalized more often than the model" }
                } else {
                    "finalized less often than the model"
                };
                return Err((sig.to_string(), detail));
            }
        }
        Ok(())
    })
}

struct Walk<'a> {
    m: &'a Model,
    visited: BTreeMap<u32, NodeGc>,
    queue: Vec<(u32, NodeGc)>,
    /// (model map id, owner: None = the host, Some = the node holding the map)
    maps: Vec<(usize, Option<NodeGc>)>,
}

impl Walk<'_> {
    fn weak_list(&mut self, who: &str, real: &[(u32, WeakGc<Node>)], model: &[usize]) -> Result<(), Fail> {
        let exp: Vec<u32> = model.iter().map(|&e| if let MKey::Node(t) = self.m.ephs[e].key { t } else { u32::MAX }).collect();
        let act: Vec<u32> = real.iter().map(|x| x.0).collect();
        if exp != act {
            return Err(desync(&format!("weak list of {who} differs: model {exp:?}, real {act:?}")));
        }
        for (x, &e) in real.iter().zip(model) {
            let cleared = self.m.ephs[e].cleared;
            let up = x.1.upgrade();
            if x.1.is_upgradable() != up.is_some() {
                return Err(("weak: is_upgradable and upgrade disagree".into(), format!("weak {who} -> n{}", x.0)));
            }
            match up {
                None if !cleared => {
                    return Err(("weak: upgrade is None but the target is alive".into(), format!("weak {who} -> n{}: the model says the target is still allocated", x.0)));
                }
                Some(_) if cleared => {
                    return Err(("weak: upgrade is Some but the target is dead".into(), format!("weak {who} -> n{}: the model says the target was unreachable at a collect", x.0)));
                }
                Some(g) => self.queue.push((x.0, g)),
                None => {}
            }
        }
        Ok(())
    }
    fn eph_list(&mut self, who: &str, real: &[(u32, u32, Eph)], model: &[usize]) -> Result<(), Fail> {
        let exp: Vec<(u32, u32)> = model.iter().map(|&e| (if let MKey::Node(t) = self.m.ephs[e].key { t } else { u32::MAX }, self.m.ephs[e].val.unwrap_or(u32::MAX))).collect();
        let act: Vec<(u32, u32)> = real.iter().map(|x| (x.0, x.1)).collect();
        if exp != act {
            return Err(desync(&format!("ephemeron list of {who} differs: model {exp:?}, real {act:?}")));
        }
        for (x, &e) in real.iter().zip(model) {
            let cleared = self.m.ephs[e].cleared;
            let val = x.2.value().map(|r| (*r).clone());
            let key = x.2.key();
            if x.2.has_value() != val.is_some() || key.is_some() != val.is_some() {
                return Err(("ephemeron: key/value/has_value disagree".into(), format!("ephemeron {who} (n{} -> n{})", x.0, x.1)));
            }
            match (val, key) {
                (None, _) if !cleared => {
                    return Err(("ephemeron: value is None but the key is alive".into(), format!("ephemeron {who} (n{} -> n{})", x.0, x.1)));
                }
                (Some(_), _) if cleared => {
                    return Err(("ephemeron: value readable but the key is dead".into(), format!("ephemeron {who} (n{} -> n{})", x.0, x.1)));
                }
                (Some(v), Some(k)) => {
                    self.queue.push((x.1, v));
                    self.queue.push((x.0, k));
                }
                _ => {}
            }
        }
        Ok(())
    }
    fn edge_list(&mut self, who: &str, real: &[(u32, NodeGc)], model: &[u32]) -> Result<(), Fail> {
        let mut act: Vec<u32> = real.iter().map(|x| x.0).collect();
        let mut model = model.to_vec();
        act.sort_unstable();
        model.sort_unstable();
        if act != model {
            return Err(desync(&format!("edge list of {who} differs: model {model:?}, real {act:?}")));
        }
        for x in real {
            self.queue.push((x.0, x.1.clone()));
        }
        Ok(())
    }
    fn map_of(&mut self, who: &str, owner: Option<NodeGc>, real_has: bool, model: Option<usize>) -> Result<(), Fail> {
        match (real_has, model) {
            (false, None) => Ok(()),
            (true, Some(mid)) => {
                if !self.maps.iter().any(|x| x.0 == mid) {
                    self.maps.push((mid, owner));
                }
                Ok(())
            }
            _ => Err(desync(&format!("map of {who} differs"))),
        }
    }
    fn drain(&mut self) -> Result<(), Fail> {
        while let Some((id, g)) = self.queue.pop() {
            if self.visited.contains_key(&id) {
                if !Gc::ptr_eq(&g, &self.visited[&id]) {
                    return Err(("two different allocations for one id".into(), format!("n{id}")));
                }
                continue;
            }
            if !self.m.alive(id) {
                return Err(("handle to an object the model has freed".into(), format!("n{id} is reachable on the real heap")));
            }
            if !g.intact() || g.id != id {
                return Err(("canary broken".into(), format!("n{id}: id field {} canaries {:x}/{:x}", g.id, g.canary_a, g.canary_b)));
            }
            let mn = self.m.node(id).expect("alive");
            let who = format!("n{id}");
            self.edge_list(&who, &g.edges.borrow(), &mn.h.edges)?;
            self.weak_list(&who, &g.weaks.borrow(), &mn.h.weaks)?;
            self.eph_list(&who, &g.ephs.borrow(), &mn.h.ephs)?;
            let has_map = g.map.borrow().is_some();
            self.map_of(&who, Some(g.clone()), has_map, mn.h.map)?;
            self.visited.insert(id, g);
        }
        Ok(())
    }
}

/// Walk everything reachable from the host on the real heap, performing every observation
/// (upgrade, ephemeron value, weak-map get) and comparing with the model.
fn deep_check(w: &World, m: &Model) -> Result<(), Fail> {
    let mut wk = Walk { m, visited: BTreeMap::new(), queue: vec![], maps: vec![] };
    wk.edge_list("host", &w.roots, &m.host.edges)?;
    wk.weak_list("host", &w.weaks, &m.host.weaks)?;
    wk.eph_list("host", &w.ephs, &m.host.ephs)?;
    wk.map_of("host", None, w.map.is_some(), m.host.map)?;
    loop {
        wk.drain()?;
        // weak maps: entries are only reachable through keys we hold
        let mut progressed = false;
        for i in 0..wk.maps.len() {
            let (mid, owner) = (wk.maps[i].0, wk.maps[i].1.clone());
            let keys: Vec<(u32, NodeGc)> = wk.visited.iter().map(|(k, v)| (*k, v.clone())).collect();
            for (k, kg) in keys {
                let exp = m.find_entry(mid, k).and_then(|j| m.ephs[m.maps[mid].entries[j]].val);
                let act = match &owner {
                    None => map_get(w.map.as_ref().ok_or_else(|| desync("host map vanished"))?, &kg)?,
                    Some(o) => map_get(o.map.borrow().as_ref().ok_or_else(|| desync("node map vanished"))?, &kg)?,
                };
                match (exp, act) {
                    (None, None) => {}
                    (Some(v), Some(g)) => {
                        if !wk.visited.contains_key(&v) {
                            wk.queue.push((v, g));
                            progressed = true;
                        } else if !Gc::ptr_eq(&g, &wk.visited[&v]) {
                            return Err(("weakmap: wrong value".into(), format!("map#{mid}[n{k}] should be n{v}")));
                        }
                    }
                    (Some(v), None) => {
                        return Err(("weakmap: entry of a live key is gone".into(), format!("map#{mid}[n{k}] should be n{v}, get returned None")));
                    }
                    (None, Some(g)) => {
                        return Err(("weakmap: unexpected entry".into(), format!("map#{mid}[n{k}] should be absent, get returned n{}", g.id)));
                    }
                }
            }
        }
        if !progressed && wk.queue.is_empty() {
            break;
        }
    }
    for (i, n) in m.nodes.iter().enumerate() {
        if n.as_ref().is_some_and(|n| n.alive) && !wk.visited.contains_key(&(i as u32)) {
            return Err(("model-live object not found on the real heap".into(), format!("n{i} is alive in the model but no path of real handles leads to it")));
        }
    }
    // armed devices must still upgrade (they are host-held weak handles to rooted nodes)
    Ok(())
}

// ---------------------------------------------------------------------------------------
// running one history

pub struct Outcome {
    verdict: Result<(), Fail>,
    facts: Facts,
}

fn exec(ops: &[Op], broken: Broken, sz: &Sizes) -> Outcome {
    let mut m = Model::new();
    m.broken = broken;
    let mut w = ManuallyDrop::new(World::default());
    let r = exec_inner(ops, &mut m, &mut w, sz);
    // the labels and the non-trivial rule describe the history, not the teardown
    let facts = m.facts.clone();
    let verdict = match r {
        Ok(()) => {
            // teardown: the host lets go of everything; three collects must empty the heap
            m.teardown();
            // SAFETY: `w` is not used afterwards.
            unsafe { ManuallyDrop::drop(&mut w) };
            TAB.with(|t| {
                let mut t = t.borrow_mut();
                t.armed.clear();
                t.spent.clear();
                t.resurrected.clear();
            });
            let mut v = Ok(());
            for _ in 0..3 {
                force_collect();
                m.collect();
                v = check_counters(&m).and_then(|()| check_stats(&m, sz));
                if v.is_err() {
                    break;
                }
            }
            v.and_then(|()| {
                let s = boa_gc::verif::stats();
                if s.strongs + s.ephemerons + s.weak_maps + s.bytes != 0 {
                    return Err(("heap not empty after dropping every handle".into(), format!("{s:?}")));
                }
                Ok(())
            })
            .map_err(|(s, d)| (format!("teardown: {s}"), d))
        }
        Err(e) => Err(e),
    };
    let verdict = verdict.map_err(|(s, d)| if facts.resurrect_non_isolated { (format!("after-resurrect-non-isolated: {s}"), d) } else { (s, d) });
    Outcome { verdict, facts }
}

fn exec_inner(ops: &[Op], m: &mut Model, w: &mut World, sz: &Sizes) -> Result<(), Fail> {
    let s0 = boa_gc::verif::stats();
    if s0.strongs + s0.ephemerons + s0.weak_maps + s0.bytes != 0 {
        return Err(("baseline: the heap is not empty at the start of the case".into(), format!("{s0:?}")));
    }
    // the counters of the heap are cumulative over the cases run on this thread
    m.collections = s0.collections as u64;
    m.allocs = s0.allocations;
    TAB.with(|t| *t.borrow_mut() = Table::default());
    for (i, &op) in ops.iter().enumerate() {
        let Some(exp) = m.apply(op) else { continue };
        let at = |(s, d): Fail| (s, format!("at op #{i} `{}`: {d}", gcops::render_op(op)));
        let act = w.apply(op).map_err(at)?;
        if act != exp {
            let sig = match (exp, act) {
                (Obs::Target(Some(_)), Obs::Target(None)) => match op {
                    Op::Upgrade(..) => "weak: upgrade is None but the target is alive",
                    Op::EphVal(..) => "ephemeron: value is None but the key is alive",
                    _ => "weakmap: entry of a live key is gone",
                },
                (Obs::Target(None), Obs::Target(Some(_))) => match op {
                    Op::Upgrade(..) => "weak: upgrade is Some but the target is dead",
                    Op::EphVal(..) => "ephemeron: value readable but the key is dead",
                    _ => "weakmap: unexpected entry",
                },
                _ => "observation differs",
            };
            return Err(at((sig.to_string(), format!("model {exp:?}, boa {act:?}"))));
        }
        if op == Op::Collect {
            check_counters(m).map_err(at)?;
            deep_check(w, m).map_err(at)?;
        }
        check_stats(m, sz).map_err(at)?;
    }
    Ok(())
}

/// What the case thread does after `exec`: handles that may dangle must never be dropped.
fn forget_table() {
    let _ = TAB.try_with(|t| {
        if let Ok(mut t) = t.try_borrow_mut() {
            let t = std::mem::take(&mut *t);
            std::mem::forget(t.armed);
            std::mem::forget(t.resurrected);
            std::mem::forget(t.spent);
        }
    });
}

fn case_thread_body(ops: &[Op], broken: Broken, sz: &Sizes) -> Outcome {
    let r = std::panic::catch_unwind(std::panic::AssertUnwindSafe(|| exec(ops, broken, sz)));
    match r {
        Ok(o) => {
            if o.verdict.is_err() {
                forget_table();
            }
            o
        }
        Err(_) => {
            forget_table();
            let desc = crate::run::take_last_panic().unwrap_or_else(|| "unknown panic".into());
            // recompute the facts on the model alone for the signature prefix
            let mut m = Model::new();
            for &op in ops {
                m.apply(op);
            }
            let sig = format!("panic: {}", crate::run::panic_signature(&desc));
            let sig = if m.facts.resurrect_non_isolated { format!("after-resurrect-non-isolated: {sig}") } else { sig };
            Outcome { verdict: Err((sig, desc)), facts: m.facts }
        }
    }
}

/// Run a history. Every case starts from an empty thread-local heap.
///
/// Fast path (generated cases): the case runs on the calling thread; a passing case has verified
/// that its teardown emptied the heap, and the next case re-checks that baseline. After the first
/// failing or panicking case the calling thread's heap is not trusted any more, and from then on
/// (and always when `isolate` is set: replays, known-finding reproducers) every case runs on a
/// thread of its own = a brand-new heap that is dumped when the thread ends.
pub fn run_history(ops: &[Op], broken: Broken, isolate: bool) -> Outcome {
    use std::sync::atomic::{AtomicBool, Ordering};
    static DIRTY: AtomicBool = AtomicBool::new(false);
    crate::run::install_panic_hook();
    let fail = |sig: &str, d: String| Outcome { verdict: Err((sig.to_string(), d)), facts: Facts::default() };
    let sz = match sizes() {
        Ok(s) => s,
        Err(e) => return fail("baseline: size calibration failed", e),
    };
    if !isolate && !DIRTY.load(Ordering::Relaxed) {
        let o = case_thread_body(ops, broken, &sz);
        if o.verdict.is_err() {
            DIRTY.store(true, Ordering::Relaxed);
        }
        return o;
    }
    let ops: Vec<Op> = ops.to_vec();
    let h = std::thread::Builder::new().name("c09-case".into()).spawn(move || case_thread_body(&ops, broken, &sz));
    match h.map(std::thread::JoinHandle::join) {
        Ok(Ok(o)) => o,
        Ok(Err(_)) => fail("panic: outside the case", "the case thread panicked outside catch_unwind".into()),
        Err(e) => fail("baseline: cannot spawn a thread", e.to_string()),
    }
}

fn labels_of(f: &Facts, excluded: u32) -> Vec<&'static str> {
    let mut l = vec![];
    let mut add = |c: bool, s: &'static str| {
        if c {
            l.push(s);
        }
    };
    add(f.nontrivial_collects > 0, "nontrivial");
    add(f.freed_nodes > 0, "freed-some");
    add(f.heap_only_survivor, "heap-only-survivor");
    add(f.cycle, "cycle");
    add(f.self_link, "self-link");
    add(f.eph_key_from_value, "eph-key-reachable-only-from-value");
    add(f.weakmap_entry, "weakmap-entry");
    add(f.weakmap_entry_expired, "weakmap-entry-expired");
    add(f.resurrection, "resurrection");
    add(f.zombie_eph_freed, "unreferenced-ephemeron-box-freed");
    add(f.weak_cleared, "weak-or-ephemeron-cleared");
    add(f.eph_fixpoint_rounds >= 2, "eph-fixpoint>=2-rounds");
    add(f.shared_weak, "shared-weak-box");
    add(f.collects >= 5, "collects>=5");
    add(f.max_nodes >= 20, "nodes>=20");
    add(f.max_nodes >= 100, "nodes>=100");
    add(f.skipped_ops > 0, "some-ops-not-applicable");
    add(excluded > 0, "excluded-resurrect-non-isolated");
    l
}

fn outcome_to_case(rendered: String, o: Outcome, excluded: u32) -> CaseOut {
    let labels = labels_of(&o.facts, excluded);
    match o.verdict {
        Ok(()) => CaseOut::pass(rendered, o.facts.nontrivial_collects > 0).with_labels(labels),
        Err((sig, detail)) => CaseOut::fail(rendered, sig, detail).with_labels(labels),
    }
}

// ---------------------------------------------------------------------------------------
// streams

#[derive(Clone, Copy)]
struct Exh {
    name: &'static str,
    alpha: Alpha,
    prefix: &'static [Op],
    quick: u8,
    thorough: u8,
}

/// seed graph of the stream exhaustive-seeded: root -> n0 -> n1 -> n2, only n0 has a root handle
const SEED_CHAIN: [Op; 7] = [Op::Alloc(0), Op::Alloc(1), Op::Alloc(2), Op::Link(H::Node(0), 1), Op::Link(H::Node(1), 2), Op::Unlink(H::Host, 1), Op::Unlink(H::Host, 2)];

const EXH: [Exh; 4] = [
    // number of histories: FULL 79_005 / 2_623_777, STRONG 163_501 / 3_082_751, EPH 25_342 / 684_168
    Exh { name: "exhaustive-small", alpha: Alpha::FULL, prefix: &[], quick: 5, thorough: 6 },
    Exh { name: "exhaustive-strong", alpha: Alpha::STRONG, prefix: &[], quick: 6, thorough: 7 },
    Exh { name: "exhaustive-eph", alpha: Alpha::EPH, prefix: &[], quick: 5, thorough: 6 },
    Exh { name: "exhaustive-seeded", alpha: Alpha::SEEDED, prefix: &SEED_CHAIN, quick: 4, thorough: 5 },
];

fn enumerator(name: &str, tier: Tier) -> Option<&'static Mutex<Enumerator>> {
    static E: OnceLock<Mutex<Vec<(String, &'static Mutex<Enumerator>)>>> = OnceLock::new();
    let x = EXH.iter().find(|x| x.name == name)?;
    let depth = if tier == Tier::Quick { x.quick } else { x.thorough };
    let key = format!("{name}/{depth}");
    let mut reg = E.get_or_init(|| Mutex::new(vec![])).lock().ok()?;
    if let Some(e) = reg.iter().find(|e| e.0 == key) {
        return Some(e.1);
    }
    let e: &'static Mutex<Enumerator> = Box::leak(Box::new(Mutex::new(Enumerator::new(x.alpha, depth).with_prefix(x.prefix))));
    reg.push((key, e));
    Some(e)
}

fn broken_from_env() -> Broken {
    // sensitivity experiments only: BV_C09_BREAK=eph|weak deliberately breaks the MODEL
    match std::env::var("BV_C09_BREAK").as_deref() {
        Ok("eph") => Broken { ignore_eph_values: true, weak_is_strong: false },
        Ok("weak") => Broken { ignore_eph_values: false, weak_is_strong: true },
        _ => Broken::default(),
    }
}

impl Prop for C09 {
    fn id(&self) -> &'static str {
        "C09"
    }
    fn streams(&self, tier: Tier) -> Vec<Stream> {
        let mut v = vec![];
        for x in EXH {
            let total = enumerator(x.name, tier).and_then(|e| e.lock().ok().map(|mut e| e.total())).unwrap_or(0);
            if std::env::var_os("BV_C09_DEBUG").is_some() {
                eprintln!("C09 {}: {total} histories", x.name);
                if let Ok(maxd) = std::env::var("BV_C09_DEBUG").unwrap_or_default().parse::<u8>() {
                    for d in 1..=maxd {
                        let t0 = std::time::Instant::now();
                        let mut e = Enumerator::new(x.alpha, d).with_prefix(x.prefix);
                        let n = e.total();
                        eprintln!("  depth {d}: {n} histories, memo {} entries, {:?}", e.memo_len(), t0.elapsed());
                    }
                }
            }
            v.push(Stream::new(x.name, total, 8).batch(2000).exhaustive());
        }
        if tier == Tier::Quick {
            v.push(Stream::new("random", 24_000, 1600).batch(200));
        } else {
            v.push(Stream::new("random", 400_000, 1600).batch(200));
            v.push(Stream::new("random-long", 12_000, 20_000).batch(20));
        }
        v
    }
    fn rule(&self) -> String {
        "histories of boa_gc API operations (alloc, clone/drop handle, link/unlink/self-link, load an edge into a root, WeakGc new/clone/upgrade/drop held by the host or by a node, Ephemeron(key, value handle) new/value/drop, WeakMap new/insert/remove/get/drop held by the host or by a node, arm a node to resurrect itself in its finalizer, force_collect) run in lock step on a graph-reachability model (roots, strong edges, ephemeron fix-point, weak references cleared when the target becomes finalizable) and on a fresh thread-local heap; after every op the observation and verif::stats() (strong/ephemeron/weak-map boxes, bytes, collections, allocations) must agree, after every collect per-id finalize/drop counters, canaries, every edge list, every upgrade/value/get must agree, and after dropping all handles the heap must be empty. Streams exhaustive-*: every history of at most L applicable operations over 3 nodes (full alphabet L=5/6, strong+weak+resurrection alphabet L=6/7, ephemeron+weak-map alphabet L=5/6; quick/thorough), pre-order index = case index, each followed by a final collect; random: tape-driven histories (<= 40 nodes, ~400 ops; thorough random-long: <= 200 nodes, <= 5000 ops). non-trivial = some collect of the history frees >= 1 node while >= 1 node survives that has no root handle, and at that collect at least one of: a strong cycle exists, an ephemeron's key is reachable only from its value, a live weak map has an entry, a finalizer resurrects a node; distinct = distinct op list".into()
    }
    fn assumptions(&self) -> Vec<String> {
        vec![
            "weak references and ephemerons whose key becomes finalizable are cleared by that collect even if a finalizer resurrects the key (conventional cleared-before-finalization semantics; this is what boa_gc does)".into(),
            "a finalizer-resurrected node that holds handles is excluded from generated histories (finding C09-a)".into(),
            "the default allocation threshold (1 MiB) is never reached, so collections happen only at force_collect (checked through stats().collections)".into(),
        ]
    }
    fn run_case(&self, env: &mut Env, stream: &str, index: u64, tape: &[u8]) -> CaseOut {
        let mut g = Gen::new();
        if let Some(e) = enumerator(stream, env.tier) {
            let ops = match e.lock() {
                Ok(mut e) => e.unrank(index),
                Err(_) => return CaseOut::skip(String::new(), "enumerator poisoned"),
            };
            for op in ops {
                g.push(op);
            }
            g.push(Op::Collect);
        } else {
            let cfg = if stream == "random-long" { RandCfg { max_ops: 5000, node_caps: &[12, 40, 200, 200] } } else { RandCfg { max_ops: 400, node_caps: &[3, 6, 12, 40] } };
            g = gcgen::random(tape, &cfg);
        }
        let rendered = gcops::render(&g.ops);
        let o = run_history(&g.ops, broken_from_env(), false);
        outcome_to_case(rendered, o, g.excluded)
    }
    fn run_rendered(&self, _env: &mut Env, _stream: &str, rendered: &str) -> Option<CaseOut> {
        let ops = match gcops::parse(rendered) {
            Ok(o) => o,
            Err(line) => return Some(CaseOut::skip(rendered.to_string(), format!("unparsable line: {line}"))),
        };
        let o = run_history(&ops, broken_from_env(), true);
        Some(outcome_to_case(rendered.to_string(), o, 0))
    }
    fn rendered_prefix_lines(&self, _rendered: &str) -> usize {
        0
    }
}
