//! C05 — the AST optimizer (on by default) preserves semantics: trace(P, O) = trace(P, {}).

use crate::driver::{CaseOut, Env, Prop, Stream, Tier};
use crate::genp::prog::{Opts, generate};
use crate::run::{Entry, RunCfg, diff_traces, run};
use boa_engine::{Context, optimizer::OptimizerOptions};
use boa_interner::ToInternedString;

pub struct C05;

/// Does the optimizer (with option bits) change the AST of this source? (printed form compared)
pub fn optimizer_changes(src: &str, bits: u8) -> Option<bool> {
    let mut ctx = Context::default();
    ctx.set_optimizer_options(OptimizerOptions::from_bits_truncate(bits));
    let scope = boa_ast::scope::Scope::new_global();
    let mut parser = boa_parser::Parser::new(boa_parser::Source::from_bytes(src.as_bytes()));
    let script = parser.parse_script(&scope, ctx.interner_mut()).ok()?;
    let before = script.to_interned_string(ctx.interner());
    let mut list = script.statements().clone();
    let _stats = ctx.optimize_statement_list(&mut list);
    let after = list.to_interned_string(ctx.interner());
    Some(before != after)
}

impl C05 {
    fn check_src(&self, env: &mut Env, src: &str, labels: Vec<&'static str>) -> CaseOut {
        let base = run(src, &RunCfg { optimizer: Some(0), ..RunCfg::default() });
        if base.completion.is_limit() {
            return CaseOut::skip(src.to_string(), "boa-limit");
        }
        let mut sets: Vec<(String, Option<u8>, Entry)> = vec![
            ("default".into(), None, Entry::Eval),
            ("default/script-parse".into(), None, Entry::ScriptReader),
        ];
        if env.tier == Tier::Thorough {
            // bit 0 is STATISTICS (prints to stdout): never set
            for bits in 1u8..8 {
                sets.push((format!("passes{bits:03b}"), Some(bits << 1), Entry::Eval));
            }
        }
        for (name, bits, entry) in sets {
            let t = run(src, &RunCfg { optimizer: bits, entry, ..RunCfg::default() });
            if let Some((sig, detail)) = diff_traces(&name, &t, "optimizer-off", &base) {
                return CaseOut::fail(src.to_string(), format!("{}: {sig}", name.split('/').next().unwrap_or("")), detail).with_labels(labels);
            }
        }
        let changed = optimizer_changes(src, 0b1110).unwrap_or(false);
        let mut labels = labels;
        if changed {
            labels.push("optimizer-changed-ast");
        }
        let nontrivial = changed && base.prints.len() >= 2;
        CaseOut::pass(src.to_string(), nontrivial).with_labels(labels)
    }
}

impl Prop for C05 {
    fn id(&self) -> &'static str {
        "C05"
    }
    fn streams(&self, tier: Tier) -> Vec<Stream> {
        let m = if tier == Tier::Quick { 1 } else { 40 };
        vec![Stream::new("lit", 6000 * m, 500).batch(100), Stream::new("core", 2000 * m, 700).batch(100)]
    }
    fn rule(&self) -> String {
        "programs from gen::prog (profile lit: literal-heavy operator trees, coercion objects whose valueOf/toString/@@toPrimitive print, BigInt/number mixes, literal conditions with hoisted declarations in dead arms; plus profile core); each run with the default optimizer (through Context::eval and Script::parse) and with OptimizerOptions::empty() [thorough: all 7 non-empty option subsets]; traces must be equal; non-trivial = the optimizer changed the printed AST of the program and the program prints >= 2 lines; distinct = distinct source".into()
    }
    fn run_case(&self, env: &mut Env, stream: &str, _index: u64, tape: &[u8]) -> CaseOut {
        let o = if stream == "lit" { Opts::lit() } else { Opts::core() };
        let p = generate(tape, o);
        let mut labels = p.labels.clone();
        labels.extend(p.excluded.iter());
        self.check_src(env, &p.src, labels)
    }
    fn run_rendered(&self, env: &mut Env, _stream: &str, rendered: &str) -> Option<CaseOut> {
        Some(self.check_src(env, rendered, vec![]))
    }
}
