//! C11 — string behaviour depends only on the code-unit sequence.
//!
//! Streams `exhaustive-len<=N` / `random`: a code-unit sequence `u` is built through every
//! applicable `boa_string` constructor (genp::c11ctor); every public operation of every
//! constructed string is compared with a naive reference over `[u16]` (genp::c11model), every
//! pair of constructors is compared with `==`/`Ord`/`Hash`/collections, and "almost equal"
//! neighbours `v != u` from mixed constructors must be unequal and ordered like the code units.
//! Stream `js`: the same value built by different JS routes, observed through keys / Map / === /
//! < / Symbol.for / normalize(form) / @@toPrimitive(hint), compared with V8.

use crate::driver::{CaseOut, Env, Prop, Stream, Tier};
use crate::genp::c11ctor::{Arena, Built, all_latin1, build_all};
use crate::genp::c11js;
use crate::genp::c11model::*;
use crate::oracle::node_script;
use crate::run::{Completion, RunCfg, run};
use crate::tape::Tape;
use boa_string::{CodePoint, JsStr, JsStrVariant, JsString};
use std::cmp::Ordering;
use std::collections::{BTreeMap, HashMap};
use std::fmt::Debug;
use std::hash::{Hash, Hasher};

pub struct C11;

/// Named tolerance switch for finding C11-a (`PartialEq<str> for JsStr`): when on (and not in
/// strict replay mode) a str comparison that deviates from the model EXACTLY as the known
/// defective algorithm does is counted (label `excluded-known-str-eq`) instead of failing.
const TOLERATE_KNOWN_STR_EQ: bool = false;
const KNOWN_STR_EQ_SIG: &str = "PartialEq<str> for JsStr";
/// Named tolerance switch for findings C11-c/C11-d (`to_number` on `0x+1` / `-inf`): strings that
/// contain exactly these constructs are not compared with the StringToNumber model (label
/// `excluded-known-to-number`); agreement across constructors is still required.
const TOLERATE_KNOWN_TO_NUMBER: bool = false;

struct Fail {
    c1: String,
    c2: String,
    op: String,
    detail: String,
}

struct Ck {
    fails: Vec<Fail>,
    tolerated: u64,
    checks: u64,
    nfails: u64,
    tolerated_num: u64,
    strict: bool,
}

impl Ck {
    fn new(strict: bool) -> Self {
        Self { fails: vec![], tolerated: 0, checks: 0, nfails: 0, tolerated_num: 0, strict }
    }
    fn fail(&mut self, c1: &str, c2: &str, op: &str, detail: String) {
        self.nfails += 1;
        let same = self.fails.iter().rev().take(64).filter(|f| f.c1 == c1 && f.c2 == c2 && op_class(&f.op) == op_class(op)).count();
        if same < 2 && self.fails.len() < 4000 {
            self.fails.push(Fail { c1: c1.into(), c2: c2.into(), op: op.into(), detail });
        }
    }
    fn eq<T: PartialEq + Debug>(&mut self, c1: &str, c2: &str, op: &str, got: T, want: T) {
        self.checks += 1;
        if got != want {
            self.fail(c1, c2, op, format!("expected {want:?}\nactual   {got:?}"));
        }
    }
    fn eqp<T: PartialEq + Debug>(&mut self, c1: &str, c2: &str, op: &str, params: impl FnOnce() -> String, got: T, want: T) {
        self.checks += 1;
        if got != want {
            self.fail(c1, c2, op, format!("{}\nexpected {want:?}\nactual   {got:?}", params()));
        }
    }
    /// a comparison with a Rust `str` (all of them route through `PartialEq<str> for JsStr`)
    fn streq(&mut self, c1: &str, op: &str, js: JsStr<'_>, units: &[u16], other: &str, got: bool) {
        self.checks += 1;
        let want = m_to_string(units).as_deref() == Some(other);
        if got == want {
            return;
        }
        let class = if js.is_latin1() { "latin1-bytes-vs-utf8" } else { "utf16-no-length-check" };
        if got == known_defect_streq(js.is_latin1(), units, other) {
            if TOLERATE_KNOWN_STR_EQ && !self.strict {
                self.tolerated += 1;
                return;
            }
            self.fail(c1, "str", &format!("{KNOWN_STR_EQ_SIG} ({class})"), format!("{op}: string units [{}] ({}) compared with str {other:?}\nexpected {want}\nactual   {got}", hex_units(units), if js.is_latin1() { "Latin-1 buffer" } else { "UTF-16 buffer" }));
        } else {
            self.fail(c1, "str", &format!("str-eq-other ({class})"), format!("{op}: string units [{}] compared with str {other:?}\nexpected {want}\nactual   {got} (not the known defective algorithm either)", hex_units(units)));
        }
    }
}

fn h_std<T: Hash + ?Sized>(t: &T) -> u64 {
    let mut h = std::collections::hash_map::DefaultHasher::new();
    t.hash(&mut h);
    h.finish()
}
fn h_fx<T: Hash + ?Sized>(t: &T) -> u64 {
    let mut h = rustc_hash::FxHasher::default();
    t.hash(&mut h);
    h.finish()
}

fn cp_model(c: CodePoint) -> Cp {
    match c {
        CodePoint::Unicode(ch) => Cp::Scalar(u32::from(ch)),
        CodePoint::UnpairedSurrogate(x) => Cp::Lone(x),
    }
}

fn fbits(x: f64) -> u64 {
    if x.is_nan() { 0x7ff8_dead_0000_0000 } else { x.to_bits() }
}

fn positions(n: usize) -> Vec<usize> {
    let mut v: Vec<usize> = if n <= 4 { (0..=n + 1).collect() } else { vec![0, 1, 2, n / 2, n - 2, n - 1, n, n + 1] };
    v.sort_unstable();
    v.dedup();
    v
}

/// needles for index_of / starts_with / ends_with: substrings, perturbed substrings, truncated units
fn needles(u: &[u16]) -> Vec<Vec<u16>> {
    let n = u.len();
    let mut out: Vec<Vec<u16>> = vec![vec![], vec![0x61], vec![0x00], vec![0xE9], vec![0x100]];
    let ps = positions(n);
    for &i in &ps {
        for &j in &ps {
            if i < j && j <= n && (j - i <= 3 || i == 0 || j == n) {
                out.push(u[i..j].to_vec());
            }
        }
    }
    let base = out.clone();
    for b in base.iter().filter(|b| !b.is_empty()).take(12) {
        let mut x = b.clone();
        let l = x.len() - 1;
        x[l] = x[l].wrapping_add(1);
        out.push(x);
        // the low byte only (catches comparisons that truncate to u8)
        let y: Vec<u16> = b.iter().map(|c| c & 0xFF).collect();
        out.push(y);
        let mut z = b.clone();
        z.push(0x61);
        out.push(z);
    }
    out.sort();
    out.dedup();
    if out.len() > 40 {
        // keep a spread
        let step = out.len() as f64 / 40.0;
        out = (0..40).map(|i| out[(i as f64 * step) as usize].clone()).collect();
    }
    out
}

/// every single-string operation of `b` against the model of `u`
fn check_single(ck: &mut Ck, b: &Built, u: &[u16], heavy: bool) {
    let c = b.name.as_str();
    let s = &b.s;
    let n = u.len();
    let m = "model";
    ck.eq(c, m, "len", s.len(), n);
    if s.len() != n {
        // the constructor did not produce u at all: the position-based operations below would
        // index out of range (documented panics), report the length and the units only
        ck.eq(c, m, "to_vec", s.to_vec(), u.to_vec());
        return;
    }
    ck.eq(c, m, "is_empty", s.is_empty(), n == 0);
    ck.eq(c, m, "to_vec", s.to_vec(), u.to_vec());
    ck.eq(c, m, "iter", s.iter().collect::<Vec<u16>>(), u.to_vec());
    ck.eq(c, m, "iter_len", s.iter().len(), n);
    ck.eq(c, m, "into_iter", s.into_iter().collect::<Vec<u16>>(), u.to_vec());
    ck.eq(c, m, "eq_u16_slice", (s == u, u == s), (true, true));
    match n {
        0 => ck.eq(c, m, "eq_u16_array", (*s == [0u16; 0], [0u16; 0] == *s), (true, true)),
        1 => ck.eq(c, m, "eq_u16_array", (*s == [u[0]], [u[0]] == *s, *s == [u[0].wrapping_add(1)]), (true, true, false)),
        2 => ck.eq(c, m, "eq_u16_array", (*s == [u[0], u[1]], [u[0], u[1]] == *s, *s == [u[0]]), (true, true, false)),
        3 => ck.eq(c, m, "eq_u16_array", (*s == [u[0], u[1], u[2]], [u[0], u[1], u[2]] == *s), (true, true)),
        _ => {}
    }
    let js = s.as_str();
    ck.eq(c, m, "jsstr_len", (js.len(), js.is_empty()), (n, n == 0));
    ck.eq(c, m, "jsstr_to_vec", js.to_vec(), u.to_vec());
    ck.eq(c, m, "jsstr_iter", js.iter().collect::<Vec<u16>>(), u.to_vec());
    ck.eq(c, m, "jsstr_eq_u16_slice", u == &js, true);
    ck.eq(c, m, "jsstr_from_ref", JsStr::from(s).to_vec(), u.to_vec());
    match js.variant() {
        JsStrVariant::Latin1(bytes) => {
            ck.eq(c, m, "variant_data", bytes.iter().map(|x| u16::from(*x)).collect::<Vec<_>>(), u.to_vec());
            ck.eq(c, m, "as_latin1", (js.is_latin1(), js.as_latin1().map(<[u8]>::to_vec)), (true, all_latin1(u)));
        }
        JsStrVariant::Utf16(units) => {
            ck.eq(c, m, "variant_data", units.to_vec(), u.to_vec());
            ck.eq(c, m, "as_latin1", (js.is_latin1(), js.as_latin1().map(<[u8]>::to_vec)), (false, None));
        }
    }
    // code points
    let mcps = m_code_points(u);
    ck.eq(c, m, "code_points", s.code_points().map(cp_model).collect::<Vec<_>>(), mcps.clone());
    ck.eq(c, m, "jsstr_code_points", js.code_points().map(cp_model).collect::<Vec<_>>(), mcps.clone());
    ck.eq(c, m, "code_points_lossy", js.code_points_lossy().collect::<String>(), m_to_string_lossy(u));
    let ps = positions(n);
    for &i in &ps {
        ck.eqp(c, m, "code_unit_at", || format!("index {i}"), s.code_unit_at(i), u.get(i).copied());
        ck.eqp(c, m, "jsstr_get_index", || format!("index {i}"), js.get(i), u.get(i).copied());
        if i < n {
            let (cp, cnt) = m_code_point_at(u, i);
            let got = s.code_point_at(i);
            ck.eqp(c, m, "code_point_at", || format!("position {i}"), (cp_model(got), got.code_unit_count(), got.as_u32()), (cp, cnt, match cp { Cp::Scalar(x) => x, Cp::Lone(x) => u32::from(x) }));
            ck.eqp(c, m, "jsstr_code_point_at", || format!("position {i}"), cp_model(js.code_point_at(i)), cp);
        }
    }
    // std strings and display forms
    let ms = m_to_string(u);
    ck.eq(c, m, "to_std_string", s.to_std_string().ok(), ms.clone());
    ck.eq(c, m, "jsstr_to_std_string", js.to_std_string().ok(), ms.clone());
    ck.eq(c, m, "to_std_string_lossy", s.to_std_string_lossy(), m_to_string_lossy(u));
    ck.eq(c, m, "jsstr_to_std_string_lossy", js.to_std_string_lossy(), m_to_string_lossy(u));
    ck.eq(c, m, "to_std_string_escaped", s.to_std_string_escaped(), m_to_string_escaped(u));
    ck.eq(c, m, "display_escaped", s.display_escaped().to_string(), m_to_string_escaped(u));
    ck.eq(c, m, "display_lossy", format!("{}", s.display_lossy()), m_to_string_lossy(u));
    ck.eq(c, m, "jsstr_display_lossy", format!("{}", js.display_lossy()), m_to_string_lossy(u));
    ck.eq(c, m, "debug", format!("{s:?}"), format!("JsString({:?})", m_to_string_escaped(u)));
    ck.eq(c, m, "to_std_string_with_surrogates", s.to_std_string_with_surrogates().collect::<Vec<_>>(), m_segments(u));
    {
        let want: Vec<u16> = m_segments(u).into_iter().flat_map(|seg| match seg { Ok(t) => format!("<{t}>").encode_utf16().collect::<Vec<u16>>(), Err(x) => vec![x] }).collect();
        ck.eq(c, m, "map_valid_segments", s.map_valid_segments(|t| format!("<{t}>")).to_vec(), want);
    }
    // number
    let num = s.to_number();
    ck.eq(c, m, "to_number_jsstr_agree", fbits(js.to_number()), fbits(num));
    if let Some(want) = m_to_number(u) {
        match known_to_number_construct(u) {
            Some(_) if TOLERATE_KNOWN_TO_NUMBER && !ck.strict => ck.tolerated_num += 1,
            Some(class) => ck.eqp(c, m, &format!("to_number ({class})"), || format!("got {num:?} want {want:?}"), fbits(num), fbits(want)),
            None => ck.eqp(c, m, "to_number", || format!("got {num:?} want {want:?}"), fbits(num), fbits(want)),
        }
    }
    // trims
    for (op, got, want) in [("trim", s.trim(), m_trim(u)), ("trim_start", s.trim_start(), m_trim_start(u)), ("trim_end", s.trim_end(), m_trim_end(u))] {
        ck.eq(c, m, op, got.to_vec(), want.to_vec());
        ck.eqp(c, m, op, || "result compared with == / len".into(), (got == *want, got.len(), got == JsString::from(want), h_std(&got) == h_std(&JsString::from(want))), (true, want.len(), true, true));
    }
    // contains
    let mut bytes: Vec<u8> = vec![0x00, 0x20, 0x30, 0x61, 0x7F, 0x80, 0xC0, 0xE9, 0xFF, 0xD8, 0xDC, 0x28, 0xFE];
    bytes.extend(u.iter().map(|x| (*x & 0xFF) as u8));
    bytes.extend(u.iter().map(|x| (*x >> 8) as u8));
    bytes.sort_unstable();
    bytes.dedup();
    for &by in &bytes {
        ck.eqp(c, m, "contains", || format!("byte {by:#04x}"), (s.contains(by), js.contains(by)), (m_contains(u, by), m_contains(u, by)));
    }
    // get(range) / slice
    let stride = if heavy { 1 } else { 2 };
    for (ii, &i) in ps.iter().enumerate() {
        for (jj, &j) in ps.iter().enumerate() {
            if !heavy && (ii + jj) % stride != 0 {
                continue;
            }
            let v = |o: Option<JsString>| o.map(|x| x.to_vec());
            let w = |o: Option<&[u16]>| o.map(<[u16]>::to_vec);
            ck.eqp(c, m, "get_range", || format!("{i}..{j}"), v(s.get(i..j)), w(u.get(i..j)));
            ck.eqp(c, m, "get_range_inclusive", || format!("{i}..={j}"), v(s.get(i..=j)), w(u.get(i..=j)));
            ck.eqp(c, m, "jsstr_get_range", || format!("{i}..{j}"), js.get(i..j).map(|x| x.to_vec()), w(u.get(i..j)));
            ck.eqp(c, m, "jsstr_get_range_inclusive", || format!("{i}..={j}"), js.get(i..=j).map(|x| x.to_vec()), w(u.get(i..=j)));
            let sl = s.slice(i, j);
            ck.eqp(c, m, "slice", || format!("slice({i}, {j})"), (sl.to_vec(), sl.len(), sl == *m_slice(u, i, j)), (m_slice(u, i, j).to_vec(), m_slice(u, i, j).len(), true));
            if let Some(g) = s.get(i..j) {
                // a slice is a full citizen: equal to a fresh string, same hash, same order
                let fresh = JsString::from(&u[i..j]);
                ck.eqp(c, m, "get_range_result", || format!("{i}..{j} vs fresh string"), (g == fresh, fresh == g, g.cmp(&fresh), h_std(&g) == h_std(&fresh), h_fx(&g) == h_fx(&fresh)), (true, true, Ordering::Equal, true, true));
            }
        }
        let v = |o: Option<JsString>| o.map(|x| x.to_vec());
        let w = |o: Option<&[u16]>| o.map(<[u16]>::to_vec);
        ck.eqp(c, m, "get_range_to", || format!("..{i}"), v(s.get(..i)), w(u.get(..i)));
        ck.eqp(c, m, "get_range_to_inclusive", || format!("..={i}"), v(s.get(..=i)), w(u.get(..=i)));
        ck.eqp(c, m, "get_range_from", || format!("{i}.."), v(s.get(i..)), w(u.get(i..)));
        ck.eqp(c, m, "jsstr_get_range_to", || format!("..{i}"), js.get(..i).map(|x| x.to_vec()), w(u.get(..i)));
        ck.eqp(c, m, "jsstr_get_range_from", || format!("{i}.."), js.get(i..).map(|x| x.to_vec()), w(u.get(i..)));
    }
    ck.eq(c, m, "get_range_full", s.get(..).map(|x| x.to_vec()), Some(u.to_vec()));
    ck.eq(c, m, "jsstr_get_range_full", js.get(..).map(|x| x.to_vec()), Some(u.to_vec()));
    // windows
    for size in 1..=3usize {
        let want: Vec<Vec<u16>> = u.windows(size).map(<[u16]>::to_vec).collect();
        ck.eqp(c, m, "windows", || format!("size {size}"), s.windows(size).map(|x| x.to_vec()).collect::<Vec<_>>(), want.clone());
        ck.eqp(c, m, "windows_len", || format!("size {size}"), js.windows(size).len(), want.len());
    }
    // needle operations, the needle in both buffer kinds
    for (k, nd) in needles(u).iter().enumerate() {
        if !heavy && k % 3 != 0 {
            continue;
        }
        let l1 = all_latin1(nd);
        let mut forms: Vec<(&str, JsStr<'_>)> = vec![("utf16-needle", JsStr::utf16(nd))];
        if let Some(b) = &l1 {
            forms.push(("latin1-needle", JsStr::latin1(b)));
        }
        for (fname, needle) in forms {
            let par = || format!("needle [{}] as {fname}", hex_units(nd));
            ck.eqp(c, m, "starts_with", par, (s.starts_with(needle), js.starts_with(needle)), (m_starts_with(u, nd), m_starts_with(u, nd)));
            ck.eqp(c, m, "ends_with", par, (s.ends_with(needle), js.ends_with(needle)), (m_ends_with(u, nd), m_ends_with(u, nd)));
            for &from in &ps {
                ck.eqp(c, m, "index_of", || format!("{} from {from}", par()), (s.index_of(needle, from), js.index_of(needle, from)), (m_index_of(u, nd, from), m_index_of(u, nd, from)));
            }
            ck.eqp(c, m, "eq_jsstr_needle", par, (*s == needle, needle == *s, js == needle), (u == nd.as_slice(), u == nd.as_slice(), u == nd.as_slice()));
            ck.eqp(c, m, "cmp_jsstr_needle", par, (js.cmp(&needle), needle.cmp(&js), js.partial_cmp(&needle)), (m_cmp(u, nd), m_cmp(nd, u), Some(m_cmp(u, nd))));
        }
        // the needle as a Rust str
        if let Some(t) = m_to_string(nd) {
            str_ops(ck, c, s, u, &t);
        }
    }
    // comparisons with Rust str: the string itself, and the UTF-8/Latin-1 confusions
    if let Some(t) = &ms {
        str_ops(ck, c, s, u, t);
        let mut longer = t.clone();
        longer.push('a');
        str_ops(ck, c, s, u, &longer);
        let mut chars = t.chars();
        if chars.next_back().is_some() {
            str_ops(ck, c, s, u, chars.as_str());
        }
    }
    if let Some(b) = all_latin1(u) {
        // the str whose UTF-8 bytes are the Latin-1 bytes of u
        if let Ok(t) = std::str::from_utf8(&b) {
            str_ops(ck, c, s, u, t);
        }
    }
}

/// all five comparison forms with a Rust str
fn str_ops(ck: &mut Ck, c: &str, s: &JsString, u: &[u16], t: &str) {
    let js = s.as_str();
    ck.streq(c, "JsString == str", js, u, t, *s == *t);
    ck.streq(c, "JsString == &str", js, u, t, *s == t);
    ck.streq(c, "str == JsString", js, u, t, *t == *s);
    ck.streq(c, "JsStr == str", js, u, t, js == *t);
    ck.streq(c, "JsStr == &str", js, u, t, js == t);
}

/// pairs of constructors of the SAME units
fn check_pairs_equal(ck: &mut Ck, built: &[Built], u: &[u16]) {
    if built.is_empty() {
        return;
    }
    let hs: Vec<(u64, u64, u64, u64)> = built.iter().map(|b| (h_std(&b.s), h_fx(&b.s), h_std(&b.s.as_str()), h_fx(&b.s.as_str()))).collect();
    for (i, b) in built.iter().enumerate() {
        ck.eq(&built[0].name, &b.name, "hash_std", hs[i].0, hs[0].0);
        ck.eq(&built[0].name, &b.name, "hash_fx", hs[i].1, hs[0].1);
        ck.eq(&b.name, &b.name, "hash_jsstr_vs_jsstring", (hs[i].2, hs[i].3), (hs[i].0, hs[i].1));
    }
    for i in 0..built.len() {
        for j in i + 1..built.len() {
            let (a, b) = (&built[i], &built[j]);
            let (x, y) = (&a.s, &b.s);
            let (c1, c2) = (a.name.as_str(), b.name.as_str());
            ck.eq(c1, c2, "eq", (x == y, y == x, x != y), (true, true, false));
            ck.eq(c1, c2, "cmp", (x.cmp(y), y.cmp(x), x.partial_cmp(y), x < y, x <= y), (Ordering::Equal, Ordering::Equal, Some(Ordering::Equal), false, true));
            let (p, q) = (x.as_str(), y.as_str());
            ck.eq(c1, c2, "jsstr_eq", (p == q, q == p), (true, true));
            ck.eq(c1, c2, "jsstr_cmp", (p.cmp(&q), q.cmp(&p), p.partial_cmp(&q)), (Ordering::Equal, Ordering::Equal, Some(Ordering::Equal)));
            ck.eq(c1, c2, "eq_jsstring_jsstr", (*x == q, q == *x, *y == p, p == *y), (true, true, true, true));
            ck.eq(c1, c2, "affix_of_other", (x.starts_with(q), x.ends_with(q), y.starts_with(p), y.ends_with(p), x.index_of(q, 0), y.index_of(p, 0)), (true, true, true, true, Some(0), Some(0)));
        }
    }
    // raw JsStr views that never were a JsString
    let l1 = all_latin1(u);
    let mut views: Vec<(&str, JsStr<'_>)> = vec![("jsstr_utf16", JsStr::utf16(u))];
    if let Some(b) = &l1 {
        views.push(("jsstr_latin1", JsStr::latin1(b)));
    }
    for (vn, v) in &views {
        ck.eq(vn, "model", "jsstr_hash_view", (h_std(v), h_fx(v)), (hs[0].0, hs[0].1));
        for b in built {
            let q = b.s.as_str();
            ck.eq(vn, &b.name, "jsstr_eq", (*v == q, q == *v, b.s == *v, *v == b.s), (true, true, true, true));
            ck.eq(vn, &b.name, "jsstr_cmp", (v.cmp(&q), q.cmp(v)), (Ordering::Equal, Ordering::Equal));
        }
    }
    // collections: all constructors are ONE key
    let mut hm: HashMap<JsString, usize> = HashMap::new();
    let mut fm: rustc_hash::FxHashMap<JsString, usize> = Default::default();
    let mut bm: BTreeMap<JsString, usize> = BTreeMap::new();
    for (i, b) in built.iter().enumerate() {
        hm.insert(b.s.clone(), i);
        fm.insert(b.s.clone(), i);
        bm.insert(b.s.clone(), i);
    }
    let last = built.len() - 1;
    ck.eq("*", "*", "hashmap_one_key", (hm.len(), fm.len(), bm.len()), (1, 1, 1));
    for b in built {
        ck.eq(&built[0].name, &b.name, "hashmap_lookup", (hm.get(&b.s).copied(), fm.get(&b.s).copied(), bm.get(&b.s).copied()), (Some(last), Some(last), Some(last)));
    }
}

/// constructors of u against constructors of a different sequence v
fn check_pairs_unequal(ck: &mut Ck, bu: &[Built], u: &[u16], bv: &[Built], v: &[u16]) {
    let ord = m_cmp(u, v);
    debug_assert!(ord != Ordering::Equal);
    let vs = m_to_string(v);
    for a in bu {
        let x = &a.s;
        let c1 = a.name.as_str();
        ck.eq(c1, "v:units", "ne_eq_u16_slice", (x == v, v == x, v == &x.as_str()), (false, false, false));
        if let Some(t) = &vs {
            str_ops(ck, c1, x, u, t);
        }
        for b in bv {
            let y = &b.s;
            let c2 = format!("v:{}", b.name);
            let c2 = c2.as_str();
            ck.eq(c1, c2, "ne_eq", (x == y, y == x, x != y), (false, false, true));
            ck.eq(c1, c2, "ne_cmp", (x.cmp(y), y.cmp(x), x.partial_cmp(y), x < y, x > y), (ord, ord.reverse(), Some(ord), ord == Ordering::Less, ord == Ordering::Greater));
            let (p, q) = (x.as_str(), y.as_str());
            ck.eq(c1, c2, "ne_jsstr_eq", (p == q, q == p, *x == q, p == *y), (false, false, false, false));
            ck.eq(c1, c2, "ne_jsstr_cmp", (p.cmp(&q), q.cmp(&p)), (ord, ord.reverse()));
            ck.eq(c1, c2, "ne_affix", (x.starts_with(q), x.ends_with(q), y.starts_with(p), y.ends_with(p)), (m_starts_with(u, v), m_ends_with(u, v), m_starts_with(v, u), m_ends_with(v, u)));
            ck.eq(c1, c2, "ne_index_of", (x.index_of(q, 0), y.index_of(p, 0)), (m_index_of(u, v, 0), m_index_of(v, u, 0)));
        }
    }
    // an ordered map holds exactly two keys, in code-unit order
    let mut bm: BTreeMap<JsString, u8> = BTreeMap::new();
    let mut hm: HashMap<JsString, u8> = HashMap::new();
    for a in bu {
        bm.insert(a.s.clone(), 0);
        hm.insert(a.s.clone(), 0);
    }
    for b in bv {
        bm.insert(b.s.clone(), 1);
        hm.insert(b.s.clone(), 1);
    }
    let want: Vec<u8> = if ord == Ordering::Less { vec![0, 1] } else { vec![1, 0] };
    ck.eq("*", "v:*", "btreemap_two_keys", bm.values().copied().collect::<Vec<_>>(), want);
    ck.eq("*", "v:*", "hashmap_two_keys", hm.len(), 2);
}

struct Outcome {
    fails: Vec<Fail>,
    tolerated: u64,
    tolerated_num: u64,
    nfails: u64,
    checks: u64,
    reprs: Vec<String>,
    constructors: usize,
}

fn check_units(u: &[u16], vs: &[Vec<u16>], strict: bool) -> Outcome {
    let mut ck = Ck::new(strict);
    let arena: Arena = build_all(u, true);
    for (name, why) in &arena.ctor_failures {
        ck.fail(name, "model", "constructor_invariant", why.clone());
    }
    let heavy = u.len() <= 8;
    for b in &arena.strings {
        check_single(&mut ck, b, u, heavy);
    }
    check_pairs_equal(&mut ck, &arena.strings, u);
    for v in vs {
        if v.as_slice() == u {
            continue;
        }
        let av = build_all(v, false);
        check_pairs_unequal(&mut ck, &arena.strings, u, &av.strings, v);
    }
    let mut reprs: Vec<String> = arena.strings.iter().map(|b| b.repr.clone()).collect();
    reprs.sort();
    reprs.dedup();
    Outcome { fails: ck.fails, tolerated: ck.tolerated, tolerated_num: ck.tolerated_num, nfails: ck.nfails, checks: ck.checks, reprs, constructors: arena.strings.len() }
}

fn op_class(op: &str) -> &str {
    op.split(" (").next().unwrap_or(op)
}

fn render(u: &[u16], vs: &[Vec<u16>], pair: &str, op: &str) -> String {
    let mut s = format!("u={}", hex_units(u));
    for v in vs {
        s.push_str(&format!(" | v={}", hex_units(v)));
    }
    s.push_str(&format!(" | pair={pair} | op={op}"));
    s
}

struct Parsed {
    u: Vec<u16>,
    vs: Vec<Vec<u16>>,
    c1: String,
    c2: String,
    op: String,
}

fn parse_rendered(r: &str) -> Option<Parsed> {
    let mut p = Parsed { u: vec![], vs: vec![], c1: "*".into(), c2: "*".into(), op: "*".into() };
    let mut seen_u = false;
    for part in r.trim().split(" | ") {
        let (k, v) = part.split_once('=')?;
        match k.trim() {
            "u" => {
                p.u = parse_hex_units(v)?;
                seen_u = true;
            }
            "v" => p.vs.push(parse_hex_units(v)?),
            "pair" => {
                if let Some((a, b)) = v.split_once(',') {
                    p.c1 = a.trim().into();
                    p.c2 = b.trim().into();
                }
            }
            "op" => p.op = v.trim().into(),
            _ => return None,
        }
    }
    if seen_u { Some(p) } else { None }
}

impl C11 {
    /// Check one sequence (and its neighbours); `filter` = (c1, c2, op) with `*` wildcards.
    fn check_seq(&self, env: &Env, u: &[u16], vs: &[Vec<u16>], filter: (&str, &str, &str), mut labels: Vec<&'static str>) -> CaseOut {
        crate::run::install_panic_hook();
        let strict = env.replay;
        let res = std::panic::catch_unwind(std::panic::AssertUnwindSafe(|| check_units(u, vs, strict)));
        let out = match res {
            Ok(o) => o,
            Err(_) => {
                let desc = crate::run::take_last_panic().unwrap_or_else(|| "unknown panic".into());
                return CaseOut::fail(render(u, vs, "*", "*"), format!("panic {}", crate::run::panic_signature(&desc)), desc).with_labels(labels);
            }
        };
        let non_ascii = u.iter().any(|x| *x >= 0x80);
        if non_ascii {
            labels.push("unit>=0x80");
        }
        if u.iter().any(|x| is_hi(*x) || is_lo(*x)) {
            labels.push(if m_to_string(u).is_some() { "surrogate-pairs-only" } else { "lone-surrogate" });
        }
        if all_latin1(u).is_some() && non_ascii {
            labels.push("latin1-high");
        }
        for r in &out.reprs {
            labels.push(match r.as_str() {
                "Latin1Sequence/L1" => "repr:Latin1Sequence",
                "Utf16Sequence/U16" => "repr:Utf16Sequence",
                "Slice/L1" => "repr:Slice/L1",
                "Slice/U16" => "repr:Slice/U16",
                "Static/L1" => "repr:Static/L1",
                "Static/U16" => "repr:Static/U16",
                _ => "repr:other",
            });
        }
        if out.tolerated > 0 {
            labels.push("excluded-known-str-eq");
        }
        if out.tolerated_num > 0 {
            labels.push("excluded-known-to-number");
        }
        if !vs.is_empty() {
            labels.push("with-neighbours");
        }
        let hit = out.fails.iter().find(|f| {
            (filter.0 == "*" || filter.0 == f.c1) && (filter.1 == "*" || filter.1 == f.c2) && (filter.2 == "*" || op_class(filter.2) == op_class(&f.op))
        });
        if let Some(f) = hit {
            let rendered = render(u, vs, &format!("{},{}", f.c1, f.c2), op_class(&f.op));
            let detail = format!("units [{}]  constructors {} / {}  operation {}\n{}\n({} constructors, {} comparisons in this case, {} failing)", hex_units(u), f.c1, f.c2, f.op, f.detail, out.constructors, out.checks, out.nfails);
            return CaseOut::fail(rendered, f.op.clone(), detail).with_labels(labels);
        }
        // non-trivial: a unit >= 0x80 (or surrogate) and at least two different representations compared
        let nontrivial = non_ascii && out.reprs.len() >= 2;
        CaseOut::pass(render(u, vs, filter_pair(filter).as_str(), filter.2), nontrivial).with_labels(labels)
    }

    fn check_js(&self, env: &mut Env, src: &str, labels: Vec<&'static str>, nontrivial: bool) -> CaseOut {
        let node = match env.node() {
            Ok(n) => n,
            Err(e) => return CaseOut::skip(src.to_string(), format!("oracle-unavailable: {e}")),
        };
        let (np, nc) = match node_script(node, src) {
            Ok(x) => x,
            Err(e) => return CaseOut::skip(src.to_string(), format!("oracle-error: {e}")),
        };
        if nc == "limit:timeout" {
            return CaseOut::skip(src.to_string(), "v8-timeout");
        }
        let t = run(src, &RunCfg::default());
        if t.completion.is_limit() {
            return CaseOut::skip(src.to_string(), "boa-limit");
        }
        let bc = t.completion.render();
        if t.prints != np {
            let k = t.prints.iter().zip(np.iter()).position(|(a, b)| a != b).unwrap_or(t.prints.len().min(np.len()));
            let tag = t.prints.get(k).or(np.get(k)).and_then(|l| l.split(' ').next()).unwrap_or("?").to_string();
            let class = if matches!(t.completion, Completion::Panic(_)) { format!(" panic {bc}") } else { String::new() };
            let detail = format!("line {k}: boa={:?} v8={:?}\n--- boa\n{}\n--- v8\n{}\n=> {nc}", t.prints.get(k), np.get(k), t.render(), np.join("\n"));
            return CaseOut::fail(src.to_string(), format!("js: prints-differ at {tag}{class}"), detail).with_labels(labels);
        }
        if bc != nc {
            let strip = |s: &str| s.split(':').take(2).collect::<Vec<_>>().join(":");
            return CaseOut::fail(src.to_string(), format!("js: completion boa={} v8={}", strip(&bc), strip(&nc)), format!("boa: {bc}\nv8: {nc}\n{}", t.render())).with_labels(labels);
        }
        CaseOut::pass(src.to_string(), nontrivial && t.prints.len() >= 3).with_labels(labels)
    }
}

fn filter_pair(f: (&str, &str, &str)) -> String {
    if f.0 == "*" && f.1 == "*" { "*".into() } else { format!("{},{}", f.0, f.1) }
}

fn exhaustive_len(tier: Tier) -> u32 {
    if tier == Tier::Quick { 2 } else { 3 }
}

/// deterministic neighbours for the exhaustive stream
fn fixed_neighbours(u: &[u16]) -> Vec<Vec<u16>> {
    let mut t = Tape::new(&[]);
    let mut out: Vec<Vec<u16>> = vec![];
    for kind in [0usize, 2, 4, 5, 7] {
        if let Some((_, v)) = neighbour(u, kind, &mut t) {
            out.push(v);
        }
    }
    let mut w = u.to_vec();
    w.push(0x100);
    out.push(w);
    out.sort();
    out.dedup();
    out
}

impl Prop for C11 {
    fn id(&self) -> &'static str {
        "C11"
    }
    fn streams(&self, tier: Tier) -> Vec<Stream> {
        match tier {
            Tier::Quick => vec![
                Stream::new("exhaustive-len<=2", exhaustive_count(2), 8).batch(12).exhaustive(),
                Stream::new("random", 12_000, 200).batch(100),
                Stream::new("js", 1_500, 120).batch(25),
            ],
            Tier::Thorough => vec![
                Stream::new("exhaustive-len<=3", exhaustive_count(3), 8).batch(40).exhaustive(),
                Stream::new("random", 1_000_000, 200).batch(500),
                Stream::new("js", 60_000, 120).batch(100),
            ],
        }
    }
    fn rule(&self) -> String {
        "code-unit sequences u over {a Z 0 space 7F 80 E9 FF 100 3C0 2028 FEFF D800 DBFF DC00 DFFF FFFF, astral pair}: exhaustively for <= 2 symbols (thorough <= 3), randomly (tape) for <= 64 units incl. Latin-1-only, static words, numeric text, whitespace-padded, surrogate-heavy modes, each with 'almost equal' neighbours v (unit changed/appended/dropped, low byte, UTF-8 bytes as Latin-1). u is built through every applicable boa_string constructor (from &[u16]/&str/String/FromStr/Cow/JsStr latin1+utf16, Latin1/Utf16/Common builders by push/chunk/iter/clone, concat/concat_array of every split, slice/get out of Latin-1 and UTF-16 parents, trim of padded parents, StaticJsStrings lookup, own StaticString, clone, into_raw/from_raw); every public operation of every constructed string is compared with a naive [u16] reference, every constructor pair with ==/Ord/Hash(Default+Fx)/HashMap/BTreeMap, u-vs-v pairs must be unequal and ordered like the code units. js stream: the value built by 3-7 JS routes, observed via ===, <, keys, Map/Set, Symbol.for, switch, indexOf, normalize(form)/@@toPrimitive(hint) and compared with V8. Non-trivial = u contains a unit >= 0x80 (or a surrogate) AND at least two different representations (Latin1Sequence/Utf16Sequence/Slice/Static x Latin-1/UTF-16 buffer) [js: >= 3 routes] were compared; distinct = distinct u (+ neighbours) / distinct source".into()
    }
    fn assumptions(&self) -> Vec<String> {
        vec![
            "the reference is genp::c11model (UTF-16 decoding, ECMAScript WhiteSpace, StringIndexOf, StringToNumber grammar + Rust f64 parsing) and std slice semantics for get(range)".into(),
            "Hash is required to agree across representations, not to follow a particular byte scheme".into(),
            "V8 (node 20) is the reference of the js stream".into(),
        ]
    }
    fn rendered_prefix_lines(&self, _rendered: &str) -> usize {
        0
    }
    fn run_case(&self, env: &mut Env, stream: &str, index: u64, tape: &[u8]) -> CaseOut {
        if stream.starts_with("exhaustive") {
            if index >= exhaustive_count(exhaustive_len(env.tier)) {
                return CaseOut::skip(format!("index {index}"), "index-out-of-range");
            }
            let u = seq_of_index(index);
            let vs = fixed_neighbours(&u);
            return self.check_seq(env, &u, &vs, ("*", "*", "*"), vec![]);
        }
        if stream == "js" {
            let c = c11js::generate(tape);
            let nontrivial = c.units.iter().any(|x| *x >= 0x80) && c.routes >= 3;
            return self.check_js(env, &c.src, c.labels, nontrivial);
        }
        let mut t = Tape::new(tape);
        let g = gen_units(&mut t, 64);
        let mut labels = vec![match g.mode {
            "alphabet" => "mode:alphabet",
            "latin1-only" => "mode:latin1-only",
            "static-word" => "mode:static-word",
            "numeric" => "mode:numeric",
            "ws-padded" => "mode:ws-padded",
            _ => "mode:surrogates",
        }];
        labels.push(match g.units.len() {
            0 => "len:0",
            1..=4 => "len:1-4",
            5..=16 => "len:5-16",
            _ => "len:17-64",
        });
        let mut vs: Vec<Vec<u16>> = vec![];
        for _ in 0..t.below(4) {
            let kind = t.below(8);
            if let Some((name, v)) = neighbour(&g.units, kind, &mut t) {
                labels.push(match name {
                    "append-a" | "append-unit" => "nb:append",
                    "drop-last" | "drop-first" => "nb:drop",
                    "change-unit" => "nb:change-unit",
                    "utf8-bytes" => "nb:utf8-bytes",
                    "low-byte" => "nb:low-byte",
                    _ => "nb:flip-bit8",
                });
                if !vs.contains(&v) {
                    vs.push(v);
                }
            }
        }
        self.check_seq(env, &g.units, &vs, ("*", "*", "*"), labels)
    }
    fn run_rendered(&self, env: &mut Env, stream: &str, rendered: &str) -> Option<CaseOut> {
        if stream == "js" {
            return Some(self.check_js(env, rendered, vec![], true));
        }
        let p = parse_rendered(rendered)?;
        Some(self.check_seq(env, &p.u, &p.vs, (&p.c1, &p.c2, &p.op), vec![]))
    }
}
