//! C14 — not implemented yet (stub).

use crate::driver::{CaseOut, Env, Prop, Stream, Tier};

pub struct C14;

impl Prop for C14 {
    fn id(&self) -> &'static str {
        "C14"
    }
    fn streams(&self, _tier: Tier) -> Vec<Stream> {
        vec![]
    }
    fn rule(&self) -> String {
        "stub".into()
    }
    fn run_case(&self, _env: &mut Env, _stream: &str, _index: u64, _tape: &[u8]) -> CaseOut {
        CaseOut::skip(String::new(), "stub")
    }
}
