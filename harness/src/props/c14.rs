//! C14 — array behaviour is independent of the internal element storage.
//!
//! A case is a JS script (see `genp::arr`): one history of steps over two arrays, executed once
//! per *variant* (storage route / Proxy / array-like). Oracles:
//!   * D-ext: V8 runs the same script; the whole trace must be equal (every variant).
//!   * D-cfg: within boa, all real-array routes (which reach the same logical starting array
//!     through different element-storage histories) must print identical segments.
//! The `__kind` native (boa run only) records the actual element storage of `a`/`b` after each
//! step in a side channel; it feeds the non-trivial rule and the labels, never the trace.

use crate::driver::{CaseOut, Env, Prop, Stream, Tier};
use crate::genp::arr::{Excl, MODES, PRELUDE, generate};
use crate::run::{Completion, RunCfg, run_with};
use boa_engine::{Context, JsResult, JsValue, NativeFunction, js_string, object::IndexProperties};
use std::cell::RefCell;

pub struct C14;

#[derive(Clone, Debug, PartialEq)]
enum Rec {
    Marker(String),
    Kind(i32, char),
}

thread_local! {
    static KINDS: RefCell<Vec<Rec>> = const { RefCell::new(Vec::new()) };
}

fn kind_native(_this: &JsValue, args: &[JsValue], _ctx: &mut Context) -> JsResult<JsValue> {
    let first = args.first().cloned().unwrap_or_default();
    if let Some(s) = first.as_string() {
        KINDS.with(|k| k.borrow_mut().push(Rec::Marker(s.to_std_string_escaped())));
        return Ok(JsValue::undefined());
    }
    let id = first.as_number().map_or(0, |n| n as i32);
    let kind = match args.get(1).and_then(JsValue::as_object) {
        Some(o) if o.is_array() => match o.borrow().properties().index_properties() {
            IndexProperties::DenseI32(_) => 'I',
            IndexProperties::DenseF64(_) => 'F',
            IndexProperties::DenseElement(_) => 'E',
            IndexProperties::SparseElement(_) => 'S',
            IndexProperties::SparseProperty(_) => 'P',
        },
        Some(_) => 'o',
        None => '-',
    };
    KINDS.with(|k| k.borrow_mut().push(Rec::Kind(id, kind)));
    Ok(JsValue::undefined())
}

/// (variant name, first line index, end line index) of each `== name` segment
fn segments(prints: &[String]) -> Vec<(String, usize, usize)> {
    let mut out: Vec<(String, usize, usize)> = vec![];
    for (i, l) in prints.iter().enumerate() {
        if let Some(n) = l.strip_prefix("== ") {
            if let Some(last) = out.last_mut() {
                last.2 = i;
            }
            out.push((n.to_string(), i + 1, prints.len()));
        }
    }
    out
}

/// op tag of the step the line `k` belongs to, and what part of the step's output it is
fn locate(prints: &[String], k: usize) -> (String, String) {
    let at = match prints.get(k) {
        None => "missing".to_string(),
        Some(l) if l.starts_with("> ") => "result".into(),
        Some(l) if l.starts_with("== ") => "marker".into(),
        Some(l) => l.trim_start().split(':').next().unwrap_or("").to_string(),
    };
    let mut j = k.min(prints.len().saturating_sub(1));
    loop {
        if let Some(l) = prints.get(j) {
            if let Some(rest) = l.strip_prefix("> ") {
                return (rest.split(' ').next().unwrap_or("").to_string(), at);
            }
            if l.starts_with("== ") && j != k {
                return ("start".into(), at);
            }
        }
        if j == 0 {
            return ("start".into(), at);
        }
        j -= 1;
    }
}

struct KindInfo {
    transitions: usize,
    methods_after: usize,
    kinds_seen: Vec<char>,
    start_kinds: Vec<(String, char)>,
}

/// Storage transitions observed in the first real-array segment, and the number of method steps
/// after the last one.
fn kind_info(recs: &[Rec], prints: &[String]) -> KindInfo {
    let mut info = KindInfo { transitions: 0, methods_after: 0, kinds_seen: vec![], start_kinds: vec![] };
    // split records per marker
    let mut segs: Vec<(String, Vec<(i32, char)>)> = vec![];
    for r in recs {
        match r {
            Rec::Marker(m) => segs.push((m.clone(), vec![])),
            Rec::Kind(id, k) => {
                if let Some(s) = segs.last_mut() {
                    s.1.push((*id, *k));
                }
            }
        }
    }
    for (name, ks) in &segs {
        if !MODES.contains(&name.as_str()) {
            if let Some((_, k)) = ks.first() {
                info.start_kinds.push((name.clone(), *k));
            }
        }
    }
    let Some((name, ks)) = segs.iter().find(|(n, _)| !MODES.contains(&n.as_str())) else { return info };
    // two records (a, b) per dump; dump 0 is the initial one, dump i (i >= 1) follows step i
    let mut last: std::collections::HashMap<i32, char> = Default::default();
    let mut last_transition_step = 0usize;
    for (d, pair) in ks.chunks(2).enumerate() {
        for (id, k) in pair {
            if !info.kinds_seen.contains(k) {
                info.kinds_seen.push(*k);
            }
            if *id == 0 || !"IFESP".contains(*k) {
                continue;
            }
            if let Some(prev) = last.get(id) {
                if prev != k {
                    info.transitions += 1;
                    last_transition_step = d;
                }
            }
            last.insert(*id, *k);
        }
    }
    // step tags of that segment: the `> tag` lines in order (episode sub-steps count as steps too,
    // each is followed by a dump, so dump index == number of `> ` lines so far)
    if let Some((_, lo, hi)) = segments(prints).into_iter().find(|(n, _, _)| n == name) {
        let tags: Vec<&str> = prints[lo..hi].iter().filter_map(|l| l.strip_prefix("> ")).map(|r| r.split(' ').next().unwrap_or("")).collect();
        info.methods_after = tags.iter().skip(last_transition_step).filter(|t| t.starts_with("m.")).count();
    }
    info
}

fn kind_label(k: char) -> Option<&'static str> {
    Some(match k {
        'I' => "storage-DenseI32",
        'F' => "storage-DenseF64",
        'E' => "storage-DenseElement",
        'S' => "storage-SparseElement",
        'P' => "storage-SparseProperty",
        _ => return None,
    })
}

impl C14 {
    fn check_src(&self, env: &mut Env, src: &str, mut labels: Vec<&'static str>) -> CaseOut {
        let rendered = src.to_string();
        KINDS.with(|k| k.borrow_mut().clear());
        let boa = run_with(src, &RunCfg::default(), |ctx| {
            ctx.register_global_builtin_callable(js_string!("__kind"), 2, NativeFunction::from_fn_ptr(kind_native)).expect("register __kind");
        });
        let recs = KINDS.with(|k| std::mem::take(&mut *k.borrow_mut()));
        if boa.completion.is_limit() {
            return CaseOut::skip(rendered, "boa-limit").with_labels(labels);
        }
        let segs = segments(&boa.prints);
        if let Completion::Panic(p) | Completion::EnginePanic(p) = &boa.completion {
            let (op, _) = locate(&boa.prints, boa.prints.len().saturating_sub(1));
            let route = segs.last().map_or("?", |s| s.0.as_str());
            return CaseOut::fail(rendered, format!("panic {p}; after op={op}; route={route}"), format!("boa panicked: {p}\nlast lines:\n{}", boa.prints.iter().rev().take(6).rev().cloned().collect::<Vec<_>>().join("\n"))).with_labels(labels);
        }
        // V8
        let node = match env.node() {
            Ok(n) => n,
            Err(e) => return CaseOut::skip(rendered, format!("oracle-unavailable: {e}")),
        };
        // own request (not oracle::node_script): a longer V8 timeout, the machine may be loaded
        let (np, nc) = match node.call(serde_json::json!({"kind": "script", "src": src, "timeout": 12000})) {
            Ok(v) => {
                let prints: Vec<String> = v["prints"].as_array().map(|a| a.iter().map(|x| x.as_str().unwrap_or("").to_string()).collect()).unwrap_or_default();
                (prints, v["completion"].as_str().unwrap_or("").to_string())
            }
            Err(e) => return CaseOut::skip(rendered, format!("oracle-error: {e}")),
        };
        if nc == "limit:timeout" {
            return CaseOut::skip(rendered, "v8-timeout").with_labels(labels);
        }
        // the V8 side buffers its lines and prints them in chunks (see the prelude)
        let np: Vec<String> = np.iter().flat_map(|p| p.split("\\u000a").filter(|l| !l.is_empty()).map(str::to_string).collect::<Vec<_>>()).collect();
        // D-cfg: all real-array routes print the same segment (boa vs boa)
        let arr_segs: Vec<&(String, usize, usize)> = segs.iter().filter(|s| !MODES.contains(&s.0.as_str())).collect();
        if let Some(reference) = arr_segs.first() {
            let r = &boa.prints[reference.1..reference.2];
            for s in arr_segs.iter().skip(1) {
                let o = &boa.prints[s.1..s.2];
                if r != o {
                    let k = r.iter().zip(o.iter()).position(|(x, y)| x != y).unwrap_or(r.len().min(o.len()));
                    let (op, at) = locate(&boa.prints, s.1 + k);
                    let v8_ref = np.get(reference.1 + k).cloned().unwrap_or_default();
                    let v8_oth = np.get(s.1 + k).cloned().unwrap_or_default();
                    let detail = format!(
                        "same logical array, different storage route, different behaviour at line {k} of the segment (step {op}, {at})\nboa route {}: {:?}\nboa route {}: {:?}\nv8  route {}: {:?}\nv8  route {}: {:?}\nprevious lines (route {}):\n{}",
                        reference.0,
                        r.get(k),
                        s.0,
                        o.get(k),
                        reference.0,
                        v8_ref,
                        s.0,
                        v8_oth,
                        s.0,
                        o[k.saturating_sub(4)..k.min(o.len())].join("\n")
                    );
                    return CaseOut::fail(rendered, format!("storage-dependent op={op}; at={at} route={}", s.0), detail).with_labels(labels);
                }
            }
        }
        // D-ext: whole trace vs V8
        if boa.prints != np {
            let k = boa.prints.iter().zip(np.iter()).position(|(x, y)| x != y).unwrap_or(boa.prints.len().min(np.len()));
            let longer = if boa.prints.len() >= np.len() { &boa.prints } else { &np };
            let (op, at) = locate(longer, k);
            let route = segs.iter().rev().find(|s| s.1 <= k + 1).map_or("?", |s| s.0.as_str());
            let lo = k.saturating_sub(4);
            let detail = format!(
                "trace differs from V8 at line {k} (route {route}, step {op}, {at})\nboa: {:?}\nv8:  {:?}\nprevious lines:\n{}",
                boa.prints.get(k),
                np.get(k),
                boa.prints[lo..k.min(boa.prints.len())].join("\n")
            );
            return CaseOut::fail(rendered, format!("v8-differs op={op}; at={at} route={route}"), detail).with_labels(labels);
        }
        let bc = boa.completion.render();
        if bc != nc {
            return CaseOut::fail(rendered, format!("completion boa={bc} v8={nc}"), format!("boa: {bc}\nv8: {nc}")).with_labels(labels);
        }
        // non-trivial rule + labels from the observed storage
        let info = kind_info(&recs, &boa.prints);
        for k in &info.kinds_seen {
            if let Some(l) = kind_label(*k) {
                labels.push(l);
            }
        }
        let distinct_start: std::collections::BTreeSet<char> = info.start_kinds.iter().map(|x| x.1).collect();
        if distinct_start.len() >= 2 {
            labels.push("routes-start-in-different-storage");
        }
        if distinct_start.len() >= 3 {
            labels.push("routes-start-in-3+-storages");
        }
        if info.transitions >= 2 {
            labels.push("transitions>=2");
        }
        if info.transitions >= 4 {
            labels.push("transitions>=4");
        }
        for m in MODES {
            if segs.iter().any(|s| s.0 == *m) {
                labels.push(match *m {
                    "proxy" => "mode-proxy",
                    "alike" => "mode-arraylike",
                    _ => "mode-arraylike-with-array-proto",
                });
            }
        }
        let nontrivial = info.transitions >= 2 && info.methods_after >= 3 && arr_segs.len() >= 2;
        if nontrivial {
            labels.push("nontrivial");
        }
        CaseOut::pass(rendered, nontrivial).with_labels(labels)
    }
}

impl Prop for C14 {
    fn id(&self) -> &'static str {
        "C14"
    }
    fn streams(&self, tier: Tier) -> Vec<Stream> {
        let m = if tier == Tier::Quick { 1 } else { 60 };
        // development aid: BV_C14_CASES overrides the number of cases
        let n = std::env::var("BV_C14_CASES").ok().and_then(|s| s.parse().ok()).unwrap_or(3000 * m);
        vec![Stream::new("hist", n, 900).batch(40)]
    }
    fn rule(&self) -> String {
        "histories of 5-60 steps over two arrays generated from the byte tape by genp::arr (push/pop/shift/unshift/splice/length=/index stores of int,double,-0,NaN,string,object at dense/just-past-end/far/non-index keys, delete, literal holes, defineProperty on elements and length, freeze/seal/preventExtensions, all Array.prototype methods incl. callbacks that mutate the array, iteration protocols, key enumeration, prototype-chain elements incl. accessors and read-only ones, 2^32-1 length episodes); after every step a canonical dump (length, own keys in order, values with -0/NaN markers, descriptor flags, inherited-under-hole markers, extensibility) and the log of getter/setter/callback invocations. The history is executed on 5 real arrays that reach the same logical starting array by different storage routes (literal + 4 of: int->double->int, hole filled, defineProperty, Array(n)+stores, string replaced, attribute toggled, reverse stores, pop/length cut, push/Array.of, Array.from) and on 1-2 of {Proxy(arr), plain array-like, array-like inheriting Array.prototype}. Oracles: V8 runs the same script (whole trace equal, every variant); within boa all real-array routes must print identical segments. Non-trivial = in the first real-array route the engine's actual element storage (read through a side-channel native after every step, never printed) changed kind >= 2 times (DenseI32/DenseF64/DenseElement/SparseElement/SparseProperty, per object) and >= 3 Array.prototype method steps follow the last change, and >= 2 real-array routes ran; distinct = distinct script text".into()
    }
    fn assumptions(&self) -> Vec<String> {
        vec![
            "V8 (node 20) implements the specification's array algorithms for the generated operations; sort only with consistent comparators (default comparator only when ToString of the elements has no side effects); no implementation-defined text is printed (error names only)".into(),
            "known V8 deviations from the specification are avoided by guards inside the script (printed as 'v8-skip'): push() without items on a non-writable length; sort on length < 2 and toSorted on length 1; Object.isFrozen / Object.freeze of arrays whose writable length is the only unfrozen property; defineProperty on an element of a sealed object".into(),
            "generator exclusion for the open finding C14-e (label excluded-*): delete/defineProperty of non-index keys after a named property was reconfigured; the exclusions of the repaired findings C14-a..d (`arr.length = v` by name, spread syntax while a prototype has an accessor/read-only index property, the Proxy variant for histories with for-in plus an enumerable Array.prototype element) are switched off in genp::arr::Excl::default()".into(),
        ]
    }
    fn run_case(&self, env: &mut Env, _stream: &str, _index: u64, tape: &[u8]) -> CaseOut {
        let case = generate(tape, Excl::default());
        if let Ok(dir) = std::env::var("BV_C14_DUMP") {
            // development aid: keep the generated scripts
            if std::env::var_os("BV_C14_DUMP_ALL").is_some() {
                let _ = std::fs::write(format!("{dir}/case{_index}.js"), &case.src);
            }
        }
        let t0 = std::time::Instant::now();
        let marker = std::env::var("BV_C14_DUMP").ok().map(|dir| format!("{dir}/running-{}-{_index}.js", std::process::id()));
        if let Some(m) = &marker {
            // a case killed by the watchdog leaves its marker behind
            let _ = std::fs::write(m, &case.src);
        }
        let out = self.check_src(env, &case.src, case.labels);
        if let Some(m) = &marker {
            let _ = std::fs::remove_file(m);
        }
        if std::env::var_os("BV_C14_TIMING").is_some() && (t0.elapsed().as_millis() > 3000 || matches!(out.verdict, crate::driver::Verdict::Skip(_))) {
            eprintln!("slow case {_index}: {} ms {:?}", t0.elapsed().as_millis(), matches!(out.verdict, crate::driver::Verdict::Skip(_)));
        }
        out
    }
    fn run_rendered(&self, env: &mut Env, _stream: &str, rendered: &str) -> Option<CaseOut> {
        if rendered.is_empty() {
            return Some(CaseOut::skip(String::new(), "empty"));
        }
        Some(self.check_src(env, rendered, vec![]))
    }
    fn rendered_prefix_lines(&self, rendered: &str) -> usize {
        if rendered.starts_with(PRELUDE) { PRELUDE.lines().count() } else { 0 }
    }
}
