//! C12 — value tagging is lossless, unambiguous and configuration-independent.
//!
//! Streams (see `rule()`):
//!   i32, i32-near        round trip of int32 through the public `JsValue` API (quick: every 2^8-th + neighbourhoods,
//!                        thorough: all 2^32, split into 65 536 index chunks)
//!   f64-structured       sign x 2048 exponents x 16 tag-nibble values x 64 boundary mantissas, boundary values,
//!                        the whole quiet-NaN space top-16 x pointer-like low bits (exhaustive enumeration in both tiers)
//!   f64-random           tape-chosen bit patterns (uniform + danger-zone biased)
//!   heap                 booleans/null/undefined + strings/symbols/bigints/objects created in bulk; identity, refcounts,
//!                        GC survival, and NaN patterns crafted from the *live* tagged pointers
//!   script               JS programs manufacturing f64 bit patterns through typed arrays / DataView, compared with V8
//!   script-f16           all 65 536 binary16 patterns through Float16Array/DataView.getFloat16 against a Rust model
//!   two-build            nan-boxed build vs `--features jsvalue-enum` build of this same crate
//!
//! Two-build design: the second binary lives in `$BV_ROOT/harness/target-enum/debug/bv`. A `two-build` case evaluates a
//! list of *items* (API lines such as `f64-block sign=0 exp=0x7ff`, heap op lists, JS programs) in this process, writes
//! the same items into a replay file for the hidden stream `emit`, runs `<other> replay C12 <file>` with
//! `BV_C12_EMIT=<out>` (the other build's `run_rendered("emit")` evaluates the items and writes its outputs to <out>),
//! and compares output by output. The thorough tier (re)builds the second binary with cargo from `streams()` of the
//! parent `check` process (there is no other parent-side hook; main.rs must not be edited); the quick tier only uses
//! a second binary that already exists and is not older than the sources. Unavailable => cases are skipped with the
//! reason (never a violation).

use crate::driver::{CaseOut, Env, Prop, Stream, Tier};
use crate::genp::prog::{Opts, generate};
use crate::oracle::{node_script, verif_root};
use crate::run::{RunCfg, run};
use crate::tape::Tape;
use boa_engine::object::builtins::JsArray;
use boa_engine::value::{Numeric, Type};
use boa_engine::{Context, JsBigInt, JsObject, JsString, JsSymbol, JsValue, JsVariant, js_string};
use std::hash::{Hash, Hasher};
use std::path::PathBuf;
use std::sync::OnceLock;

pub struct C12;

// ---------------------------------------------------------------------------------------------------------------
// exclusions for on-tree findings (true = the generator avoids the construct); none needed so far
/// C12-a (= F14 of DESIGN.md): Int8/Uint8/Int16/Uint16 typed-array element conversion saturates instead of wrapping.
const EXCLUDE_SMALL_INT_TA_CONVERSION: bool = false;
/// C12-b: String/Array.prototype.at(x) negates ToIntegerOrInfinity(x) = i64::MIN for x <= -2^63 (overflow panic).
const EXCLUDE_AT_BELOW_I64_MIN: bool = false;

// ---------------------------------------------------------------------------------------------------------------
// the abstract value and its observation through the public API

const QNAN: u64 = 0x7FF8_0000_0000_0000;
const LOW48: u64 = 0x0000_FFFF_FFFF_FFFF;

/// (signature, detail)
type Fail = (String, String);

fn norm(bits: u64) -> u64 {
    if f64::from_bits(bits).is_nan() { QNAN } else { bits }
}

#[derive(Clone, Copy, Debug, PartialEq, Eq)]
enum Abs {
    Undefined,
    Null,
    Bool(bool),
    /// number, by bits; every NaN is QNAN here
    Num(u64),
    Str,
    Sym,
    Big,
    Obj,
}

const PRED_NAMES: [&str; 8] = ["is_undefined", "is_null", "is_boolean", "is_number", "is_string", "is_symbol", "is_bigint", "is_object"];

fn preds(v: &JsValue) -> u32 {
    u32::from(v.is_undefined())
        | u32::from(v.is_null()) << 1
        | u32::from(v.is_boolean()) << 2
        | u32::from(v.is_number()) << 3
        | u32::from(v.is_string()) << 4
        | u32::from(v.is_symbol()) << 5
        | u32::from(v.is_bigint()) << 6
        | u32::from(v.is_object()) << 7
}

fn pred_list(m: u32) -> String {
    let l: Vec<&str> = (0..8).filter(|k| m & (1 << k) != 0).map(|k| PRED_NAMES[k]).collect();
    format!("[{}]", l.join(","))
}

/// The model of `JsValue::as_i32` on a number.
fn as_i32_model(x: f64) -> Option<i32> {
    if x.is_finite() && x == x.trunc() && (-2_147_483_648.0..=2_147_483_647.0).contains(&x) && !(x == 0.0 && x.is_sign_negative()) {
        Some(x as i32)
    } else {
        None
    }
}

/// Observe a value through every public classification path and demand that they agree with each other.
fn observe(v: &JsValue) -> Result<Abs, String> {
    let m = preds(v);
    if m.count_ones() != 1 {
        return Err(format!("is_* predicates not exclusive: {}", pred_list(m)));
    }
    let k = m.trailing_zeros() as usize;
    let var = v.variant();
    let vk = match &var {
        JsVariant::Undefined => 0,
        JsVariant::Null => 1,
        JsVariant::Boolean(_) => 2,
        JsVariant::Integer32(_) | JsVariant::Float64(_) => 3,
        JsVariant::String(_) => 4,
        JsVariant::Symbol(_) => 5,
        JsVariant::BigInt(_) => 6,
        JsVariant::Object(_) => 7,
    };
    if vk != k {
        return Err(format!("variant() is {var:?} but the predicate that holds is {}", PRED_NAMES[k]));
    }
    let ty = v.get_type();
    let want_ty = [Type::Undefined, Type::Null, Type::Boolean, Type::Number, Type::String, Type::Symbol, Type::BigInt, Type::Object][k];
    if ty != want_ty {
        return Err(format!("get_type() is {ty:?} but the predicate that holds is {}", PRED_NAMES[k]));
    }
    let tof = v.type_of();
    let tof_ok = match k {
        0 => tof == "undefined",
        1 => tof == "object",
        2 => tof == "boolean",
        3 => tof == "number",
        4 => tof == "string",
        5 => tof == "symbol",
        6 => tof == "bigint",
        _ => tof == "object" || tof == "function",
    };
    if !tof_ok || var.type_of() != tof {
        return Err(format!("type_of() is {tof:?} (variant: {:?}) but the predicate that holds is {}", var.type_of(), PRED_NAMES[k]));
    }
    if v.is_null_or_undefined() != (k <= 1) {
        return Err(format!("is_null_or_undefined() = {} with {}", v.is_null_or_undefined(), PRED_NAMES[k]));
    }
    let acc = [
        false,
        false,
        v.as_boolean().is_some(),
        v.as_number().is_some(),
        v.as_string().is_some(),
        v.as_symbol().is_some(),
        v.as_bigint().is_some(),
        v.as_object().is_some(),
    ];
    for (j, a) in acc.iter().enumerate().skip(2) {
        if *a != (j == k) {
            return Err(format!("as_* accessor #{j} ({}) returns Some={a} while {} holds", PRED_NAMES[j].replace("is_", "as_"), PRED_NAMES[k]));
        }
    }
    if k != 3 && v.as_i32().is_some() {
        return Err(format!("as_i32() is Some on a non-number ({})", PRED_NAMES[k]));
    }
    Ok(match k {
        0 => Abs::Undefined,
        1 => Abs::Null,
        2 => {
            let b = v.as_boolean().unwrap_or(false);
            if var != JsVariant::Boolean(b) {
                return Err(format!("as_boolean()={b} but variant()={var:?}"));
            }
            Abs::Bool(b)
        }
        3 => {
            let n = v.as_number().unwrap_or(0.0);
            match var {
                JsVariant::Integer32(i) => {
                    if f64::from(i).to_bits() != n.to_bits() {
                        return Err(format!("variant()=Integer32({i}) but as_number()={n:?}"));
                    }
                }
                JsVariant::Float64(f) => {
                    if norm(f.to_bits()) != norm(n.to_bits()) {
                        return Err(format!("variant()=Float64({:#018x}) but as_number()={:#018x}", f.to_bits(), n.to_bits()));
                    }
                }
                _ => {}
            }
            let ai = v.as_i32();
            if ai != as_i32_model(n) {
                return Err(format!("as_i32()={ai:?} but as_number()={n:?} ({:#018x})", n.to_bits()));
            }
            Abs::Num(norm(n.to_bits()))
        }
        4 => Abs::Str,
        5 => Abs::Sym,
        6 => Abs::Big,
        _ => Abs::Obj,
    })
}

fn std_hash(v: &JsValue) -> u64 {
    let mut h = std::collections::hash_map::DefaultHasher::new();
    v.hash(&mut h);
    h.finish()
}

fn mix(h: u64, x: u64) -> u64 {
    (h ^ x).wrapping_mul(0x0000_0100_0000_01B3).rotate_left(23)
}

/// Full check of one number value that was built from `x` by constructor `ctor`.
/// Returns the digest of the abstract observation.
fn check_num(kind: &str, v: JsValue, x_bits: u64, ctor: &str) -> Result<u64, Fail> {
    let want = Abs::Num(norm(x_bits));
    let x = f64::from_bits(x_bits);
    let input = if kind == "i32" { format!("{x}") } else { format!("{x_bits:#018x}") };
    let inc = |e: String| (format!("{kind}: inconsistent classification"), format!("input {input} via {ctor}: {e}"));
    let o = observe(&v).map_err(inc)?;
    if o != want {
        let what = if matches!(o, Abs::Num(_)) { "number value changed" } else { "number read back as another type" };
        return Err((format!("{kind}: {what}"), format!("input {input} via {ctor}: expected {want:x?}, observed {o:x?}")));
    }
    let tb = v.to_boolean();
    if tb != (x != 0.0 && !x.is_nan()) {
        return Err((format!("{kind}: to_boolean"), format!("input {input} via {ctor}: to_boolean()={tb}")));
    }
    // clone / equality / hash
    let c = v.clone();
    let oc = observe(&c).map_err(inc)?;
    if oc != want {
        return Err((format!("{kind}: clone changed the value"), format!("input {input} via {ctor}: clone observed {oc:x?}, expected {want:x?}")));
    }
    if !JsValue::same_value(&v, &c) || JsValue::strict_equals(&v, &c) != !x.is_nan() || v != c || std_hash(&v) != std_hash(&c) {
        return Err((
            format!("{kind}: clone not equal to original"),
            format!("input {input} via {ctor}: same_value={} strict_equals={} eq={} hash-equal={}", JsValue::same_value(&v, &c), JsValue::strict_equals(&v, &c), v == c, std_hash(&v) == std_hash(&c)),
        ));
    }
    drop(c);
    let o2 = observe(&v).map_err(inc)?;
    if o2 != want {
        return Err((format!("{kind}: drop of a clone changed the value"), format!("input {input} via {ctor}: observed {o2:x?}")));
    }
    // mem::take
    let mut slot = v;
    let taken = std::mem::take(&mut slot);
    let (os, ot) = (observe(&slot).map_err(inc)?, observe(&taken).map_err(inc)?);
    if os != Abs::Undefined || ot != want {
        return Err((format!("{kind}: mem::take"), format!("input {input} via {ctor}: slot after take {os:x?}, taken {ot:x?}, expected {want:x?}")));
    }
    // through JsVariant and back
    let back = JsValue::from(taken.variant());
    let ob = observe(&back).map_err(inc)?;
    if ob != want {
        return Err((format!("{kind}: JsVariant round trip"), format!("input {input} via {ctor}: observed {ob:x?}, expected {want:x?}")));
    }
    let Abs::Num(b) = want else { unreachable!() };
    Ok(mix(mix(b, u64::from(tb)), as_i32_model(x).map_or(u64::MAX, |i| i as u32 as u64)))
}

/// All constructors of a double.
fn check_f64(bits: u64) -> Result<u64, Fail> {
    let x = f64::from_bits(bits);
    let mut d = check_num("f64", JsValue::new(x), bits, "JsValue::new(f64)")?;
    d = mix(d, check_num("f64", JsValue::rational(x), bits, "JsValue::rational")?);
    d = mix(d, check_num("f64", JsValue::from(JsVariant::Float64(x)), bits, "JsValue::from(JsVariant::Float64)")?);
    d = mix(d, check_num("f64", JsValue::from(Numeric::from(x)), bits, "JsValue::from(Numeric::Number)")?);
    let f = x as f32;
    if x.is_nan() || f64::from(f).to_bits() == bits {
        d = mix(d, check_num("f64", JsValue::new(f), bits, "JsValue::new(f32)")?);
    }
    if x == x.trunc() && x.abs() < 9.0e18 && !(x == 0.0 && x.is_sign_negative()) {
        let i = x as i64;
        d = mix(d, check_num("f64", JsValue::new(i), bits, "JsValue::new(i64)")?);
        if i >= 0 {
            d = mix(d, check_num("f64", JsValue::new(i as u64), bits, "JsValue::new(u64)")?);
            if let Ok(u) = u32::try_from(i) {
                d = mix(d, check_num("f64", JsValue::new(u), bits, "JsValue::new(u32)")?);
            }
        }
        if let Ok(i) = i32::try_from(i) {
            d = mix(d, check_num("f64", JsValue::new(i), bits, "JsValue::new(i32)")?);
        }
    }
    Ok(d)
}

fn check_i32_full(x: i32) -> Result<u64, Fail> {
    let bits = f64::from(x).to_bits();
    let mut d = check_num("i32", JsValue::new(x), bits, "JsValue::new(i32)")?;
    d = mix(d, check_num("i32", JsValue::from(JsVariant::Integer32(x)), bits, "JsValue::from(JsVariant::Integer32)")?);
    d = mix(d, check_num("i32", JsValue::new(i64::from(x)), bits, "JsValue::new(i64)")?);
    d = mix(d, check_num("i32", JsValue::new(x as isize), bits, "JsValue::new(isize)")?);
    d = mix(d, check_num("i32", JsValue::new(f64::from(x)), bits, "JsValue::new(f64)")?);
    d = mix(d, check_num("i32", JsValue::from(Numeric::from(x)), bits, "JsValue::from(Numeric)")?);
    // the same 32 bits read as u32: >= 2^31 must not be stored as a (negative) int32
    let u = x as u32;
    let ub = f64::from(u).to_bits();
    d = mix(d, check_num("i32", JsValue::new(u), ub, "JsValue::new(u32)")?);
    d = mix(d, check_num("i32", JsValue::new(u64::from(u)), ub, "JsValue::new(u64)")?);
    if let Ok(s) = i16::try_from(x) {
        d = mix(d, check_num("i32", JsValue::new(s), bits, "JsValue::new(i16)")?);
    }
    Ok(d)
}

/// The lean check used by the exhaustive enumeration.
#[inline]
fn check_i32_fast(x: i32) -> Result<(), Fail> {
    let v = JsValue::new(x);
    let m = preds(&v);
    let ok_var = match v.variant() {
        JsVariant::Integer32(i) => i == x,
        JsVariant::Float64(f) => f.to_bits() == f64::from(x).to_bits(),
        _ => false,
    };
    let c = v.clone();
    let mut slot = v;
    let t = std::mem::take(&mut slot);
    if m == 8 && ok_var && c.as_i32() == Some(x) && c.as_number().map(f64::to_bits) == Some(f64::from(x).to_bits()) && t.as_i32() == Some(x) && slot.is_undefined() && t.get_type() == Type::Number && t.to_boolean() == (x != 0) {
        return Ok(());
    }
    // re-derive the precise failure
    match check_i32_full(x) {
        Err(f) => Err(f),
        Ok(_) => Err(("i32: fast path check failed".into(), format!("input {x}: predicates {} variant {:?} as_i32 {:?}", pred_list(m), t.variant(), t.as_i32()))),
    }
}

// ---------------------------------------------------------------------------------------------------------------
// classification of bit patterns (labels and the non-trivial rule)

fn near_boundary(x: f64) -> bool {
    [-2_147_483_648.0, 2_147_483_647.0, 9_007_199_254_740_992.0, -9_007_199_254_740_992.0].iter().any(|b| (x - b).abs() <= 2.0)
}

/// The stated non-trivial rule on one f64 bit pattern.
fn nontrivial_bits(b: u64) -> bool {
    let x = f64::from_bits(b);
    if x.is_nan() { b != QNAN } else { near_boundary(x) }
}

fn class_of(b: u64) -> &'static str {
    let x = f64::from_bits(b);
    let top = (b >> 48) & 0x7FFF;
    if x.is_nan() {
        if b == QNAN {
            "nan-canonical"
        } else if top >= 0x7FF9 {
            match top {
                0x7FF9 => "nan-tag-int32",
                0x7FFA => "nan-tag-boolean",
                0x7FFB => "nan-tag-other",
                0x7FFC => "nan-tag-object",
                0x7FFD => "nan-tag-string",
                0x7FFE => "nan-tag-symbol",
                _ => "nan-tag-bigint",
            }
        } else if top == 0x7FF8 {
            "nan-quiet-payload-or-negative"
        } else {
            "nan-signalling"
        }
    } else if x.is_infinite() {
        "infinity"
    } else if x == 0.0 {
        if x.is_sign_negative() { "neg-zero" } else { "pos-zero" }
    } else if near_boundary(x) {
        "near-i32-or-2^53-boundary"
    } else if b & 0x7FF0_0000_0000_0000 == 0 {
        "subnormal"
    } else if as_i32_model(x).is_some() {
        "integral-in-i32"
    } else if x == x.trunc() {
        "integral-beyond-i32"
    } else {
        "fractional"
    }
}

// ---------------------------------------------------------------------------------------------------------------
// enumerations

/// 64 boundary values of the low 48 mantissa bits.
fn boundary_mantissas() -> Vec<u64> {
    let mut m: Vec<u64> = vec![
        0,
        1,
        2,
        3,
        7,
        8,
        0x10,
        LOW48,
        LOW48 - 1,
        0x8000_0000_0000,
        0x7FFF_FFFF_FFFF,
        0x8000_0000_0001,
        0x4000_0000_0000,
        0xC000_0000_0000,
        0xFFFF_FFFF,
        0xFFFF_FFFE,
        0x1_0000_0000,
        0x1_0000_0001,
        0x7FFF_FFFF,
        0x8000_0000,
        0x8000_0001,
        0xFFFF_0000_0000,
        0xFFFF_FFFF_0000,
        0x0000_FFFF_FFFF_0000 & LOW48,
        0xAAAA_AAAA_AAAA,
        0x5555_5555_5555,
        // the mantissa tails of 2^31-1, 2^31+1, 2^53-1 style integers
        0xFFFF_FFC0_0000,
        0x0000_0020_0000,
        0xFFFF_FFFF_FFFE,
        // pointer-like
        0x5555_5555_5550,
        0x5555_5576_92A0,
        0x7FFF_FFFF_F000,
        0x7FFF_F7DD_1010,
        0x7F00_0000_0010,
        0x0000_0001_0008,
        0x0000_0040_0000,
        0x0000_6000_0000,
        0x00C0_0000_1000,
    ];
    let mut k = 4;
    while m.len() < 64 {
        let c = 1u64 << k;
        if !m.contains(&c) {
            m.push(c);
        }
        k += 1;
        if k >= 48 {
            k = 5;
            // second pass: all-ones below bit k
            while m.len() < 64 {
                let c = (1u64 << k) - 1;
                if !m.contains(&c) {
                    m.push(c);
                }
                k += 3;
            }
        }
    }
    m.truncate(64);
    m
}

const NAN_GROUPS: u64 = 64;
const N_STRUCT_BLOCKS: u64 = 4096;
/// structured stream: 4096 sign/exponent blocks + 1 boundary-value block + 16*64 NaN-space groups
const N_STRUCT_CASES: u64 = N_STRUCT_BLOCKS + 1 + 16 * NAN_GROUPS;

fn splitmix(mut x: u64) -> u64 {
    x = x.wrapping_add(0x9E37_79B9_7F4A_7C15);
    let mut z = x;
    z = (z ^ (z >> 30)).wrapping_mul(0xBF58_476D_1CE4_E5B9);
    z = (z ^ (z >> 27)).wrapping_mul(0x94D0_49BB_1331_11EB);
    z ^ (z >> 31)
}

/// Pointer-like / tag-payload-like low 48 bits, deterministic in (group, j).
fn pointer_like(g: u64, j: u64) -> u64 {
    let n = (g / 8) * 64 + j;
    (match g % 8 {
        0 => n,
        1 => 0x5555_5555_0000 + (n << 4),
        2 => 0x7FFF_F7A0_0000 + (n << 3),
        3 => 0x0000_0100_0000 + (n << 12),
        4 => splitmix(n) & 0xFFFF_FFFF,
        5 => LOW48 - n,
        6 => (1u64 << (n % 48)) | 8,
        _ => splitmix(n ^ 0xC12),
    }) & LOW48
}

fn nan_space_tops() -> Vec<u64> {
    (0x7FF8..=0x7FFFu64).chain(0xFFF8..=0xFFFFu64).collect()
}

fn boundary_values() -> Vec<u64> {
    let mut out = vec![];
    for k in [0, 1, 7, 8, 15, 16, 24, 30, 31, 32, 33, 52, 53, 54, 62, 63, 64, 127, 128, 1023] {
        for s in [1.0f64, -1.0] {
            let b = s * 2f64.powi(k);
            for d in -4..=4 {
                out.push((b + f64::from(d)).to_bits());
            }
            for d in [-0.5, 0.5, -0.25, 0.75] {
                out.push((b + d).to_bits());
            }
            for u in 1..=3u64 {
                out.push(b.to_bits() + u);
                out.push(b.to_bits() - u);
            }
        }
    }
    for x in [0.0, -0.0, f64::MIN_POSITIVE, f64::MAX, -f64::MAX, f64::EPSILON, 0.1, 0.5, 1.5, -1.5, 2_147_483_647.5, -2_147_483_648.5, f64::INFINITY, f64::NEG_INFINITY, f64::NAN, -f64::NAN] {
        out.push(x.to_bits());
    }
    for b in [1u64, 2, 0x000F_FFFF_FFFF_FFFF, 0x0010_0000_0000_0000, 0x8000_0000_0000_0001, 0x7FF0_0000_0000_0001, 0xFFF0_0000_0000_0001, 0x7FF7_FFFF_FFFF_FFFF, u64::MAX] {
        out.push(b);
    }
    out
}

fn i32_centers() -> Vec<i64> {
    let mut c = vec![0i64, i64::from(i32::MIN), i64::from(i32::MAX)];
    for k in 0..31 {
        c.push(1i64 << k);
        c.push(-(1i64 << k));
    }
    c
}

// ---------------------------------------------------------------------------------------------------------------
// API lines: the rendered form of the Rust-API streams

#[derive(Default)]
struct LineOk {
    digest: u64,
    values: u64,
    nontrivial: bool,
    labels: Vec<&'static str>,
}

/// a failing single value, rendered as its own API line
struct LineFail {
    rendered: String,
    sig: String,
    detail: String,
}

fn kv<'a>(line: &'a str, key: &str) -> Option<&'a str> {
    line.split_whitespace().find_map(|w| w.strip_prefix(key).and_then(|r| r.strip_prefix('=')))
}

fn parse_u64(s: &str) -> Option<u64> {
    if let Some(h) = s.strip_prefix("0x") { u64::from_str_radix(h, 16).ok() } else { s.parse().ok() }
}

fn is_api_line(s: &str) -> bool {
    let s = s.trim();
    !s.contains('\n') && ["i32 ", "f64 ", "i32-range ", "f64-block ", "f64-boundaries", "nan-space ", "heap"].iter().any(|p| s.starts_with(p))
}

fn f64_values(acc: &mut LineOk, it: impl Iterator<Item = u64>) -> Result<(), LineFail> {
    let mut classes: Vec<&'static str> = vec![];
    for b in it {
        match check_f64(b) {
            Ok(d) => acc.digest = mix(acc.digest, d),
            Err((sig, detail)) => return Err(LineFail { rendered: format!("f64 {b:#018x}"), sig, detail }),
        }
        acc.values += 1;
        acc.nontrivial |= nontrivial_bits(b);
        let c = class_of(b);
        if !classes.contains(&c) {
            classes.push(c);
        }
    }
    for c in classes {
        if !acc.labels.contains(&c) {
            acc.labels.push(c);
        }
    }
    Ok(())
}

fn run_api_line(line: &str) -> Result<LineOk, LineFail> {
    let line = line.trim();
    let mut acc = LineOk::default();
    let bad = |why: &str| LineFail { rendered: line.to_string(), sig: "harness: unparsable API line".into(), detail: why.to_string() };
    if let Some(r) = line.strip_prefix("i32 ") {
        let x: i32 = r.trim().parse().map_err(|_| bad("i32 value"))?;
        acc.digest = check_i32_full(x).map_err(|(sig, detail)| LineFail { rendered: line.to_string(), sig, detail })?;
        acc.values = 1;
        acc.nontrivial = near_boundary(f64::from(x));
        acc.labels.push("i32-single");
    } else if let Some(r) = line.strip_prefix("f64 ") {
        let b = parse_u64(r.trim()).ok_or_else(|| bad("f64 bits"))?;
        f64_values(&mut acc, std::iter::once(b))?;
    } else if line.starts_with("i32-range ") {
        let start: i64 = kv(line, "start").and_then(|s| s.parse().ok()).ok_or_else(|| bad("start"))?;
        let step: i64 = kv(line, "step").and_then(|s| s.parse().ok()).ok_or_else(|| bad("step"))?;
        let count: u64 = kv(line, "count").and_then(|s| s.parse().ok()).ok_or_else(|| bad("count"))?;
        let full = kv(line, "mode") != Some("fast");
        if step < 1 || count > (1 << 24) {
            return Err(bad("step/count out of range"));
        }
        let mut x = start;
        for _ in 0..count {
            if x > i64::from(i32::MAX) {
                break;
            }
            if x >= i64::from(i32::MIN) {
                let xi = x as i32;
                let r = if full { check_i32_full(xi).map(|d| acc.digest = mix(acc.digest, d)) } else { check_i32_fast(xi).map(|()| acc.digest = mix(acc.digest, xi as u32 as u64)) };
                if let Err((sig, detail)) = r {
                    return Err(LineFail { rendered: format!("i32 {xi}"), sig, detail });
                }
                acc.values += 1;
                acc.nontrivial |= xi <= i32::MIN + 2 || xi >= i32::MAX - 2;
            }
            x += step;
        }
        acc.labels.push(if full { "i32-range-full-check" } else { "i32-range-fast-check" });
        if start < 0 {
            acc.labels.push("i32-negative");
        }
        if acc.nontrivial {
            acc.labels.push("i32-at-MIN-or-MAX");
        }
    } else if line.starts_with("f64-block ") {
        let sign = kv(line, "sign").and_then(parse_u64).ok_or_else(|| bad("sign"))?;
        let exp = kv(line, "exp").and_then(parse_u64).ok_or_else(|| bad("exp"))?;
        if sign > 1 || exp > 0x7FF {
            return Err(bad("sign/exp out of range"));
        }
        let mants = boundary_mantissas();
        let it = (0..16u64).flat_map(|nib| mants.iter().map(move |m| (sign << 63) | (exp << 52) | (nib << 48) | m).collect::<Vec<_>>());
        f64_values(&mut acc, it)?;
    } else if line.starts_with("f64-boundaries") {
        f64_values(&mut acc, boundary_values().into_iter())?;
    } else if line.starts_with("nan-space ") {
        let top = kv(line, "top").and_then(parse_u64).ok_or_else(|| bad("top"))?;
        let g = kv(line, "group").and_then(parse_u64).ok_or_else(|| bad("group"))?;
        if top > 0xFFFF || g >= NAN_GROUPS {
            return Err(bad("top/group out of range"));
        }
        f64_values(&mut acc, (0..64).map(|j| (top << 48) | pointer_like(g, j)))?;
    } else if line.starts_with("heap") {
        return run_heap_line(line);
    } else {
        return Err(bad("unknown line kind"));
    }
    Ok(acc)
}

/// The API line of case `index` of the structured stream.
fn struct_line(index: u64) -> String {
    if index < N_STRUCT_BLOCKS {
        format!("f64-block sign={} exp={:#05x}", index >> 11, index & 0x7FF)
    } else if index == N_STRUCT_BLOCKS {
        "f64-boundaries".to_string()
    } else {
        let k = index - N_STRUCT_BLOCKS - 1;
        let tops = nan_space_tops();
        format!("nan-space top={:#06x} group={}", tops[(k / NAN_GROUPS) as usize % 16], k % NAN_GROUPS)
    }
}

fn i32_line(tier: Tier, index: u64) -> String {
    if tier == Tier::Quick {
        // every 2^8-th value: 1024 chunks of 16384 values
        format!("i32-range start={} step=256 count=16384 mode=full", i64::from(i32::MIN) + (index as i64) * 256 * 16384)
    } else {
        format!("i32-range start={} step=1 count=65536 mode=fast", i64::from(i32::MIN) + (index as i64) * 65536)
    }
}

fn i32_near_line(index: u64) -> String {
    let c = i32_centers();
    let c = c[index as usize % c.len()];
    let start = (c - 1024).max(i64::from(i32::MIN));
    let end = (c + 1024).min(i64::from(i32::MAX));
    format!("i32-range start={start} step=1 count={} mode=full", end - start + 1)
}

/// Run a rendered input consisting of API lines.
fn run_api_lines(rendered: &str, extra_labels: Vec<&'static str>) -> CaseOut {
    let mut labels = extra_labels;
    let mut nontrivial = false;
    let mut any = false;
    for line in rendered.lines().filter(|l| !l.trim().is_empty()) {
        any = true;
        match run_api_line(line) {
            Ok(ok) => {
                nontrivial |= ok.nontrivial;
                for l in ok.labels {
                    if !labels.contains(&l) {
                        labels.push(l);
                    }
                }
            }
            Err(f) => return CaseOut::fail(f.rendered, f.sig, f.detail).with_labels(labels),
        }
    }
    if !any {
        return CaseOut::skip(rendered.to_string(), "empty rendered input");
    }
    CaseOut::pass(rendered.to_string(), nontrivial).with_labels(labels)
}

// ---------------------------------------------------------------------------------------------------------------
// tape-driven bit patterns

fn low48(t: &mut Tape) -> u64 {
    (match t.below(12) {
        0 => 0,
        1 => 1,
        2 => 8,
        3 => LOW48,
        4 => 0x8000_0000_0000,
        5 => u64::from(t.u32()),
        6 => [0x7FFF_FFFF, 0x8000_0000, 0xFFFF_FFFF, 0x1_0000_0000][t.below(4)],
        7 => 0x5555_5555_0000 + (u64::from(t.u16()) << 4),
        8 => 0x7FFF_F000_0000 + (u64::from(t.u16()) << 3),
        9 => 1u64 << t.below(48),
        10 => (1u64 << t.below(48)) - 1,
        _ => t.u64(),
    }) & LOW48
}

/// One f64 bit pattern from the tape, biased to the NaN/tag danger zone and the integer boundaries.
fn gen_pattern(t: &mut Tape) -> (u64, &'static str) {
    match t.weighted(&[2, 9, 4, 5, 3, 4, 3, 3]) {
        0 => ([0.0f64, 1.0, -1.0, 2.0, -2.0, 3.0, 0.5][t.below(7)].to_bits(), "gen-small-int"),
        1 => {
            let sign = u64::from(t.bool());
            let top = 0x7FF8 | t.below(8) as u64;
            ((sign << 63) | (top << 48) | low48(t), "gen-nan-tag-space")
        }
        2 => {
            let sign = u64::from(t.bool());
            let nib = t.below(16) as u64;
            ((sign << 63) | (0x7FF << 52) | (nib << 48) | low48(t), "gen-exp-all-ones")
        }
        3 => {
            let k = [31, 32, 30, 53, 52, 63, 64, 16, 8][t.below(9)];
            let s = if t.bool() { -1.0 } else { 1.0 };
            let b = s * 2f64.powi(k);
            let bits = match t.below(3) {
                0 => (b + (t.below(5) as f64 - 2.0)).to_bits(),
                1 => (b + [-0.5, 0.5, -1.5, 1.5][t.below(4)]).to_bits(),
                _ => {
                    let u = t.below(5) as u64;
                    if u <= 2 { b.to_bits() + u } else { b.to_bits() - (u - 2) }
                }
            };
            (bits, "gen-int-boundary")
        }
        4 => {
            let l = [
                (-0.0f64).to_bits(),
                f64::INFINITY.to_bits(),
                f64::NEG_INFINITY.to_bits(),
                1,
                0x000F_FFFF_FFFF_FFFF,
                0x0010_0000_0000_0000,
                f64::MAX.to_bits(),
                f64::EPSILON.to_bits(),
                0x7FF0_0000_0000_0001,
                0xFFF0_0000_0000_0001,
                QNAN,
                0xFFF8_0000_0000_0000,
                u64::MAX,
                0x8000_0000_0000_0001,
            ];
            (l[t.below(l.len())], "gen-special")
        }
        5 => (t.u64(), "gen-uniform"),
        6 => {
            let sign = u64::from(t.bool());
            let exp = t.below(2048) as u64;
            let nib = t.below(16) as u64;
            ((sign << 63) | (exp << 52) | (nib << 48) | low48(t), "gen-exp-structured")
        }
        _ => {
            let i = t.u32() as i32;
            let x = f64::from(i) + [0.0, 0.0, 0.5, -0.5][t.below(4)];
            (x.to_bits(), "gen-i32-double")
        }
    }
}

// ---------------------------------------------------------------------------------------------------------------
// heap values

/// The raw 64 bits of a NaN-boxed value (white-box probe, only used to craft hostile NaN inputs from *live* tagged
/// pointers; absent under the enum representation).
#[cfg(not(feature = "jsvalue-enum"))]
fn raw_bits(v: &JsValue) -> Option<u64> {
    if size_of::<JsValue>() == 8 {
        // SAFETY: JsValue is a transparent-sized wrapper of one pointer-sized word in this configuration.
        Some(unsafe { std::ptr::read(std::ptr::from_ref(v).cast::<u64>()) })
    } else {
        None
    }
}
#[cfg(feature = "jsvalue-enum")]
fn raw_bits(_v: &JsValue) -> Option<u64> {
    None
}

enum Handle {
    Str(JsString),
    Sym(JsSymbol),
    Big(JsBigInt),
    Obj(JsObject),
    /// an object whose only remaining reference is inside the engine container (marker property = index)
    Gone,
}

const STATIC_STRINGS: [&str; 6] = ["length", "prototype", "constructor", "", "name", "toString"];

fn static_string(k: usize) -> JsString {
    match k % 6 {
        0 => js_string!("length"),
        1 => js_string!("prototype"),
        2 => js_string!("constructor"),
        3 => js_string!(""),
        4 => js_string!("name"),
        _ => js_string!("toString"),
    }
}

fn gen_heap_line(t: &mut Tape) -> String {
    let n = 48 + t.below(8) * 96;
    let mut s = String::from("heap");
    for i in 0..n {
        match t.weighted(&[5, 2, 2, 3, 1, 3, 2, 4, 3, 2, 1]) {
            0 => s.push_str(&format!(" S{}", t.below(200))),
            1 => s.push_str(&format!(" U{}", 1 + t.below(40))),
            2 => s.push_str(&format!(" s{}", t.below(6))),
            3 => s.push_str(" Y"),
            4 => s.push_str(" y"),
            5 => s.push_str(&format!(" B{}", i64::from(t.u32() as i32) * [1, 1, 65537, -4_294_967_297][t.below(4)])),
            6 => s.push_str(&format!(" G{}", 64 + t.below(400))),
            7 => s.push_str(" O"),
            8 => s.push_str(" P"),
            9 => s.push_str(" A"),
            _ => s.push_str(" F"),
        }
        let _ = i;
    }
    s
}

fn value_of(h: &Handle) -> JsValue {
    match h {
        Handle::Str(s) => JsValue::new(s.clone()),
        Handle::Sym(s) => JsValue::new(s.clone()),
        Handle::Big(b) => JsValue::new(b.clone()),
        Handle::Obj(o) => JsValue::new(o.clone()),
        Handle::Gone => JsValue::undefined(),
    }
}

fn abs_of(h: &Handle) -> Abs {
    match h {
        Handle::Str(_) => Abs::Str,
        Handle::Sym(_) => Abs::Sym,
        Handle::Big(_) => Abs::Big,
        Handle::Obj(_) | Handle::Gone => Abs::Obj,
    }
}

/// Is `v` the very heap value `h` (pointer identity / unique id), with the right type?
fn ident(h: &Handle, v: &JsValue) -> Result<(), String> {
    let o = observe(v)?;
    if o != abs_of(h) {
        return Err(format!("expected {:?}, observed {o:?}", abs_of(h)));
    }
    match h {
        Handle::Str(s) => {
            let before = s.refcount();
            let g = v.as_string().ok_or("as_string() is None")?;
            if g != *s {
                return Err(format!("string content changed: {:?} -> {:?}", s.to_std_string_escaped(), g.to_std_string_escaped()));
            }
            if s.is_static() != g.is_static() {
                return Err("static-ness of the string changed".into());
            }
            if let Some(b) = before {
                if s.refcount() != Some(b + 1) {
                    return Err(format!("as_string() did not return the same allocation: refcount {b} -> {:?} while the result is alive", s.refcount()));
                }
                drop(g);
                if s.refcount() != Some(b) {
                    return Err(format!("refcount not restored after dropping the as_string() result: {b} -> {:?}", s.refcount()));
                }
            }
            if v.type_of() != "string" {
                return Err(format!("type_of {}", v.type_of()));
            }
        }
        Handle::Sym(y) => {
            let g = v.as_symbol().ok_or("as_symbol() is None")?;
            if g.hash() != y.hash() || g != *y || g.description() != y.description() {
                return Err("as_symbol() returned another symbol".into());
            }
        }
        Handle::Big(b) => {
            let g = v.as_bigint().ok_or("as_bigint() is None")?;
            if !std::ptr::eq(g.as_inner(), b.as_inner()) {
                return Err("as_bigint() returned another allocation".into());
            }
            if g != *b {
                return Err("bigint value changed".into());
            }
        }
        Handle::Obj(ob) => {
            let g = v.as_object().ok_or("as_object() is None")?;
            if !JsObject::equals(&g, ob) {
                return Err("as_object() returned another object".into());
            }
            if v.is_callable() != ob.is_callable() || (v.type_of() == "function") != ob.is_callable() {
                return Err(format!("callability changed: is_callable={} type_of={}", v.is_callable(), v.type_of()));
            }
            match v.variant() {
                JsVariant::Object(g2) if JsObject::equals(&g2, ob) => {}
                other => return Err(format!("variant() returned {other:?}")),
            }
        }
        Handle::Gone => {}
    }
    Ok(())
}

fn str_rc(h: &Handle) -> Option<usize> {
    if let Handle::Str(s) = h { s.refcount() } else { None }
}

fn run_heap_line(line: &str) -> Result<LineOk, LineFail> {
    let mk = |sig: &str, detail: String| LineFail { rendered: line.to_string(), sig: format!("heap: {sig}"), detail };
    let toks: Vec<&str> = line.split_whitespace().skip(1).collect();
    let mut acc = LineOk::default();
    let mut ctx = Context::default();

    // primitives that are not numbers
    for (v, want, name) in [
        (JsValue::new(true), Abs::Bool(true), "true"),
        (JsValue::new(false), Abs::Bool(false), "false"),
        (JsValue::null(), Abs::Null, "null"),
        (JsValue::undefined(), Abs::Undefined, "undefined"),
        (JsValue::from(()), Abs::Null, "()"),
        (JsValue::default(), Abs::Undefined, "default"),
        (JsValue::from(JsVariant::Boolean(true)), Abs::Bool(true), "variant true"),
        (JsValue::from(JsVariant::Null), Abs::Null, "variant null"),
        (JsValue::from(JsVariant::Undefined), Abs::Undefined, "variant undefined"),
        (JsValue::nan(), Abs::Num(QNAN), "nan()"),
        (JsValue::positive_infinity(), Abs::Num(f64::INFINITY.to_bits()), "+inf"),
        (JsValue::negative_infinity(), Abs::Num(f64::NEG_INFINITY.to_bits()), "-inf"),
    ] {
        let o = observe(&v).map_err(|e| mk("inconsistent classification", format!("{name}: {e}")))?;
        let c = v.clone();
        let mut slot = v;
        let t = std::mem::take(&mut slot);
        let (oc, ot, os) = (observe(&c), observe(&t), observe(&slot));
        if o != want || oc != Ok(want) || ot != Ok(want) || os != Ok(Abs::Undefined) {
            return Err(mk("primitive changed", format!("{name}: expected {want:?}; new {o:?} clone {oc:?} taken {ot:?} slot {os:?}")));
        }
        let tb = t.to_boolean();
        if tb != matches!(want, Abs::Bool(true) | Abs::Num(0x7FF0_0000_0000_0000 | 0xFFF0_0000_0000_0000)) {
            return Err(mk("primitive to_boolean", format!("{name}: to_boolean {tb}")));
        }
        if !matches!(want, Abs::Num(QNAN)) && (!JsValue::strict_equals(&c, &t) || !JsValue::same_value(&c, &t)) {
            return Err(mk("primitive not equal to its clone", name.to_string()));
        }
        acc.digest = mix(acc.digest, u64::from(tb));
    }

    // create everything first so that addresses spread
    let mut handles: Vec<Handle> = Vec::with_capacity(toks.len());
    let mut ballast: Vec<Vec<u8>> = vec![];
    for (i, tok) in toks.iter().enumerate() {
        let (kind, arg) = tok.split_at(1);
        let n: i64 = arg.parse().unwrap_or(0);
        let h = match kind {
            "S" => {
                let body: String = format!("s{i}-").chars().chain(std::iter::repeat_n('x', n.clamp(0, 4096) as usize)).collect();
                acc.labels.push("heap-string");
                Handle::Str(JsString::from(body.as_str()))
            }
            "U" => {
                let body: String = format!("u{i}\u{3bb}").chars().chain(std::iter::repeat_n('\u{4e16}', n.clamp(0, 4096) as usize)).collect();
                acc.labels.push("heap-string-utf16");
                Handle::Str(JsString::from(body.as_str()))
            }
            "s" => {
                acc.labels.push("static-string");
                let s = static_string(n.unsigned_abs() as usize);
                if s.to_std_string_escaped() != STATIC_STRINGS[n.unsigned_abs() as usize % 6] {
                    return Err(mk("static string content", format!("{tok}")));
                }
                Handle::Str(s)
            }
            "Y" => {
                acc.labels.push("symbol");
                Handle::Sym(JsSymbol::new(Some(JsString::from(format!("sym{i}").as_str()))).ok_or_else(|| mk("symbol allocation failed", String::new()))?)
            }
            "y" => {
                acc.labels.push("symbol");
                Handle::Sym(JsSymbol::new(None).ok_or_else(|| mk("symbol allocation failed", String::new()))?)
            }
            "B" => {
                acc.labels.push("bigint");
                Handle::Big(JsBigInt::from(n))
            }
            "G" => {
                acc.labels.push("bigint-large");
                Handle::Big(JsBigInt::shift_left(&JsBigInt::from(2 * i as i64 + 1), &JsBigInt::from(n.clamp(0, 2000))).map_err(|e| mk("bigint shift failed", e.to_string()))?)
            }
            "O" => {
                acc.labels.push("object");
                Handle::Obj(JsObject::with_null_proto())
            }
            "P" => {
                acc.labels.push("object");
                Handle::Obj(JsObject::with_object_proto(ctx.intrinsics()))
            }
            "A" => {
                acc.labels.push("array-object");
                Handle::Obj(JsArray::new(&mut ctx).map_err(|e| mk("array allocation failed", e.to_string()))?.into())
            }
            "F" => {
                acc.labels.push("function-object");
                Handle::Obj(ctx.intrinsics().constructors().object().constructor())
            }
            _ => return Err(mk("harness: unknown heap token", (*tok).to_string())),
        };
        handles.push(h);
        ballast.push(vec![0u8; (i * 37) % 509 + 1]);
    }
    acc.labels.sort_unstable();
    acc.labels.dedup();

    // phase 1: per-value round trips
    let mut pages = std::collections::BTreeSet::new();
    let mut regions = std::collections::BTreeSet::new();
    let mut crafted = 0u64;
    for (i, h) in handles.iter().enumerate() {
        let at = |e: String| mk("round trip", format!("item {i} ({}): {e}", toks[i]));
        let rc0 = str_rc(h);
        let v = value_of(h);
        ident(h, &v).map_err(at)?;
        if let Some(r) = rc0 {
            if str_rc(h) != Some(r + 1) {
                return Err(mk("string refcount", format!("item {i}: JsValue::new(clone) took refcount {r} -> {:?}", str_rc(h))));
            }
        }
        let c = v.clone();
        ident(h, &c).map_err(at)?;
        if let Some(r) = rc0 {
            if str_rc(h) != Some(r + 2) {
                return Err(mk("string refcount", format!("item {i}: JsValue::clone took refcount to {:?}, expected {}", str_rc(h), r + 2)));
            }
        }
        if !JsValue::same_value(&v, &c) || !JsValue::strict_equals(&v, &c) || v != c || std_hash(&v) != std_hash(&c) {
            return Err(mk("clone not equal to original", format!("item {i} ({})", toks[i])));
        }
        drop(c);
        let mut slot = v;
        let t = std::mem::take(&mut slot);
        if observe(&slot) != Ok(Abs::Undefined) {
            return Err(mk("mem::take left a non-undefined value", format!("item {i}")));
        }
        ident(h, &t).map_err(at)?;
        let back = JsValue::from(t.variant());
        ident(h, &back).map_err(at)?;
        drop(back);
        if let Some(r) = rc0 {
            if str_rc(h) != Some(r + 1) {
                return Err(mk("string refcount", format!("item {i}: after clone/drop/take/variant refcount is {:?}, expected {}", str_rc(h), r + 1)));
            }
        }
        // hostile doubles made of the live tagged pointer
        let mut cands: Vec<u64> = vec![];
        if let Some(r) = raw_bits(&t) {
            if (r >> 52) & 0x7FF == 0x7FF {
                pages.insert((r & LOW48) >> 12);
                regions.insert((r & LOW48) >> 36);
                cands.extend([r, r | (1 << 63), r ^ (1 << 48), r ^ (1 << 49), r ^ (3 << 48)]);
                for tag in [0x7FF9u64, 0x7FFC, 0x7FFD, 0x7FFE, 0x7FFF, 0xFFFC] {
                    cands.push((tag << 48) | (r & LOW48));
                }
            }
        } else if let Handle::Obj(o) = h {
            let a = std::ptr::from_ref(o.as_ref()) as usize as u64 & LOW48;
            pages.insert(a >> 12);
            for tag in [0x7FFCu64, 0x7FFD, 0xFFFC] {
                cands.extend([(tag << 48) | a, (tag << 48) | a.wrapping_sub(16) & LOW48 | (tag << 48), (tag << 48) | a.wrapping_sub(24) & LOW48 | (tag << 48)]);
            }
        }
        for cand in cands {
            if f64::from_bits(cand).is_nan() {
                check_f64(cand).map_err(|(sig, detail)| LineFail { rendered: line.to_string(), sig: format!("heap: crafted NaN {sig}"), detail: format!("item {i} ({}): double {cand:#018x} made of the live tagged pointer: {detail}", toks[i]) })?;
                crafted += 1;
            }
        }
        ident(h, &t).map_err(|e| mk("value disturbed by a crafted NaN", format!("item {i}: {e}")))?;
        drop(t);
        if rc0.is_some() && str_rc(h) != rc0 {
            return Err(mk("string refcount", format!("item {i}: refcount not restored: {rc0:?} -> {:?}", str_rc(h))));
        }
        acc.digest = mix(acc.digest, match abs_of(h) { Abs::Str => 1, Abs::Sym => 2, Abs::Big => 3, _ => 4 });
        acc.values += 1;
    }

    // phase 2: engine containers + garbage collection (objects survive only through the traced JsValue)
    let arr = JsArray::new(&mut ctx).map_err(|e| mk("array allocation failed", e.to_string()))?;
    let map = boa_engine::object::builtins::JsMap::new(&mut ctx);
    for (i, h) in handles.iter_mut().enumerate() {
        let v = value_of(h);
        map.set(v.clone(), i as i32, &mut ctx).map_err(|e| mk("Map.set failed", e.to_string()))?;
        arr.push(v, &mut ctx).map_err(|e| mk("Array.push failed", e.to_string()))?;
        if let Handle::Obj(o) = h {
            if !o.is_callable() {
                o.set(js_string!("c12id"), i as i32, false, &mut ctx).map_err(|e| mk("marker set failed", e.to_string()))?;
                *h = Handle::Gone;
            }
        }
    }
    drop(ballast);
    boa_gc::force_collect();
    for (i, h) in handles.iter().enumerate() {
        let got = arr.get(i as u32, &mut ctx).map_err(|e| mk("Array get failed", e.to_string()))?;
        ident(h, &got).map_err(|e| mk("value changed inside an engine array across a collection", format!("item {i} ({}): {e}", toks[i])))?;
        if matches!(h, Handle::Gone) {
            let o = got.as_object().ok_or_else(|| mk("object lost", format!("item {i}")))?;
            let id = o.get(js_string!("c12id"), &mut ctx).map_err(|e| mk("marker get failed", e.to_string()))?;
            if id.as_i32() != Some(i as i32) {
                return Err(mk("object identity lost across a collection", format!("item {i}: marker reads {id:?}")));
            }
        }
        let k = map.get(got.clone(), &mut ctx).map_err(|e| mk("Map.get failed", e.to_string()))?;
        if k.as_i32() != Some(i as i32) && !toks[i].starts_with('s') && !toks[i].starts_with('F') && !toks[i].starts_with('B') {
            // static strings, the shared Object constructor and equal small bigints are legitimately the same key
            return Err(mk("Map lookup by the stored value", format!("item {i} ({}): Map.get returned {k:?}", toks[i])));
        }
    }
    acc.labels.push("heap-gc-roundtrip");
    if crafted > 0 {
        acc.labels.push("nan-crafted-from-live-tagged-pointer");
        acc.nontrivial = true;
    }
    if pages.len() >= 16 {
        acc.labels.push("heap-pointers-span-16+-pages");
    }
    if regions.len() >= 2 {
        acc.labels.push("heap-pointers-in-2+-address-regions");
    }
    Ok(acc)
}

// ---------------------------------------------------------------------------------------------------------------
// JS programs that manufacture bit patterns

pub const SCRIPT_PRELUDE: &str = "var B = new ArrayBuffer(16), F = new Float64Array(B), U = new BigUint64Array(B), W = new Uint32Array(B), Y = new Uint8Array(B), D = new DataView(B), G = new Float32Array(B);
var OB = new ArrayBuffer(16), OF = new Float64Array(OB), OU = new BigUint64Array(OB), OG = new Float32Array(OB), OW = new Uint32Array(OB), OD = new DataView(OB);
function bits(x) { if (typeof x !== 'number') return 'T=' + typeof x; if (x !== x) return 'NaN'; OF[0] = x; return OU[0].toString(16); }
function hx(b) { return b.toString(16); }
function id(x) { return x; }
function tr(f) { try { return f(); } catch (e) { return e instanceof RangeError ? 'RangeError' : e instanceof TypeError ? 'TypeError' : 'Error'; } }
";

const ACCESSORS: [&str; 16] = [
    "F.at(0)",
    "Array.from(F)[0]",
    "[...F][0]",
    "Reflect.get(F, 0)",
    "Object.getOwnPropertyDescriptor(F, '0').value",
    "F.subarray(0, 1)[0]",
    "F.slice(0, 1)[0]",
    "F.values().next().value",
    "F.entries().next().value[1]",
    "F.find(function () { return true; })",
    "F.map(id)[0]",
    "F.reduce(function (a, x) { return a === null ? x : a; }, null)",
    "Array.prototype.slice.call(F, 0, 1)[0]",
    "Object.values(F)[0]",
    "(function () { var r; F.forEach(function (x, k) { if (k === 0) r = x; }); return r; })()",
    "F['0']",
];

/// 32-bit float pattern whose widening lands in the danger zone.
fn f32_pattern(t: &mut Tape) -> u32 {
    match t.below(6) {
        0 => 0,
        1 => (u32::from(t.bool()) << 31) | 0x7FC0_0000 | ((t.below(8) as u32) << 19) | (t.u32() & 0x7_FFFF),
        2 => (u32::from(t.bool()) << 31) | 0x7F80_0000 | (t.u32() & 0x7F_FFFF),
        3 => [0x8000_0000u32, 0x7F80_0000, 0xFF80_0000, 0x4F00_0000, 0xCF00_0000, 0x4EFF_FFFF, 0x0000_0001, 0x7F7F_FFFF, 0x3F80_0000][t.below(9)],
        4 => ((t.u32() as i32) as f32).to_bits(),
        _ => t.u32(),
    }
}

fn manufacture(t: &mut Tape, i: usize, labels: &mut Vec<&'static str>) -> (String, u64) {
    let (p, class) = gen_pattern(t);
    labels.push(class);
    let (hi, lo) = ((p >> 32) as u32, p as u32);
    let tail = |eff: u64| format!(" // p={eff:#018x}");
    match t.below(10) {
        0 => {
            labels.push("via-BigUint64Array");
            (format!("U[0] = {p:#018x}n; var v{i} = F[0];{}", tail(p)), p)
        }
        1 => {
            labels.push("via-Uint32Array-pair");
            (format!("W[0] = {lo:#010x}; W[1] = {hi:#010x}; var v{i} = F[0];{}", tail(p)), p)
        }
        2 => {
            labels.push("via-DataView-setUint32-be");
            (format!("D.setUint32(0, {hi:#010x}); D.setUint32(4, {lo:#010x}); var v{i} = D.getFloat64(0);{}", tail(p)), p)
        }
        3 => {
            labels.push("via-DataView-setBigUint64-le");
            (format!("D.setBigUint64(0, {p:#018x}n, true); var v{i} = D.getFloat64(0, true);{}", tail(p)), p)
        }
        4 => {
            labels.push("via-Uint8Array-bytes");
            let b: Vec<String> = p.to_le_bytes().iter().map(|x| format!("{x}")).collect();
            (format!("Y.set([{}]); var v{i} = F[0];{}", b.join(", "), tail(p)), p)
        }
        5 | 6 => {
            let q = f32_pattern(t);
            let eff = f64::from(f32::from_bits(q)).to_bits();
            if t.bool() {
                labels.push("via-Float32Array");
                (format!("W[0] = {q:#010x}; var v{i} = G[0];{}", tail(eff)), eff)
            } else {
                labels.push("via-DataView-getFloat32");
                (format!("D.setUint32(0, {q:#010x}); var v{i} = D.getFloat32(0);{}", tail(eff)), eff)
            }
        }
        7 => {
            labels.push("via-fresh-buffer");
            (format!("var v{i} = new Float64Array(new BigUint64Array([{p:#018x}n]).buffer)[0];{}", tail(p)), p)
        }
        8 => {
            labels.push("via-unaligned-DataView");
            (format!("D.setBigUint64(3, {p:#018x}n); var v{i} = D.getFloat64(3);{}", tail(p)), p)
        }
        _ => {
            labels.push("via-typed-array-accessor");
            let a = ACCESSORS[t.below(ACCESSORS.len())];
            (format!("U[0] = {p:#018x}n; var v{i} = {a};{}", tail(p)), p)
        }
    }
}

const N_OBS: usize = 34;
const OBS_AT: usize = 32;
const OBS_SMALL_INT_TA: usize = 33;

fn obs_line(k: usize, i: usize) -> String {
    let v = format!("v{i}");
    let body = match k {
        0 => "'typeof', typeof V, typeof [V][0], typeof id(V), typeof (V + 0), typeof -V".to_string(),
        1 => "'is', Object.is(V, V), V === V, V == V, V !== V, Number.isNaN(V), isNaN(V), V <= V".to_string(),
        2 => "'bits', bits(V)".to_string(),
        3 => "'arr', bits([V][0]), bits([0, V, 0].slice(1)[0]), bits([V].concat([1])[0]), bits(Array.of(V).pop())".to_string(),
        4 => "'obj', bits(({ a: V }).a), bits(Object.assign({}, { a: V }).a), bits(Object.values({ a: V })[0])".to_string(),
        5 => "'map', bits(new Map([[1, V]]).get(1)), bits(Array.from(new Set([V]))[0]), bits(new Map([[V, 1]]).keys().next().value)".to_string(),
        6 => "'mapkey', new Map([[V, 'k']]).get(V), new Set([V]).has(V), [V].includes(V), [V].indexOf(V), [V].lastIndexOf(V)".to_string(),
        7 => "'zero', new Map([[0, 'z']]).get(V), new Set([0]).has(V), new Map([[V, 'k']]).get(0), [0].includes(V), [0].indexOf(V), [NaN].includes(V), Object.is(V, 0), Object.is(V, -0), Object.is(V, NaN)".to_string(),
        8 => "'fn', bits(id(V)), bits((function () { return arguments[0]; })(V)), bits((function (a, b) { return b; })(0, V)), bits((() => V)()), bits(id.call(null, V)), bits(id.apply(null, [V]))".to_string(),
        9 => "'spread', bits([...[V]][0]), bits(Math.max(...[V])), bits(Math.min(V)), bits((function (...r) { return r[0]; })(V))".to_string(),
        10 => "'destr', bits((function () { var [a] = [V]; return a; })()), bits((function () { var { a } = { a: V }; return a; })()), bits((function (a = 1) { return a; })(V))".to_string(),
        11 => "'ident', bits(V + 0), bits(V - 0), bits(V * 1), bits(V / 1), bits(-V), bits(+V), bits(- -V)".to_string(),
        12 => "'arith', bits(V + 1), bits(V - 1), bits(V * 2), bits(V / 2), bits(V - V), bits(V * 0), bits(V / V), bits(1 / V), bits(V % 2), bits(V * V)".to_string(),
        13 => "'int', bits(V | 0), bits(V >>> 0), bits(~V), bits(V << 1), bits(V >> 1), bits(V ^ 0), bits(V & -1), bits(~~V)".to_string(),
        14 => "'math', bits(Math.abs(V)), bits(Math.trunc(V)), bits(Math.sign(V)), bits(Math.fround(V)), bits(Math.floor(V)), bits(Math.ceil(V)), bits(Math.round(V)), bits(Math.sqrt(V * V))".to_string(),
        15 => "'imul', bits(Math.imul(V, 1)), bits(Math.clz32(V)), bits(Math.imul(V, V))".to_string(),
        16 => "'cmp', V < 0, V > 0, V == 0, V === 0, 1 / V < 0, Number.isFinite(V), Number.isInteger(V), Number.isSafeInteger(V), isFinite(V), V == null, V == false, V == ''".to_string(),
        17 => "'bool', !V, !!V, V ? 1 : 0, bits(V || 7), bits(V && 7), bits(V ?? 7), Boolean(V)".to_string(),
        18 => "'store', (OF[1] = V, V !== V ? 'NaN' : hx(OU[1])), (OD.setFloat64(0, V), V !== V ? 'NaN' : hx(OD.getBigUint64(0))), bits(new Float64Array(2).fill(V)[1]), bits(Float64Array.of(V)[0]), bits(Float64Array.from([V])[0])".to_string(),
        19 => "'f32', (OG[2] = V, OG[2] !== OG[2] ? 'NaN' : hx(OW[2])), bits(Math.fround(V)), bits(new Float32Array([V])[0])".to_string(),
        20 => "'ta-int', new Int32Array([V])[0], new Uint32Array([V])[0], (OW[3] = V, OW[3]), new Uint8ClampedArray([V])[0]".to_string(),
        21 => "'bigint', tr(function () { return hx(BigInt(V)); })".to_string(),
        22 => "'index', [10, 20, 30][V], 'abc'[V], 'abc'.charAt(V), 'abcdef'.slice(V).length, 'abcdef'.substring(V).length, [1, 2, 3].slice(V).length".to_string(),
        23 => "'switch', (function () { switch (V) { case 0: return 'zero'; case 1: return 'one'; case V: return 'self'; default: return 'none'; } })()".to_string(),
        24 => "'same', V === F[0], Object.is(V, F[0])".to_string(),
        25 => "'json', JSON.stringify(V !== V || V === 1 / 0 || V === -1 / 0 ? V : 0), JSON.stringify([V]).length > 0".to_string(),
        26 => "'copy', hx(new BigUint64Array(F.slice(0, 1).buffer)[0]), hx(new BigUint64Array(new Float64Array(F.subarray(0, 1)).buffer)[0]), (F.copyWithin(1, 0, 1), hx(U[1])), hx(new BigUint64Array(B.slice(0, 8))[0]), (function () { var t = new Float64Array(2); t.set(F.subarray(0, 1), 1); return hx(new BigUint64Array(t.buffer)[1]); })()".to_string(),
        27 => "'scope', bits((function () { let a = V; const b = a; var c = b; return (function () { return c; })(); })()), bits(eval('V'))".to_string(),
        28 => "'gen', bits((function* () { yield V; })().next().value), bits([V].map(id)[0]), bits([V].reduce(function (a, x) { return x; }, 0)), bits([0, V].sort(function () { return 0; })[1])".to_string(),
        29 => "'cls', bits(new (class { constructor(a) { this.a = a; } })(V).a), bits(new (class { #p = V; get() { return this.#p; } })().get()), bits((class { static s = V; }).s)".to_string(),
        30 => "'taidx', F[V] === undefined, tr(function () { return new Float64Array(3)[V] === undefined; })".to_string(),
        31 => "'date', bits(new Date(V).getTime()), bits(new Date(V).valueOf())".to_string(),
        OBS_AT => "'at', 'abc'.at(V), [10, 20, 30].at(V), new Float64Array([1.5, 2.5, 3.5]).at(V)".to_string(),
        _ => "'ta-small-int', new Int8Array([V])[0], new Uint8Array([V])[0], new Int16Array([V])[0], new Uint16Array([V])[0]".to_string(),
    };
    format!("print({i}, {});", body.replace('V', &v))
}

fn cross_line(i: usize, j: usize) -> String {
    let body = "'x', Object.is(P, Q), P === Q, P == Q, P < Q, P >= Q, new Map([[P, 'k']]).get(Q), new Set([P]).has(Q), [P].includes(Q), [P].indexOf(Q), bits(P + Q), bits(P - Q), bits(P * Q), bits(P / Q), bits(Math.min(P, Q)), bits(Math.max(P, Q)), bits(P % Q)";
    format!("print({i}, {j}, {});", body.replace('P', &format!("v{i}")).replace('Q', &format!("v{j}")))
}

struct Script {
    src: String,
    labels: Vec<&'static str>,
}

fn gen_script(t: &mut Tape) -> Script {
    let mut labels = vec![];
    let mut src = String::from(SCRIPT_PRELUDE);
    let n = 1 + t.below(5);
    for i in 0..n {
        let (line, eff) = manufacture(t, i, &mut labels);
        let x = f64::from_bits(eff);
        src.push_str(&line);
        src.push('\n');
        src.push_str(&obs_line(0, i));
        src.push('\n');
        src.push_str(&obs_line(2, i));
        src.push('\n');
        let nobs = 2 + t.below(6);
        for _ in 0..nobs {
            let k = t.below(N_OBS);
            if k == OBS_SMALL_INT_TA && EXCLUDE_SMALL_INT_TA_CONVERSION {
                labels.push("excluded-small-int-typed-array-conversion");
                continue;
            }
            if k == OBS_AT && EXCLUDE_AT_BELOW_I64_MIN && x.is_finite() && x <= -9.2e18 {
                labels.push("excluded-at-below-i64-min");
                continue;
            }
            src.push_str(&obs_line(k, i));
            src.push('\n');
        }
        if i > 0 && t.bool() {
            src.push_str(&cross_line(t.below(i), i));
            src.push('\n');
        }
    }
    src.push_str("print('end', typeof v0);\n");
    Script { src, labels }
}

/// the effective f64 patterns named in a program (`// p=0x...` comments)
fn script_patterns(src: &str) -> Vec<u64> {
    src.lines().filter_map(|l| l.rsplit_once("// p=").and_then(|(_, h)| parse_u64(h.trim()))).collect()
}

fn pattern_labels(ps: &[u64], labels: &mut Vec<&'static str>) {
    for p in ps {
        let c = class_of(*p);
        if !labels.contains(&c) {
            labels.push(c);
        }
    }
}

fn check_script(env: &mut Env, src: &str, mut labels: Vec<&'static str>) -> CaseOut {
    let server = match env.node() {
        Ok(n) => n,
        Err(e) => return CaseOut::skip(src.to_string(), format!("oracle-unavailable: {e}")),
    };
    let (np, nc) = match node_script(server, src) {
        Ok(x) => x,
        Err(e) => return CaseOut::skip(src.to_string(), format!("oracle-error: {e}")),
    };
    if nc == "limit:timeout" {
        return CaseOut::skip(src.to_string(), "v8-timeout");
    }
    let t = run(src, &RunCfg::default());
    if t.completion.is_limit() {
        return CaseOut::skip(src.to_string(), "boa-limit");
    }
    let ps = script_patterns(src);
    pattern_labels(&ps, &mut labels);
    labels.sort_unstable();
    labels.dedup();
    if t.prints != np {
        let k = t.prints.iter().zip(np.iter()).position(|(a, b)| a != b).unwrap_or(t.prints.len().min(np.len()));
        let (a, b) = (t.prints.get(k).cloned().unwrap_or_default(), np.get(k).cloned().unwrap_or_default());
        let obs = |l: &str| l.split_whitespace().find(|w| w.chars().next().is_some_and(|c| c.is_ascii_alphabetic())).unwrap_or("?").to_string();
        let name = if b.is_empty() { obs(&a) } else { obs(&b) };
        let extra = if t.completion.is_internal_failure() { format!(" {}", t.completion.render()) } else { String::new() };
        return CaseOut::fail(
            src.to_string(),
            format!("script: observation '{name}' differs from V8{extra}"),
            format!("print line {k}:\n  boa: {a}\n  v8 : {b}\n--- boa\n{}\n--- v8\n{}\n=> {nc}", t.render(), np.join("\n")),
        )
        .with_labels(labels);
    }
    let bc = t.completion.render();
    if bc != nc {
        return CaseOut::fail(src.to_string(), format!("script: completion boa={bc} v8={nc}"), format!("boa: {bc}\nv8: {nc}\n{}", t.render())).with_labels(labels);
    }
    let nontrivial = ps.iter().any(|p| nontrivial_bits(*p)) && np.len() >= 3;
    CaseOut::pass(src.to_string(), nontrivial).with_labels(labels)
}

// ---------------------------------------------------------------------------------------------------------------
// binary16 through Float16Array / DataView.getFloat16 against a model

fn f16_to_f64(p: u16) -> f64 {
    let s = if p & 0x8000 != 0 { -1.0 } else { 1.0 };
    let e = i32::from((p >> 10) & 0x1F);
    let m = f64::from(p & 0x3FF);
    if e == 0 {
        s * m * 2f64.powi(-24)
    } else if e == 31 {
        if m == 0.0 { s * f64::INFINITY } else { f64::NAN }
    } else {
        s * (1.0 + m / 1024.0) * 2f64.powi(e - 15)
    }
}

fn js_bits(x: f64) -> String {
    if x.is_nan() { "NaN".into() } else { format!("{:x}", x.to_bits()) }
}

fn f16_program(lo: u32, hi: u32) -> String {
    format!(
        "var B = new ArrayBuffer(8), H = new Uint16Array(B), X = new Float16Array(B), D = new DataView(B);\nvar OB = new ArrayBuffer(8), OF = new Float64Array(OB), OU = new BigUint64Array(OB);\nfunction bits(x) {{ if (typeof x !== 'number') return 'T=' + typeof x; if (x !== x) return 'NaN'; OF[0] = x; return OU[0].toString(16); }}\nfor (var p = {lo}; p < {hi}; p++) {{\n  H[0] = p; var v = X[0];\n  print(p, bits(v), typeof v, Object.is(v, v), (X[1] = v, v !== v ? 'NaN' : H[1].toString(16)), bits(D.getFloat16(0, true)), bits([v][0]), bits(-v));\n}}\n"
    )
}

fn check_f16_block(lo: u32, hi: u32) -> CaseOut {
    let rendered = format!("f16-block lo={lo} hi={hi}");
    if lo >= hi || hi > 65536 || hi - lo > 4096 {
        return CaseOut::skip(rendered, "bad f16 block");
    }
    let src = f16_program(lo, hi);
    let t = run(&src, &RunCfg::default());
    let mut nontrivial = false;
    let mut labels = vec![];
    let mut want = vec![];
    for p in lo..hi {
        let x = f16_to_f64(p as u16);
        if x.is_nan() {
            nontrivial |= p as u16 != 0x7E00;
            labels.push("f16-nan");
        } else if x.is_infinite() {
            labels.push("f16-infinity");
        } else if (p >> 10) & 0x1F == 0 {
            labels.push("f16-subnormal-or-zero");
        } else {
            labels.push("f16-normal");
        }
        let back = if x.is_nan() { "NaN".to_string() } else { format!("{p:x}") };
        want.push(format!("{p} {b} number true {back} {b} {b} {}", js_bits(-x), b = js_bits(x)));
    }
    labels.sort_unstable();
    labels.dedup();
    if t.prints != want || t.completion.render() != "value:undefined" {
        let k = t.prints.iter().zip(want.iter()).position(|(a, b)| a != b).unwrap_or(t.prints.len().min(want.len()));
        return CaseOut::fail(
            rendered,
            format!("f16: pattern read through Float16Array differs from the binary16 model ({})", t.completion.render().split(':').next().unwrap_or("")),
            format!("line {k}: boa {:?} model {:?}\ncompletion {}\nprogram:\n{src}", t.prints.get(k), want.get(k), t.completion.render()),
        )
        .with_labels(labels);
    }
    CaseOut::pass(rendered, nontrivial).with_labels(labels)
}

// ---------------------------------------------------------------------------------------------------------------
// two builds

const ITEM_SEP: &str = "\n//---8<--- next two-build item\n";

/// Evaluate one item (an API line or a JS program) in THIS build; the output must not depend on the value
/// representation.
fn eval_item(item: &str) -> String {
    if is_api_line(item) {
        match run_api_line(item) {
            Ok(ok) => format!("ok values={} digest={:016x}", ok.values, ok.digest),
            Err(f) => format!("FAIL {} :: {} :: {}", f.sig, f.rendered, f.detail),
        }
    } else {
        run(item, &RunCfg::default()).render()
    }
}

fn harness_dir() -> String {
    let m = env!("CARGO_MANIFEST_DIR");
    if std::path::Path::new(m).join("Cargo.toml").exists() { m.to_string() } else { format!("{}/harness", verif_root()) }
}

fn enum_bin_path() -> PathBuf {
    PathBuf::from(format!("{}/harness/target-enum/debug/bv", verif_root()))
}

fn newest_mtime(dir: &std::path::Path, best: &mut Option<std::time::SystemTime>) {
    let Ok(rd) = std::fs::read_dir(dir) else { return };
    for e in rd.flatten() {
        let p = e.path();
        if p.is_dir() {
            if p.file_name().is_some_and(|n| n == "target" || n == ".git") {
                continue;
            }
            newest_mtime(&p, best);
        } else if p.extension().is_some_and(|x| x == "rs" || x == "toml") {
            if let Ok(m) = e.metadata().and_then(|m| m.modified()) {
                if best.is_none_or(|b| m > b) {
                    *best = Some(m);
                }
            }
        }
    }
}

/// An existing second binary that is not older than the harness sources and the engine sources.
fn locate_enum_bin() -> Result<PathBuf, String> {
    let p = enum_bin_path();
    let m = std::fs::metadata(&p).and_then(|m| m.modified()).map_err(|_| format!("second build absent ({})", p.display()))?;
    let mut newest = None;
    newest_mtime(&std::path::Path::new(&harness_dir()).join("src"), &mut newest);
    newest_mtime(std::path::Path::new("/repo/core"), &mut newest);
    if let Ok(c) = std::fs::metadata(format!("{}/Cargo.toml", harness_dir())).and_then(|m| m.modified()) {
        if newest.is_none_or(|b| c > b) {
            newest = Some(c);
        }
    }
    if newest.is_some_and(|n| n > m) {
        return Err("second build is older than the sources (stale)".into());
    }
    Ok(p)
}

fn build_enum_bin() -> Result<PathBuf, String> {
    let dir = harness_dir();
    eprintln!("C12: building the jsvalue-enum binary (cargo build --features jsvalue-enum in {dir}, target-enum) ...");
    let out = std::process::Command::new("cargo")
        .args(["build", "--offline", "--features", "jsvalue-enum"])
        .current_dir(&dir)
        .env("CARGO_TARGET_DIR", format!("{}/harness/target-enum", verif_root()))
        .env("CARGO_NET_OFFLINE", "true")
        .output()
        .map_err(|e| format!("cannot run cargo: {e}"))?;
    if !out.status.success() {
        let err = String::from_utf8_lossy(&out.stderr);
        let first = err.lines().find(|l| l.starts_with("error")).unwrap_or("unknown error").to_string();
        return Err(format!("cargo build --features jsvalue-enum failed: {first}"));
    }
    let p = enum_bin_path();
    if p.exists() { Ok(p) } else { Err("cargo succeeded but the binary is missing".into()) }
}

/// Called in the parent `check` process (from `streams`): decide once, tell the workers through the environment.
fn prepare_enum_bin(tier: Tier) {
    static ONCE: OnceLock<()> = OnceLock::new();
    ONCE.get_or_init(|| {
        if cfg!(feature = "jsvalue-enum") || std::env::var_os("BV_C12_ENUM").is_some() {
            return;
        }
        let r = if tier == Tier::Thorough && std::env::var_os("BV_C12_NO_BUILD").is_none() { build_enum_bin() } else { locate_enum_bin() };
        let val = match r {
            Ok(p) => p.to_string_lossy().to_string(),
            Err(e) => {
                eprintln!("C12: two-build comparison unavailable: {e} (its cases are skipped)");
                format!("unavailable:{e}")
            }
        };
        // SAFETY: the worker threads/processes are not started yet; nothing else reads the environment concurrently.
        unsafe { std::env::set_var("BV_C12_ENUM", val) };
    });
}

fn enum_bin() -> &'static Result<PathBuf, String> {
    static BIN: OnceLock<Result<PathBuf, String>> = OnceLock::new();
    BIN.get_or_init(|| {
        if cfg!(feature = "jsvalue-enum") {
            return Err("this binary is itself the jsvalue-enum build".into());
        }
        match std::env::var("BV_C12_ENUM") {
            Ok(v) => match v.strip_prefix("unavailable:") {
                Some(why) => Err(why.to_string()),
                None => Ok(PathBuf::from(v)),
            },
            Err(_) => locate_enum_bin(),
        }
    })
}

enum OtherErr {
    Timeout,
    Crash(String),
    Infra(String),
}

/// Evaluate items in the other build: `<bin> replay C12 <file>` with the hidden stream `emit`.
fn other_eval(bin: &std::path::Path, items: &[String]) -> Result<Vec<String>, OtherErr> {
    use std::sync::atomic::{AtomicU64, Ordering};
    static N: AtomicU64 = AtomicU64::new(0);
    let n = N.fetch_add(1, Ordering::Relaxed);
    let base = std::env::temp_dir().join(format!("bv-c12-{}-{n}", std::process::id()));
    let (req, out) = (base.with_extension("req.json"), base.with_extension("out.json"));
    let body = serde_json::json!({"property": "C12", "stream": "emit", "tier": "quick", "seed": 1, "index": 0, "tape": "",
        "rendered": serde_json::to_string(items).unwrap_or_default()});
    std::fs::write(&req, body.to_string()).map_err(|e| OtherErr::Infra(format!("write request: {e}")))?;
    let _ = std::fs::remove_file(&out);
    let cleanup = || {
        let _ = std::fs::remove_file(&req);
        let _ = std::fs::remove_file(&out);
    };
    let child = std::process::Command::new(bin)
        .args(["replay", "C12"])
        .arg(&req)
        .env("BV_C12_EMIT", &out)
        .stdin(std::process::Stdio::null())
        .stdout(std::process::Stdio::null())
        .stderr(std::process::Stdio::null())
        .spawn();
    let mut child = match child {
        Ok(c) => c,
        Err(e) => {
            cleanup();
            return Err(OtherErr::Infra(format!("spawn {}: {e}", bin.display())));
        }
    };
    let t0 = std::time::Instant::now();
    let status = loop {
        match child.try_wait() {
            Ok(Some(s)) => break s,
            Ok(None) => {
                if t0.elapsed().as_secs() >= 12 {
                    let _ = child.kill();
                    let _ = child.wait();
                    cleanup();
                    return Err(OtherErr::Timeout);
                }
                std::thread::sleep(std::time::Duration::from_millis(2));
            }
            Err(e) => {
                cleanup();
                return Err(OtherErr::Infra(format!("wait: {e}")));
            }
        }
    };
    let text = std::fs::read_to_string(&out);
    cleanup();
    if !status.success() {
        use std::os::unix::process::ExitStatusExt;
        return Err(OtherErr::Crash(status.signal().map_or_else(|| format!("exit {:?}", status.code()), |s| format!("signal {s}"))));
    }
    let text = text.map_err(|e| OtherErr::Infra(format!("no output file: {e}")))?;
    let v: Vec<String> = serde_json::from_str(&text).map_err(|e| OtherErr::Infra(format!("bad output: {e}")))?;
    if v.len() != items.len() {
        return Err(OtherErr::Infra(format!("{} outputs for {} items", v.len(), items.len())));
    }
    Ok(v)
}

/// The hidden stream: evaluate items and write the outputs where BV_C12_EMIT says.
fn emit(rendered: &str) -> CaseOut {
    let Some(path) = std::env::var_os("BV_C12_EMIT") else { return CaseOut::skip(String::new(), "emit without BV_C12_EMIT") };
    let items: Vec<String> = serde_json::from_str(rendered).unwrap_or_default();
    let outs: Vec<String> = items.iter().map(|i| eval_item(i)).collect();
    match std::fs::write(path, serde_json::to_string(&outs).unwrap_or_default()) {
        Ok(()) => CaseOut::pass(String::new(), false),
        Err(e) => CaseOut::skip(String::new(), format!("emit: cannot write: {e}")),
    }
}

fn item_kind(item: &str) -> &'static str {
    if is_api_line(item) {
        if item.starts_with("heap") { "heap" } else { "api" }
    } else if item.starts_with(SCRIPT_PRELUDE) {
        "bit-pattern script"
    } else {
        "program"
    }
}

fn compare_builds(items: &[String], mut labels: Vec<&'static str>) -> CaseOut {
    let rendered = items.join(ITEM_SEP);
    let bin = match enum_bin() {
        Ok(b) => b.clone(),
        Err(why) => {
            labels.push("two-build-skipped-second-build-unavailable");
            return CaseOut::skip(rendered, format!("two-build: second build unavailable: {why}")).with_labels(labels);
        }
    };
    let mine: Vec<String> = items.iter().map(|i| eval_item(i)).collect();
    let theirs = match other_eval(&bin, items) {
        Ok(v) => v,
        Err(OtherErr::Infra(e)) => return CaseOut::skip(rendered, format!("two-build: infrastructure: {}", e.chars().take(80).collect::<String>())).with_labels(labels),
        Err(_) => {
            // attribute a crash / hang to a single item
            let mut v = vec![];
            for it in items {
                v.push(match other_eval(&bin, std::slice::from_ref(it)) {
                    Ok(mut o) => o.pop().unwrap_or_default(),
                    Err(OtherErr::Crash(s)) => format!("ABORT of the jsvalue-enum process ({s})"),
                    Err(OtherErr::Timeout) => "TIMEOUT".to_string(),
                    Err(OtherErr::Infra(e)) => return CaseOut::skip(rendered, format!("two-build: infrastructure: {}", e.chars().take(80).collect::<String>())).with_labels(labels),
                });
            }
            v
        }
    };
    labels.push("two-build-compared");
    for ((item, a), b) in items.iter().zip(&mine).zip(&theirs) {
        if b == "TIMEOUT" {
            labels.push("two-build-timeout");
            return CaseOut::skip(rendered, "two-build: the jsvalue-enum process timed out").with_labels(labels);
        }
        let kind = item_kind(item);
        if a.starts_with("FAIL ") || b.starts_with("FAIL ") {
            let which = if a.starts_with("FAIL ") { "nan-boxed" } else { "jsvalue-enum" };
            let f = if a.starts_with("FAIL ") { a } else { b };
            let sig = f.trim_start_matches("FAIL ").split(" :: ").next().unwrap_or("").to_string();
            return CaseOut::fail(item.clone(), format!("two-build ({which} build): {sig}"), format!("--- nan-boxed\n{a}\n--- jsvalue-enum\n{b}")).with_labels(labels);
        }
        if a != b {
            let what = if kind == "api" || kind == "heap" {
                "observations differ".to_string()
            } else {
                let (la, lb): (Vec<&str>, Vec<&str>) = (a.lines().collect(), b.lines().collect());
                let k = la.iter().zip(lb.iter()).position(|(x, y)| x != y).unwrap_or(la.len().min(lb.len()));
                let l = lb.get(k).or(la.get(k)).copied().unwrap_or("");
                if l.starts_with("=> ") { "completion differs".to_string() } else { "prints differ".to_string() }
            };
            return CaseOut::fail(item.clone(), format!("two-build: {kind}: {what} between nan-boxed and jsvalue-enum"), format!("--- nan-boxed\n{a}\n--- jsvalue-enum\n{b}")).with_labels(labels);
        }
    }
    let nontrivial = items.iter().any(|i| script_patterns(i).iter().any(|p| nontrivial_bits(*p)) || i.starts_with("nan-space") || i.contains("exp=0x7ff"));
    CaseOut::pass(rendered, nontrivial).with_labels(labels)
}

fn two_build_items(tier: Tier, index: u64, tape: &[u8], labels: &mut Vec<&'static str>) -> Vec<String> {
    let mut items = vec![];
    // API items: thorough covers the whole structured enumeration (case index = block), quick a spread sample
    // that includes both exponent-all-ones blocks
    let (sidx, nidx, iidx) = if tier == Tier::Thorough {
        (index % N_STRUCT_CASES, index % 65, index % 4096)
    } else {
        ((index * 32 + 31) % N_STRUCT_BLOCKS, index % 65, (index * 29) % 4096)
    };
    items.push(struct_line(sidx));
    if tier == Tier::Quick {
        items.push(struct_line(N_STRUCT_BLOCKS + (index * 13) % (1 + 16 * NAN_GROUPS)));
    }
    // every 2^8-th int32, 4096 chunks of 4096 values
    items.push(format!("i32-range start={} step=256 count=4096 mode=full", i64::from(i32::MIN) + (iidx as i64) * 256 * 4096));
    items.push(i32_near_line(nidx));
    labels.push("two-build-api-blocks");
    let cut = tape.len().min(400);
    let mut t = Tape::new(&tape[..cut]);
    items.push(gen_heap_line(&mut t).split_whitespace().take(120).collect::<Vec<_>>().join(" "));
    labels.push("two-build-heap");
    for _ in 0..2 {
        let s = gen_script(&mut t);
        items.push(s.src);
    }
    labels.push("two-build-bit-pattern-scripts");
    let rest = &tape[cut..];
    let half = rest.len() / 2;
    let p1 = generate(&rest[..half], Opts::core());
    let p2 = generate(&rest[half..], Opts::lit());
    items.push(p1.src);
    items.push(p2.src);
    labels.push("two-build-core-and-lit-programs");
    items
}

// ---------------------------------------------------------------------------------------------------------------

const RANDOM_PATTERNS_PER_CASE: usize = 32;

impl Prop for C12 {
    fn id(&self) -> &'static str {
        "C12"
    }

    fn streams(&self, tier: Tier) -> Vec<Stream> {
        // the parent `check` process decides about the second build before the workers start
        if std::env::args().nth(1).as_deref() == Some("check") {
            prepare_enum_bin(tier);
        }
        let q = tier == Tier::Quick;
        let i32s = if q { Stream::new("i32", 1024, 8).batch(16) } else { Stream::new("i32", 65536, 8).batch(128).exhaustive() };
        vec![
            i32s,
            Stream::new("i32-near", i32_centers().len() as u64, 8).batch(2).exhaustive(),
            Stream::new("f64-structured", N_STRUCT_CASES, 8).batch(64).exhaustive(),
            Stream::new("f64-random", if q { 4000 } else { 200_000 }, 400).batch(200),
            Stream::new("heap", if q { 320 } else { 9600 }, 2400).batch(8),
            Stream::new("script", if q { 2400 } else { 96_000 }, 400).batch(40),
            Stream::new("script-f16", 256, 8).batch(4).exhaustive(),
            Stream::new("two-build", if q { 160 } else { N_STRUCT_CASES }, 1800).batch(4),
        ]
    }

    fn rule(&self) -> String {
        "Rust-API streams: v = JsValue::new(x) (and every other constructor: rational, From<JsVariant>, From<Numeric>, f32/i16/i64/isize/u32/u64 where exact) must satisfy exactly one is_* predicate, the expected one, consistently with variant()/get_type()/type_of()/as_*; variant()/as_number()/as_i32() return x (doubles by bits; every NaN reads back as a NaN number; an integral double may come back as the equal int32; -0 keeps its sign; as_i32 follows the model), clone/drop/mem::take/JsVariant round trip keep it, clone equals original (same_value, strict_equals, ==, Hash). i32: quick every 2^8-th value (1024 chunks) + i32-near = +-1024 around 0, MIN, MAX, +-2^k; thorough all 2^32 (65536 chunks of 65536, lean check). f64-structured (exhaustive in both tiers): sign x 2048 exponents x 16 tag-nibble values x 64 boundary mantissas, a boundary-value block, 16 top-16 patterns 7FF8..7FFF/FFF8..FFFF x 64 groups x 64 pointer-like low words. f64-random: 32 tape-chosen patterns per case (uniform, NaN/tag space, exponent-structured, integer boundaries, specials). heap: 48..720 strings (heap/UTF-16/static), symbols, bigints, objects/arrays/functions kept alive together; identity through as_*/variant (string refcounts must show the same allocation and balance), booleans/null/undefined, doubles crafted from the live tagged pointer bits must read back as NaN numbers and leave the heap value intact, values survive inside an engine Array/Map across force_collect. script: 1..5 patterns per program manufactured through BigUint64Array/Uint32Array/Uint8Array/DataView (both endiannesses, unaligned)/Float32Array/typed-array accessors, observed by 32 observation kinds (typeof, Object.is, containers, keyed collections, calls, arithmetic, int conversions, Math, typed-array stores with bits printed back through a second buffer, byte-copy paths whose bits must be exact); the print trace must equal V8's, NaN results are printed only as 'NaN'. script-f16: all 65536 binary16 patterns through Float16Array/DataView.getFloat16 against an exact Rust model. two-build: API blocks, heap op lists, bit-pattern scripts and genp::prog core/lit programs evaluated by this build and by the --features jsvalue-enum build; outputs must be identical. NON-TRIVIAL = the case contains an f64 pattern that is a NaN other than 7FF8000000000000 (includes every pattern with tag nibble != 0 in the quiet-NaN space), or is within 2 of -2^31, 2^31-1 or +-2^53 (i32 chunks: contain a value within 2 of MIN/MAX; heap: at least one NaN was crafted from a live tagged pointer; two-build: the comparison ran and the items contain such a pattern). distinct = distinct rendered input (bit pattern list / block descriptor / JS source).".into()
    }

    fn assumptions(&self) -> Vec<String> {
        vec![
            "V8 (node 20) is the reference for the JS-level observations; NaN payload bits after passing through a JS value are implementation-defined and are never compared".into(),
            "two-build: the second binary is target-enum/debug/bv built from the same source tree (thorough builds it; quick uses it only if present and not older than the sources)".into(),
            "little-endian host (the // p= comments name the pattern under that assumption; the comparison itself does not depend on it)".into(),
        ]
    }

    fn rendered_prefix_lines(&self, rendered: &str) -> usize {
        if rendered.starts_with(SCRIPT_PRELUDE) {
            SCRIPT_PRELUDE.lines().count()
        } else if rendered.contains(crate::genp::prog::PRELUDE) {
            crate::genp::prog::PRELUDE.lines().count() + usize::from(rendered.starts_with("'use strict'"))
        } else {
            0
        }
    }

    fn run_case(&self, env: &mut Env, stream: &str, index: u64, tape: &[u8]) -> CaseOut {
        match stream {
            "i32" => run_api_lines(&i32_line(env.tier, index), vec![]),
            "i32-near" => run_api_lines(&i32_near_line(index), vec!["i32-neighbourhood"]),
            "f64-structured" => run_api_lines(&struct_line(index), vec![]),
            "f64-random" => {
                let mut t = Tape::new(tape);
                let mut labels = vec![];
                let mut text = String::new();
                for _ in 0..RANDOM_PATTERNS_PER_CASE {
                    let (b, class) = gen_pattern(&mut t);
                    if !labels.contains(&class) {
                        labels.push(class);
                    }
                    text.push_str(&format!("f64 {b:#018x}\n"));
                    if t.exhausted() {
                        break;
                    }
                }
                run_api_lines(&text, labels)
            }
            "heap" => {
                let mut t = Tape::new(tape);
                run_api_lines(&gen_heap_line(&mut t), vec![])
            }
            "script" => {
                let mut t = Tape::new(tape);
                let s = gen_script(&mut t);
                check_script(env, &s.src, s.labels)
            }
            "script-f16" => check_f16_block(index as u32 * 256, index as u32 * 256 + 256),
            "two-build" => {
                if let Err(why) = enum_bin() {
                    return CaseOut::skip(format!("two-build case {index}"), format!("two-build: second build unavailable: {why}")).with_labels(vec!["two-build-skipped-second-build-unavailable"]);
                }
                let mut labels = vec![];
                let items = two_build_items(env.tier, index, tape, &mut labels);
                compare_builds(&items, labels)
            }
            _ => CaseOut::skip(String::new(), "unknown stream"),
        }
    }

    fn run_rendered(&self, env: &mut Env, stream: &str, rendered: &str) -> Option<CaseOut> {
        if rendered.trim().is_empty() {
            return Some(CaseOut::skip(String::new(), "empty rendered input"));
        }
        Some(match stream {
            "emit" => emit(rendered),
            "script" => check_script(env, rendered, vec![]),
            "script-f16" => {
                let lo = kv(rendered, "lo").and_then(|s| s.parse().ok()).unwrap_or(0);
                let hi = kv(rendered, "hi").and_then(|s| s.parse().ok()).unwrap_or(0);
                check_f16_block(lo, hi)
            }
            "two-build" => {
                let items: Vec<String> = rendered.split(ITEM_SEP).map(str::to_string).collect();
                compare_builds(&items, vec![])
            }
            _ => {
                // the Rust-API streams: API lines; a JS program is checked against V8
                if rendered.lines().filter(|l| !l.trim().is_empty()).all(is_api_line) {
                    run_api_lines(rendered, vec![])
                } else {
                    check_script(env, rendered, vec![])
                }
            }
        })
    }
}
