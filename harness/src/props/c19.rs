//! C19 — parsing is total; printing an AST and re-parsing it is the identity from the first
//! printed form on; the printed program evaluates to the same trace as the original.

use crate::driver::{CaseOut, Env, Prop, Stream, Tier};
use crate::genp::{arb, prog, wild};
use crate::run::{Completion, RunCfg, diff_traces, install_panic_hook, panic_signature, run, take_last_panic};
use crate::tape::Tape;
use arbitrary::{Arbitrary, Unstructured};
use boa_ast::scope::Scope;
use boa_interner::{Interner, Sym, ToInternedString};
use boa_parser::{Parser, Source};

pub struct C19;

fn sym_at(i: usize) -> Option<Sym> {
    let bytes = i.to_le_bytes();
    Sym::arbitrary(&mut Unstructured::new(&bytes)).ok()
}

/// strings interned after index `from` (exclusive of the static ones)
fn interned_since(interner: &Interner, from: usize) -> Vec<String> {
    let mut v = vec![];
    for i in (from + 1)..=interner.len() {
        if let Some(s) = sym_at(i).and_then(|s| interner.resolve(s)) {
            v.push(s.join(|s| s.to_string(), |u| String::from_utf16_lossy(u), true));
        }
    }
    v
}

enum Parsed {
    Script(boa_ast::Script),
    Module(boa_ast::Module),
}
impl Parsed {
    fn print(&self, i: &Interner) -> String {
        match self {
            Parsed::Script(s) => s.to_interned_string(i),
            // boa has no printer for module items (import/export declarations): only the totality
            // clause applies to the module goal
            Parsed::Module(_) => { let _ = i; String::new() }
        }
    }
    fn same(&self, o: &Parsed) -> bool {
        match (self, o) {
            (Parsed::Script(a), Parsed::Script(b)) => a == b,
            (Parsed::Module(a), Parsed::Module(b)) => a == b,
            _ => false,
        }
    }
}

fn parse(src: &str, module: bool, interner: &mut Interner) -> Result<Parsed, boa_parser::Error> {
    let mut parser = Parser::new(Source::from_bytes(src.as_bytes()));
    let scope = Scope::new_global();
    if module { parser.parse_module(&scope, interner).map(Parsed::Module) } else { parser.parse_script(&scope, interner).map(Parsed::Script) }
}

fn error_position(e: &boa_parser::Error) -> Option<(u32, u32)> {
    use boa_parser::Error as E;
    match e {
        E::Expected { span, .. } | E::Unexpected { span, .. } => Some((span.start().line_number(), span.start().column_number())),
        E::General { position, .. } => Some((position.line_number(), position.column_number())),
        E::Lex { err } => match err {
            boa_parser::lexer::Error::Syntax(_, p) => Some((p.line_number(), p.column_number())),
            _ => None,
        },
        _ => None,
    }
}

/// line/column bound check: the position must lie inside the text (one past the end allowed)
fn position_inside(src: &str, line: u32, col: u32) -> bool {
    // boa counts lines by LF, CR, CRLF, LS, PS; columns in code points (1-based)
    let mut lines: Vec<usize> = vec![];
    let mut cur = 0usize;
    let cs: Vec<char> = src.chars().collect();
    let mut i = 0;
    while i < cs.len() {
        let c = cs[i];
        if c == '\r' && cs.get(i + 1) == Some(&'\n') {
            lines.push(cur + 2);
            cur = 0;
            i += 2;
            continue;
        }
        if c == '\n' || c == '\r' || c == '\u{2028}' || c == '\u{2029}' {
            lines.push(cur + 1);
            cur = 0;
        } else {
            cur += if (c as u32) > 0xffff { 2 } else { 1 };
        }
        i += 1;
    }
    lines.push(cur);
    let l = line as usize;
    if l == 0 || l > lines.len() + 1 {
        return false;
    }
    if l == lines.len() + 1 {
        return col <= 2;
    }
    (col as usize) <= lines[l - 1] + 2 && col >= 1
}

/// snippets that hit printer defects present on this tree (known findings C19-P1..P4); they are
/// replayed as known findings and excluded from generation so the search continues past them
pub const RISK_KNOWN_DEFECTS: &[&str] = &[
    "for ((let) of []) {}",
    "x = { 'f g': 2 };",
    "x = 1..toString();", "x = 1e21.a;", "x = 0x10.a;",
];
const RISK: &[&str] = &[
    "x = { get a() { return 1 }, set a(v) {}, async *b() {}, [c]: 1, d, ...e, fg: 2, 3: 4 };",
    "a = (b, c);", "f((a, b));", "x = y ? (a, b) : c;", "(a => a)(1);", "x = (() => {}) ? 1 : 2;", "(function () {})();", "(function () {}).call();", "({}).x;", "({ a: 1 }).a = 2;", "(class {}).name;",
    "(let)[0] = 1;", "(async () => {})();", "x = -(-y);", "x = +(+y);", "x = - -y;", "x = -(--y);", "x = (-y) ** 2;", "x = (a ** b) ** c;", "x = a ** (b ** c);", "x = (a, b) ** 2;", "x = typeof (() => {});",
    "x = (a + b) * c;", "x = a - (b - c);", "x = a / (b / c);", "x = (a && b) || c;", "x = a && (b || c);", "x = (a ?? b) || c;", "x = a ?? (b || c);", "x = (a = b) + 1;", "x = !(a in b);", "for (var i = (0 in {}); i < 1; i++) {}",
    "for (let [a] of [[1]]) {}",  "for (async of => 1; false;) {}", "x = new (f())();", "x = new (a.b());", "x = new a.b();", "x = new (a().b)();", "x = (new a).b;", "x = new new a()();", "x = a?.b.c;", "x = (a?.b).c;",
    "x = a?.[0]?.(1);", "x = `a${b}c${`d${e}`}`;", "x = tag`a${1}`;", "x = a.b`c`;",  "x = /a\\/b/g.test('a/b');", "x = a / b / c;", "x = a++ + ++b;", "x = a-- - --b;", "x = a + +b;", "x = a - -b;",
     "x = 1.5.toFixed();", "x = (1).a;",   "x = 10n.toString();", "x = -1 ** 2;", "x = (-1) ** 2;", "x = void 0;", "x = typeof typeof a;", "x = delete a.b;", "x = await;", "yield = 1;", "x = (yield);",
    "function* g() { yield (yield 1); yield* g(); x = yield; }", "async function f() { await (await 1); for await (x of y) {} }", "x = async function* () { yield await 1; };", 
    "class A extends (B, C) { static #p = 1; static { this.#p; } #m() {} get #g() { return 1 } static async *[x]() {} 'quoted'() {} 42() {} }", "x = class extends (a ? b : c) {};", "if (a) b; else if (c) d; else e;", "if (a) { if (b) c; } else d;", "do x++; while (x < 5)\ny = 1;",
    "label: for (;;) { continue label; }", "a: b: c: ;", "switch (x) { case 1: default: case 2: }", "try {} catch {} finally {}", "try {} catch ({ a, b: [c] }) {}", "throw (a, b);", "return_ = 1;", "var { a, b: { c = 1 } = {}, ...d } = e;", "var [a, , b = (1, 2), ...[c]] = d;",
    "({ a, b } = c);", "[a, b] = [b, a];", "({ a: [b] = [], ...c } = d);", "x = function () { 'use strict'; return this; };", "'use strict'; x = 1;", "x = a\n++b;", "x = a\n(b);", "var a = 1\nvar b = 2", "x = { }\n/ 1 / 2;", "x = a /* c */ + b; // d", "x = '\\'' + \"\\\"\" + '\\\\' + '\\u2028' + '\\0' + '\\x41';",
    "x = \\u0061bc;", "var \\u{62}cd = 1;", "x = a.if.class.new;", "x = { if: 1, class: 2, new: 3 };", "x = a?.if;", "x = a in b in c;", "x = a instanceof b instanceof c;", "x = (a, b), c;", "x = a ? b : c ? d : e;", "x = (a ? b : c) ? d : e;", "x = a = b = c;", "x = (a, b);",
    "x = () => ({});", "x = () => ({}).a;", "x = (a, b = 1, ...c) => a;", "x = async a => a;", "x = async (a) => { await a; };", "x = ({ a }) => a;", "x = ([a] = []) => a;", "x = a => b => c;", "x = (a => a) || b;", "x = a || (b => b);", "x = new.target;", "x = import.meta;", "x = import('a');",
    "x = super.a;", "x = 08;", "x = 0o17 + 0b11 + 0xff + 1_000 + .5 + 5. + 1e3 + 1E-3;", "x = 'a' 'b';", "debugger;", ";;;", "{}", "{ { } }", "with (a) b;", "x = a ||= b &&= c ??= d;", "x **= 2; x >>>= 1; x <<= 1;", "x = a === b !== c == d != e;", "x = a << b >> c >>> d;", "x = a | b ^ c & d;", "x = ~a + !b;",
    "export default function () {}", "export { a as b, c as default }; var a, c;", "export * as ns from 'm';", "import d, { a as b, default as c } from 'm';", "import * as ns from 'm';", "export const [q] = [1];", "export default class {}", "export default (1, 2);", "export var v1 = 1, v2;", "import 'side';",
];

impl C19 {
    /// totality + fixpoint + (optional) trace clause on one text
    fn check_text(&self, src: &str, module: bool, trace_clause: bool) -> CaseOut {
        install_panic_hook();
        let mut interner = Interner::default();
        let base_len = interner.len();
        let r = std::panic::catch_unwind(std::panic::AssertUnwindSafe(|| parse(src, module, &mut interner)));
        let parsed = match r {
            Err(_) => {
                let sig = panic_signature(&take_last_panic().unwrap_or_default());
                return CaseOut::fail(src.to_string(), format!("parser panic {sig}"), "the parser panicked".to_string());
            }
            Ok(Err(e)) => {
                // totality: error positioned inside the text
                if let Some((l, c)) = error_position(&e) {
                    if !position_inside(src, l, c) {
                        return CaseOut::fail(src.to_string(), "error position outside the text", format!("error {e} at line {l} column {c}"));
                    }
                }
                return CaseOut::pass(src.to_string(), false).with_labels(vec!["rejected"]);
            }
            Ok(Ok(p)) => p,
        };
        let ascii_plain = src.is_ascii() && !src.contains('\\');
        if ascii_plain {
            for s in interned_since(&interner, base_len) {
                if !src.contains(&s) {
                    return CaseOut::fail(src.to_string(), "interned a string that does not occur in the text", format!("interned {s:?}"));
                }
            }
        }
        if module {
            return CaseOut::pass(src.to_string(), RISK.iter().any(|r| src.contains(r))).with_labels(vec!["accepted", "module-goal"]);
        }
        // p = print(parse(s))
        let p1 = match std::panic::catch_unwind(std::panic::AssertUnwindSafe(|| parsed.print(&interner))) {
            Ok(p) => p,
            Err(_) => return CaseOut::fail(src.to_string(), format!("printer panic {}", panic_signature(&take_last_panic().unwrap_or_default())), String::new()),
        };
        let len_after_first = interner.len();
        let second = match std::panic::catch_unwind(std::panic::AssertUnwindSafe(|| parse(&p1, module, &mut interner))) {
            Err(_) => return CaseOut::fail(src.to_string(), format!("parser panic on printed form {}", panic_signature(&take_last_panic().unwrap_or_default())), p1),
            Ok(Err(e)) => {
                let msg: String = e.to_string().chars().filter(|c| !c.is_ascii_digit()).take(70).collect();
                return CaseOut::fail(src.to_string(), format!("printed form does not parse: {}: {msg}", kind_of(&e)), format!("printed:\n{p1}\nerror: {e}"));
            }
            Ok(Ok(p)) => p,
        };
        if interner.len() != len_after_first && ascii_plain {
            let extra = interned_since(&interner, len_after_first);
            let short: Vec<String> = extra.iter().take(3).map(|x| x.chars().take(12).collect()).collect();
            return CaseOut::fail(src.to_string(), format!("parsing the printed form interned new strings: {short:?}"), format!("printed:\n{p1}\nnew: {extra:?}"));
        }
        let p2 = second.print(&interner);
        if p2 != p1 {
            let k = p1.lines().zip(p2.lines()).position(|(a, b)| a != b).unwrap_or(0);
            return CaseOut::fail(src.to_string(), "print(parse(p)) != p", format!("first differing line {k}:\n  p : {:?}\n  p': {:?}\n--- p\n{p1}\n--- p'\n{p2}", p1.lines().nth(k), p2.lines().nth(k)));
        }
        let third = match parse(&p2, module, &mut interner) {
            Ok(t) => t,
            Err(e) => return CaseOut::fail(src.to_string(), "second printed form does not parse", format!("{e}\n{p2}")),
        };
        if !second.same(&third) {
            return CaseOut::fail(src.to_string(), "parse(p) != parse(print(parse(p)))", format!("printed:\n{p1}"));
        }
        let mut labels = vec!["accepted"];
        if module {
            labels.push("module-goal");
        }
        if trace_clause && !module {
            let cfg = RunCfg { loop_limit: 100_000, ..RunCfg::default() };
            let a = run(src, &cfg);
            if !a.completion.is_limit() && !matches!(a.completion, Completion::Panic(_)) {
                let b = run(&p1, &cfg);
                if let Some((sig, d)) = diff_traces("original", &a, "printed", &b) {
                    return CaseOut::fail(src.to_string(), format!("trace(p) != trace(s): {sig}"), format!("printed:\n{p1}\n{d}"));
                }
                labels.push("trace-compared");
            }
        }
        let nontrivial = p1.len() >= 40 || RISK.iter().any(|r| src.contains(r));
        CaseOut::pass(src.to_string(), nontrivial).with_labels(labels)
    }
}

fn kind_of(e: &boa_parser::Error) -> &'static str {
    use boa_parser::Error as E;
    match e {
        E::Expected { .. } => "expected",
        E::Unexpected { .. } => "unexpected",
        E::AbruptEnd => "abrupt-end",
        E::Lex { .. } => "lex",
        E::ScopeAnalysis { .. } => "scope-analysis",
        E::General { .. } => "general",
    }
}

impl Prop for C19 {
    fn id(&self) -> &'static str {
        "C19"
    }
    fn streams(&self, tier: Tier) -> Vec<Stream> {
        let m = if tier == Tier::Quick { 1 } else { 60 };
        vec![
            Stream::new("risk", 8000 * m, 120).batch(500),
            Stream::new("program", 3000 * m, 700).batch(100),
            Stream::new("arbitrary-ast", 8000 * m, 600).batch(400),
            Stream::new("mutant", 8000 * m, 500).batch(400),
            Stream::new("raw", 6000 * m, 200).batch(1000),
        ]
    }
    fn rule(&self) -> String {
        "texts: risk = 1-6 snippets drawn from a list of ~190 precedence/ASI/template/regex/arrow/optional-chain/class/destructuring/module risk constructs, optionally wrapped (function body, block, arrow, class method, async/generator) and combined, script and module goal; program = gen::prog programs (also the trace clause: boa trace of the printed form equals boa trace of the original); arbitrary-ast = the maintainers' Arbitrary StatementList printed to source; mutant = token-level mutants of programs and risk snippets; raw = token soup. Checks: parse never panics and returns Ok or an Err whose line/column lies inside the text; a parse of ASCII escape-free text interns only substrings of the text; for accepted s with p = print(parse(s)): parse(p) succeeds, print(parse(p)) == p, parse(p) == parse(print(parse(p))) by AST equality, parsing p interns nothing new. Non-trivial = accepted and (contains a risk construct or printed form >= 40 chars); distinct = distinct source".into()
    }
    fn run_case(&self, _env: &mut Env, stream: &str, _index: u64, tape: &[u8]) -> CaseOut {
        let mut t = Tape::new(tape);
        match stream {
            "risk" => {
                let n = 1 + t.below(5);
                let mut parts = vec![];
                let mut module = false;
                for _ in 0..n {
                    let r = *t.pick(RISK);
                    if r.starts_with("export") || r.starts_with("import ") || r.contains("import.meta") {
                        module = true;
                    }
                    let wrapped = match t.below(9) {
                        0 => format!("function w() {{ {r} }}"),
                        1 => format!("{{ {r} }}"),
                        2 => format!("x = () => {{ {r} }};"),
                        3 => format!("class W {{ m() {{ {r} }} }}"),
                        4 => format!("async function* w() {{ {r} }}"),
                        5 => format!("if (a) {{ {r} }} else {{ {r} }}"),
                        _ => r.to_string(),
                    };
                    let wrapped = if wrapped.contains("export") || wrapped.contains("import ") && !wrapped.starts_with("import") || wrapped.contains("import d") { r.to_string() } else { wrapped };
                    parts.push(wrapped);
                }
                let src = parts.join("\n");
                if module {
                    self.check_text(&src, true, false)
                } else {
                    self.check_text(&src, false, false)
                }
            }
            "program" => {
                let o = match t.below(3) {
                    0 => prog::Opts::core(),
                    1 => prog::Opts::scope(),
                    _ => prog::Opts::lit(),
                };
                if t.chance(40) {
                    // builtin-call programs can observe function source text: fixpoint clauses only
                    let p = wild::generate(&tape[2.min(tape.len())..]).src;
                    return self.check_text(&p, false, false);
                }
                let p = prog::generate(&tape[2.min(tape.len())..], o).src;
                self.check_text(&p, false, true)
            }
            "arbitrary-ast" => match arb::arb_source(tape) {
                Some(s) => self.check_text(&s, false, false),
                None => CaseOut::skip(String::new(), "arbitrary-ast-not-generated"),
            },
            "mutant" => {
                let base = if t.bool() {
                    let n = 1 + t.below(4);
                    (0..n).map(|_| *t.pick(RISK)).collect::<Vec<_>>().join("\n")
                } else {
                    let p = prog::generate(&tape[24.min(tape.len())..], prog::Opts::core());
                    p.src[p.src.find(prog::PRELUDE).map_or(0, |i| i + prog::PRELUDE.len())..].to_string()
                };
                let m = crate::props::c02::mutate_text(&base, &mut t);
                self.check_text(&m, t.chance(30), false)
            }
            _ => {
                let n = 1 + t.below(60);
                let mut s = String::new();
                for _ in 0..n {
                    if t.chance(200) {
                        s.push_str(crate::props::c02::dict_token(&mut t));
                        s.push(' ');
                    } else {
                        s.push(char::from(32 + t.u8() % 95));
                    }
                }
                self.check_text(&s, t.chance(30), false)
            }
        }
    }
    fn run_rendered(&self, _env: &mut Env, stream: &str, rendered: &str) -> Option<CaseOut> {
        let module = rendered.lines().any(|l| l.starts_with("export ") || l.starts_with("import ") && !l.starts_with("import("));
        Some(self.check_text(rendered, module, stream == "program"))
    }
    fn rendered_prefix_lines(&self, _r: &str) -> usize {
        0
    }
}
