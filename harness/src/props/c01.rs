//! C01 — core-language evaluation agrees with ECMAScript reference semantics (V8 as reference),
//! independent of source form and entry mode.

use crate::driver::{CaseOut, Env, Prop, Stream, Tier};
use crate::genp::prog::{Opts, generate};
use crate::oracle::node_script;
use crate::run::{Completion, Entry, RunCfg, Trace, completion_of, make_context, run};
use boa_engine::{JsValue, Source, js_string};

pub struct C01;

fn diff(boa: &Trace, node_prints: &[String], node_completion: &str) -> Option<(String, String)> {
    let bc = boa.completion.render();
    if boa.prints != node_prints {
        let k = boa.prints.iter().zip(node_prints.iter()).position(|(a, b)| a != b).unwrap_or(boa.prints.len().min(node_prints.len()));
        let detail = format!(
            "prints differ at line {k}: boa={:?} v8={:?}\n--- boa\n{}\n--- v8\n{}\n=> {}",
            boa.prints.get(k),
            node_prints.get(k),
            boa.render(),
            node_prints.join("\n"),
            node_completion
        );
        let class = if matches!(boa.completion, Completion::Panic(_)) { format!("panic {bc}") } else { "prints".to_string() };
        return Some((format!("prints-differ {class}"), detail));
    }
    if bc != node_completion {
        let strip = |s: &str| s.split(':').take(2).collect::<Vec<_>>().join(":");
        return Some((format!("completion boa={} v8={}", strip(&bc), strip(node_completion)), format!("boa: {bc}\nv8: {node_completion}\n{}", boa.render())));
    }
    None
}

/// function-call mode B: evaluate the declarations, then the host calls `main`.
fn run_host_call(src: &str) -> Trace {
    crate::run::install_panic_hook();
    crate::run::PRINTS.with(|p| p.borrow_mut().clear());
    let cfg = RunCfg::default();
    let res = std::panic::catch_unwind(std::panic::AssertUnwindSafe(|| {
        let mut ctx = make_context(&cfg);
        let r = ctx.eval(Source::from_bytes(src.as_bytes()));
        if r.is_err() {
            return crate::run::classify(&r, src);
        }
        let main = ctx.global_object().get(js_string!("main"), &mut ctx);
        let r = match main {
            Ok(m) => match m.as_object() {
                Some(f) => f.call(&JsValue::undefined(), &[], &mut ctx),
                None => Ok(JsValue::undefined()),
            },
            Err(e) => Err(e),
        };
        let c = completion_of(&r);
        let _ = ctx.run_jobs();
        c
    }));
    let completion = match res {
        Ok(c) => c,
        Err(_) => Completion::Panic(crate::run::panic_signature(&crate::run::take_last_panic().unwrap_or_default())),
    };
    let prints = crate::run::PRINTS.with(|p| std::mem::take(&mut *p.borrow_mut()));
    Trace { prints, completion }
}

impl C01 {
    fn check_src(&self, env: &mut Env, stream: &str, src: &str, labels: Vec<&'static str>, kinds: usize) -> CaseOut {
        let (np, nc) = match node_script(match env.node() { Ok(n) => n, Err(e) => return CaseOut::skip(src.to_string(), format!("oracle-unavailable: {e}")) }, src) {
            Ok(x) => x,
            Err(e) => return CaseOut::skip(src.to_string(), format!("oracle-error: {e}")),
        };
        if nc == "limit:timeout" {
            return CaseOut::skip(src.to_string(), "v8-timeout");
        }
        let mut modes: Vec<(&'static str, RunCfg)> = vec![
            ("eval", RunCfg::default()),
            ("script-reader", RunCfg { entry: Entry::ScriptReader, ..RunCfg::default() }),
            ("utf16", RunCfg { entry: Entry::Utf16, ..RunCfg::default() }),
            ("async-budget-1", RunCfg { entry: Entry::AsyncBudget(1), ..RunCfg::default() }),
            ("async-budget-7", RunCfg { entry: Entry::AsyncBudget(7), ..RunCfg::default() }),
            ("async-budget-256", RunCfg { entry: Entry::AsyncBudget(256), ..RunCfg::default() }),
        ];
        if env.tier == Tier::Thorough {
            // the conservative code generator is compared with V8 too, so that C04's two
            // configurations cannot be equal-but-wrong
            modes.push(("all-shortcuts-off", RunCfg { force_escape: true, no_const_cache: true, no_hoist: true, no_fusion: true, ..RunCfg::default() }));
            modes.push(("optimizer-off", RunCfg { optimizer: Some(0), ..RunCfg::default() }));
        }
        let mut prints_n = 0;
        for (name, cfg) in &modes {
            let t = run(src, cfg);
            if t.completion.is_limit() {
                return CaseOut::skip(src.to_string(), "boa-limit");
            }
            prints_n = t.prints.len();
            if let Some((sig, detail)) = diff(&t, &np, &nc) {
                return CaseOut::fail(src.to_string(), format!("{name}: {sig}"), format!("entry mode {name}\n{detail}")).with_labels(labels);
            }
        }
        if stream == "main" {
            // mode A was the text ending in `main()`; mode B strips the call and calls from the host
            if let Some(decls) = src.strip_suffix("main();\n") {
                let t = run_host_call(decls);
                if let Some((sig, detail)) = diff(&t, &np, &nc) {
                    return CaseOut::fail(src.to_string(), format!("host-call: {sig}"), format!("entry mode host JsObject::call of main\n{detail}")).with_labels(labels);
                }
            }
        }
        let early = nc == "early-syntax-error";
        let mut labels = labels;
        if early {
            labels.push("early-error");
        }
        if nc.starts_with("throw:") {
            labels.push("uncaught-throw");
        }
        let nontrivial = !early && kinds >= 5 && prints_n >= 3;
        CaseOut::pass(src.to_string(), nontrivial).with_labels(labels)
    }
}

fn count_kinds(src: &str) -> usize {
    // used for rendered replays where generator metadata is unavailable
    ["let ", "const ", "var ", "if (", "for (", "while (", "switch (", "try {", "function", "class ", "=>", "yield", "print("].iter().filter(|k| src.contains(**k)).count()
}

impl Prop for C01 {
    fn id(&self) -> &'static str {
        "C01"
    }
    fn streams(&self, tier: Tier) -> Vec<Stream> {
        let m = if tier == Tier::Quick { 1 } else { 60 };
        vec![Stream::new("core", 2000 * m, 700).batch(50), Stream::new("main", 1000 * m, 700).batch(50)]
    }
    fn rule(&self) -> String {
        "programs generated from the byte tape by gen::prog (profile core: declarations, closures, generators incl. yield*, classes, destructuring, custom iterables, labelled control flow, try/finally, eval/with, TDZ probes, captured block bindings read back at program end, abrupt exits through nested capturing scopes, Map/Set mutated under live and abandoned iterators, anonymous functions in name-inferring positions, literal/constant-expression conditions; stream `main` wraps the body in function main and adds host-call entry); each is run in V8 (node vm, fresh context) and in boa through 6 entry modes (eval bytes, Script::parse from reader, UTF-16 source, evaluate_async_with_budget 1/7/256) [+ host JsObject::call for stream main; thorough adds all-shortcuts-off and optimizer-off]; non-trivial = V8 accepts it (no early error), >= 5 distinct statement kinds, >= 3 printed lines; distinct = distinct source text".into()
    }
    fn assumptions(&self) -> Vec<String> {
        vec!["V8 (node 20) implements the ECMAScript semantics of the generated fragment; the generator avoids Annex B, implementation-defined text, transcendental Math, deep recursion".into()]
    }
    fn run_case(&self, env: &mut Env, stream: &str, _index: u64, tape: &[u8]) -> CaseOut {
        let mut o = Opts::core();
        if stream == "main" {
            o.in_main = true;
        }
        let p = generate(tape, o);
        let mut labels = p.labels.clone();
        for e in &p.excluded {
            labels.push(e);
        }
        self.check_src(env, stream, &p.src, labels, p.stmt_kinds)
    }
    fn run_rendered(&self, env: &mut Env, stream: &str, rendered: &str) -> Option<CaseOut> {
        Some(self.check_src(env, stream, rendered, vec![], count_kinds(rendered)))
    }
}
